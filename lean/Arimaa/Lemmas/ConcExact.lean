import Arimaa.Lemmas.ConcCount

/-!
# Exactness of the counts of the thread/heap model (`count = number of live references`)

`Lemmas/ConcCount.lean` proves the half of the count invariant that memory safety needs (every live
reference is counted).  This file adds the other half: the ghost owner list of a node has no duplicates and
every owner in it is a live reference (`Exact`), so that — with `Inv.counted` — the owners of a node are
exactly the tokens of its live references and its count is their number.  Handle keys are unique per
thread (`func`, `KeysLt`), so distinct handles have distinct tokens.
-/

namespace Arimaa.Conc

structure Exact (a : AState) : Prop where
  nodup : ∀ id, (a.arcs id).owners.Nodup
  exact : ∀ id tok, tok ∈ (a.arcs id).owners → Refs a id tok
  func : ∀ t k x y, (k, x) ∈ a.tbl t → (k, y) ∈ a.tbl t → x = y

theorem exact_dec {a a' : AState} (e : Exact a) {u : Nat} {id : NodeId} {tok : Owner}
    (hu : a.rel u = .dec id tok)
    (hf : a'.fields = a.fields) (hro : a'.roots = a.roots) (ht : a'.tbl = a.tbl)
    (hfreed : ∀ x, (a'.arcs x).freed = (a.arcs x).freed)
    (hown_ne : ∀ x, x ≠ id → (a'.arcs x).owners = (a.arcs x).owners)
    (hown_id : (a'.arcs id).owners = (a.arcs id).owners.erase tok)
    (hrel_ne : ∀ t, t ≠ u → a'.rel t = a.rel t) :
    Exact a' := by
  have transfer : ∀ x tok', Refs a x tok' → ¬ (x = id ∧ tok' = tok) → Refs a' x tok' := by
    intro x tok' r hne
    cases r with
    | root hi => rw [← hro] at hi; exact .root hi
    | handle hk => rw [← ht] at hk; exact .handle hk
    | link hp hn hfr => rw [← hf] at hp; rw [← hfreed] at hfr; exact .link hp hn hfr
    | pending hp =>
      rename_i t
      by_cases htu : t = u
      · subst htu; rw [hu] at hp; cases hp; exact absurd ⟨rfl, rfl⟩ hne
      · rw [← hrel_ne t htu] at hp; exact .pending hp
  refine ⟨?_, ?_, ?_⟩
  · intro x
    by_cases hx : x = id
    · subst hx; rw [hown_id]; exact (e.nodup x).erase tok
    · rw [hown_ne x hx]; exact e.nodup x
  · intro x tok' hm
    by_cases hx : x = id
    · subst hx
      rw [hown_id] at hm
      have := (e.nodup x).mem_erase_iff.1 hm
      exact transfer x tok' (e.exact x tok' this.2) (fun hc => this.1 hc.2)
    · rw [hown_ne x hx] at hm
      exact transfer x tok' (e.exact x tok' hm) (fun hc => hx hc.1)
  · intro t k x y h1 h2; rw [ht] at h1 h2; exact e.func t k x y h1 h2

theorem exact_free {a a' : AState} (e : Exact a) {u : Nat} {p : NodeId} (hu : a.rel u = .free p)
    (hf : a'.fields = a.fields) (hro : a'.roots = a.roots) (ht : a'.tbl = a.tbl)
    (hown : ∀ x, (a'.arcs x).owners = (a.arcs x).owners)
    (hfreed_ne : ∀ x, x ≠ p → (a'.arcs x).freed = (a.arcs x).freed)
    (hrel_ne : ∀ t, t ≠ u → a'.rel t = a.rel t)
    (hrel_u : (∀ f j, a.fields p = some f → f.next ≠ some j) ∨
      ∃ f j, a.fields p = some f ∧ f.next = some j ∧ a'.rel u = .dec j (.node p)) :
    Exact a' := by
  refine ⟨?_, ?_, ?_⟩
  · intro x; rw [hown]; exact e.nodup x
  · intro x tok hm
    rw [hown] at hm
    have r := e.exact x tok hm
    cases r with
    | root hi => rw [← hro] at hi; exact .root hi
    | handle hk => rw [← ht] at hk; exact .handle hk
    | link hp hn hfr =>
      rename_i q f
      by_cases hq : q = p
      · subst hq
        rcases hrel_u with hnone | ⟨f', j, hf', hj, hr⟩
        · exact absurd hn (hnone f x hp)
        · rw [hp] at hf'; cases hf'
          rw [hn] at hj; cases hj
          exact .pending hr
      · rw [← hf] at hp; rw [← hfreed_ne q hq] at hfr; exact .link hp hn hfr
    | pending hp =>
      rename_i t
      by_cases htu : t = u
      · subst htu; rw [hu] at hp; cases hp
      · rw [← hrel_ne t htu] at hp; exact .pending hp
  · intro t k x y h1 h2; rw [ht] at h1 h2; exact e.func t k x y h1 h2

theorem func_cons {tbl : List (Nat × NodeId)} {k : Nat} {id0 : NodeId}
    (hfunc : ∀ k x y, (k, x) ∈ tbl → (k, y) ∈ tbl → x = y) (hnew : ∀ x, (k, x) ∉ tbl) :
    ∀ k' x y, (k', x) ∈ (k, id0) :: tbl → (k', y) ∈ (k, id0) :: tbl → x = y := by
  intro k' x y h1 h2
  rcases List.mem_cons.1 h1 with e1 | h1 <;> rcases List.mem_cons.1 h2 with e2 | h2
  · cases e1; cases e2; rfl
  · cases e1; exact absurd h2 (hnew y)
  · cases e2; exact absurd h1 (hnew x)
  · exact hfunc k' x y h1 h2

theorem exact_clone {a a' : AState} (h : Inv a) (e : Exact a) {u k : Nat} {id0 : NodeId}
    (hidle : a.rel u = .idle) (hnew : ∀ x, (k, x) ∉ a.tbl u)
    (hf : a'.fields = a.fields) (hro : a'.roots = a.roots) (hrel : a'.rel = a.rel)
    (hfreed : ∀ x, (a'.arcs x).freed = (a.arcs x).freed)
    (hown_ne : ∀ x, x ≠ id0 → (a'.arcs x).owners = (a.arcs x).owners)
    (hown_id : (a'.arcs id0).owners = .handle u k :: (a.arcs id0).owners)
    (ht_ne : ∀ t, t ≠ u → a'.tbl t = a.tbl t) (ht_u : a'.tbl u = (k, id0) :: a.tbl u) :
    Exact a' := by
  have transfer : ∀ x tok, Refs a x tok → Refs a' x tok := by
    intro x tok r
    cases r with
    | root hi => rw [← hro] at hi; exact .root hi
    | handle hk =>
      rename_i t k'
      by_cases htu : t = u
      · subst htu; exact .handle (by rw [ht_u]; exact List.mem_cons_of_mem _ hk)
      · rw [← ht_ne t htu] at hk; exact .handle hk
    | link hp hn hfr => rw [← hf] at hp; rw [← hfreed] at hfr; exact .link hp hn hfr
    | pending hp => rw [← hrel] at hp; exact .pending hp
  refine ⟨?_, ?_, ?_⟩
  · intro x
    by_cases hx : x = id0
    · subst hx
      rw [hown_id]
      refine List.nodup_cons.2 ⟨?_, e.nodup x⟩
      intro hm
      have r := e.exact x _ hm
      cases r with
      | handle hk => exact hnew x hk
      | pending hp =>
        rename_i t
        have := (h.pendH t x u k hp).1
        subst this
        rw [hidle] at hp; cases hp
    · rw [hown_ne x hx]; exact e.nodup x
  · intro x tok hm
    by_cases hx : x = id0
    · subst hx
      rw [hown_id] at hm
      rcases List.mem_cons.1 hm with heq | hm
      · subst heq; exact .handle (by rw [ht_u]; exact List.mem_cons_self)
      · exact transfer x tok (e.exact x tok hm)
    · rw [hown_ne x hx] at hm
      exact transfer x tok (e.exact x tok hm)
  · intro t k' x y h1 h2
    by_cases htu : t = u
    · subst htu
      rw [ht_u] at h1 h2
      exact func_cons (e.func t) hnew k' x y h1 h2
    · rw [ht_ne t htu] at h1 h2; exact e.func t k' x y h1 h2

theorem exact_alloc {a a' : AState} (h : Inv a) (e : Exact a) {u c k : Nat} {f : Fields}
    (hc : a.actr u = some c) (hnew : ∀ x, (k, x) ∉ a.tbl u)
    (hro : a'.roots = a.roots) (hrel : a'.rel = a.rel)
    (hf_new : a'.fields ⟨u + 1, c⟩ = some f) (hf_ne : ∀ x, x ≠ ⟨u + 1, c⟩ → a'.fields x = a.fields x)
    (harc_new : a'.arcs ⟨u + 1, c⟩ = { owners := [.handle u k], freed := false })
    (harc_j : ∀ j, f.next = some j → j ≠ ⟨u + 1, c⟩ ∧
      (a'.arcs j).owners = .node ⟨u + 1, c⟩ :: (a.arcs j).owners ∧ (a'.arcs j).freed = (a.arcs j).freed)
    (harc_ne : ∀ x, x ≠ ⟨u + 1, c⟩ → f.next ≠ some x → a'.arcs x = a.arcs x)
    (ht_ne : ∀ t, t ≠ u → a'.tbl t = a.tbl t) (ht_u : a'.tbl u = (k, ⟨u + 1, c⟩) :: a.tbl u) :
    Exact a' := by
  have F := h.fresh u c c hc (Nat.le_refl _)
  have hfreed : ∀ x, x ≠ ⟨u + 1, c⟩ → (a'.arcs x).freed = (a.arcs x).freed := by
    intro x hx
    by_cases hj : f.next = some x
    · exact (harc_j x hj).2.2
    · rw [harc_ne x hx hj]
  have transfer : ∀ x tok, Refs a x tok → Refs a' x tok := by
    intro x tok r
    cases r with
    | root hi => rw [← hro] at hi; exact .root hi
    | handle hk =>
      rename_i t k'
      by_cases htu : t = u
      · subst htu; exact .handle (by rw [ht_u]; exact List.mem_cons_of_mem _ hk)
      · rw [← ht_ne t htu] at hk; exact .handle hk
    | link hp hn hfr =>
      rename_i q f'
      have hq : q ≠ ⟨u + 1, c⟩ := by
        intro hq; subst hq; rw [F.nofields] at hp; cases hp
      rw [← hf_ne q hq] at hp; rw [← hfreed q hq] at hfr; exact .link hp hn hfr
    | pending hp => rw [← hrel] at hp; exact .pending hp
  have hnode_new : ∀ x, Owner.node ⟨u + 1, c⟩ ∉ (a.arcs x).owners := by
    intro x hm
    have r := e.exact x _ hm
    cases r with
    | link hp _ _ => rw [F.nofields] at hp; cases hp
    | pending hp =>
      rename_i t
      have := h.pendN t x _ hp
      rw [F.notfreed] at this; cases this
  refine ⟨?_, ?_, ?_⟩
  · intro x
    by_cases hx : x = ⟨u + 1, c⟩
    · subst hx; rw [harc_new]; exact List.nodup_cons.2 ⟨by simp, List.nodup_nil⟩
    · by_cases hj : f.next = some x
      · rw [(harc_j x hj).2.1]
        exact List.nodup_cons.2 ⟨hnode_new x, e.nodup x⟩
      · rw [harc_ne x hx hj]; exact e.nodup x
  · intro x tok hm
    by_cases hx : x = ⟨u + 1, c⟩
    · subst hx
      rw [harc_new] at hm
      rcases List.mem_cons.1 hm with heq | hm
      · subst heq; exact .handle (by rw [ht_u]; exact List.mem_cons_self)
      · cases hm
    · by_cases hj : f.next = some x
      · rw [(harc_j x hj).2.1] at hm
        rcases List.mem_cons.1 hm with heq | hm
        · subst heq
          exact .link hf_new hj (by rw [harc_new])
        · exact transfer x tok (e.exact x tok hm)
      · rw [harc_ne x hx hj] at hm
        exact transfer x tok (e.exact x tok hm)
  · intro t k' x y h1 h2
    by_cases htu : t = u
    · subst htu
      rw [ht_u] at h1 h2
      exact func_cons (e.func t) hnew k' x y h1 h2
    · rw [ht_ne t htu] at h1 h2; exact e.func t k' x y h1 h2

theorem exact_release {a a' : AState} (e : Exact a) {u key : Nat} {id0 : NodeId} (hidle : a.rel u = .idle)
    (hmem : (key, id0) ∈ a.tbl u)
    (hf : a'.fields = a.fields) (hro : a'.roots = a.roots) (harcs : a'.arcs = a.arcs)
    (ht_ne : ∀ t, t ≠ u → a'.tbl t = a.tbl t) (ht_u : a'.tbl u = (a.tbl u).filter (fun p => p.1 != key))
    (hrel_ne : ∀ t, t ≠ u → a'.rel t = a.rel t) (hrel_u : a'.rel u = .dec id0 (.handle u key)) :
    Exact a' := by
  refine ⟨?_, ?_, ?_⟩
  · intro x; rw [harcs]; exact e.nodup x
  · intro x tok hm
    rw [harcs] at hm
    have r := e.exact x tok hm
    cases r with
    | root hi => rw [← hro] at hi; exact .root hi
    | handle hk =>
      rename_i t k'
      by_cases htu : t = u
      · subst htu
        by_cases hk' : k' = key
        · subst hk'
          have := e.func t k' x id0 hk hmem
          subst this
          exact .pending hrel_u
        · refine .handle ?_
          rw [ht_u]
          exact List.mem_filter.2 ⟨hk, by simpa using hk'⟩
      · rw [← ht_ne t htu] at hk; exact .handle hk
    | link hp hn hfr => rw [← hf] at hp; rw [← harcs] at hfr; exact .link hp hn hfr
    | pending hp =>
      rename_i t
      by_cases htu : t = u
      · subst htu; rw [hidle] at hp; cases hp
      · rw [← hrel_ne t htu] at hp; exact .pending hp
  · intro t k x y h1 h2
    by_cases htu : t = u
    · subst htu
      rw [ht_u] at h1 h2
      exact e.func t k x y (List.mem_filter.1 h1).1 (List.mem_filter.1 h2).1
    · rw [ht_ne t htu] at h1 h2; exact e.func t k x y h1 h2

/-! ### handle keys are below the thread's key counter -/

def KeysLt (ths : List Thread) : Prop :=
  ∀ (t : Nat) (th : Thread), ths[t]? = some th → ∀ k id, (k, id) ∈ th.loc.table → k < th.loc.ctr

theorem instr_keysLt (t : Nat) (roots : List NodeId) (V : View) (L : Local)
    (hk : ∀ k id, (k, id) ∈ L.table → k < L.ctr) :
    ∀ k id, (k, id) ∈ (instr t roots V L).1.table → k < (instr t roots V L).1.ctr := by
  have hcons : ∀ x k id, (k, id) ∈ (L.ctr, x) :: L.table → k < L.ctr + 1 := by
    intro x k id hm
    rcases List.mem_cons.1 hm with heq | hm
    · cases heq; omega
    · have := hk k id hm; omega
  unfold instr
  split
  · exact hk
  · exact hk
  · exact hk
  · split
    · exact hcons _
    · exact hk
  · exact hcons _
  · split
    · intro k id hm; exact hk k id (List.mem_filter.1 hm).1
    · exact hk

theorem keysLt_set {ths : List Thread} (kl : KeysLt ths) (u : Nat) (x : Thread)
    (hx : ∀ k id, (k, id) ∈ x.loc.table → k < x.loc.ctr) : KeysLt (ths.set u x) := by
  intro t th' ht
  by_cases htu : t = u
  · subst htu
    rw [List.getElem?_set] at ht
    split at ht
    · split at ht
      · cases ht; exact hx
      · cases ht
    · exact kl t th' ht
  · rw [List.getElem?_set_ne (Ne.symm htu)] at ht
    exact kl t th' ht

theorem keysLt_step (s : State) (u : Nat) (kl : KeysLt s.threads) : KeysLt (step s u).threads := by
  cases hu : s.threads[u]? with
  | none => rw [step_oob hu]; exact kl
  | some th =>
    have hth := kl u th hu
    cases hrel : th.rel with
    | dec id tok => rw [step_dec hu hrel]; exact keysLt_set kl u _ hth
    | free p =>
      cases hn : (s.fields p).bind (·.next) with
      | none => rw [step_free_none hu hrel hn]; exact keysLt_set kl u _ hth
      | some j => rw [step_free_some hu hrel hn]; exact keysLt_set kl u _ hth
    | idle =>
      have hL := instr_keysLt u s.roots (view u s.fields) th.loc hth
      cases hI : instr u s.roots (view u s.fields) th.loc with
      | mk L eff =>
        rw [hI] at hL
        cases eff with
        | none => rw [step_instr_none hu hrel hI]; exact keysLt_set kl u _ hL
        | addOwner id tok => rw [step_instr_addOwner hu hrel hI]; exact keysLt_set kl u _ hL
        | release id tok => rw [step_instr_release hu hrel hI]; exact keysLt_set kl u _ hL
        | alloc newid f tok =>
          cases hn : f.next with
          | none => rw [step_instr_alloc_none hu hrel hI hn]; exact keysLt_set kl u _ hL
          | some j => rw [step_instr_alloc_some hu hrel hI hn]; exact keysLt_set kl u _ hL

/-! ### from the abstract steps to `step` -/

/-- **every atomic step of every thread preserves exactness of the counts** -/
theorem exact_step (s : State) (u : Nat) (h : Inv (abs s)) (e : Exact (abs s)) (kl : KeysLt s.threads) :
    Exact (abs (step s u)) := by
  cases hu : s.threads[u]? with
  | none => rw [step_oob hu]; exact e
  | some th =>
    have hnew : ∀ x, (th.loc.ctr, x) ∉ (abs s).tbl u := by
      intro x hm
      change (th.loc.ctr, x) ∈ tableOf s.threads u at hm
      rw [tableOf_of hu] at hm
      exact Nat.lt_irrefl _ (kl u th hu _ _ hm)
    cases hrel : th.rel with
    | dec id tok =>
      rw [step_dec hu hrel]
      have hru : (abs s).rel u = .dec id tok := by show relOf s.threads u = _; rw [relOf_of hu, hrel]
      refine exact_dec e hru rfl rfl (tableOf_set_same hu rfl) ?_ ?_ ?_ ?_
      · intro x
        show (upd s.arcs id _ x).freed = (s.arcs x).freed
        by_cases hx : x = id
        · subst hx; rw [upd_self]
        · rw [upd_ne _ _ _ _ hx]
      · intro x hx
        show (upd s.arcs id _ x).owners = (s.arcs x).owners
        rw [upd_ne _ _ _ _ hx]
      · show (upd s.arcs id _ id).owners = _
        rw [upd_self]; rfl
      · intro t htu; exact relOf_set_ne _ htu
    | free p =>
      have hru : (abs s).rel u = .free p := by show relOf s.threads u = _; rw [relOf_of hu, hrel]
      cases hn : (s.fields p).bind (·.next) with
      | none =>
        rw [step_free_none hu hrel hn]
        refine exact_free e hru rfl rfl (tableOf_set_same hu rfl) ?_ ?_ ?_ ?_
        · intro x
          show (upd s.arcs p _ x).owners = (s.arcs x).owners
          by_cases hx : x = p
          · subst hx; rw [upd_self]
          · rw [upd_ne _ _ _ _ hx]
        · intro x hx
          show (upd s.arcs p _ x).freed = (s.arcs x).freed
          rw [upd_ne _ _ _ _ hx]
        · intro t htu; exact relOf_set_ne _ htu
        · left
          intro f j hfp hj
          change s.fields p = some f at hfp
          rw [hfp] at hn
          simp [hj] at hn
      | some j =>
        rw [step_free_some hu hrel hn]
        refine exact_free e hru rfl rfl (tableOf_set_same hu rfl) ?_ ?_ ?_ ?_
        · intro x
          show (upd s.arcs p _ x).owners = (s.arcs x).owners
          by_cases hx : x = p
          · subst hx; rw [upd_self]
          · rw [upd_ne _ _ _ _ hx]
        · intro x hx
          show (upd s.arcs p _ x).freed = (s.arcs x).freed
          rw [upd_ne _ _ _ _ hx]
        · intro t htu; exact relOf_set_ne _ htu
        · right
          cases hfp : s.fields p with
          | none => rw [hfp] at hn; cases hn
          | some f =>
            rw [hfp] at hn
            exact ⟨f, j, hfp, hn, relOf_set_self hu _⟩
    | idle =>
      have hidle : (abs s).rel u = .idle := by show relOf s.threads u = _; rw [relOf_of hu, hrel]
      cases hI : instr u s.roots (view u s.fields) th.loc with
      | mk L eff =>
        cases eff with
        | none =>
          rw [step_instr_none hu hrel hI]
          obtain ⟨h1, h2⟩ := instr_none_inv hI
          have : abs { s with threads := s.threads.set u { th with loc := L } } = abs s := by
            simp only [abs]
            rw [tableOf_set_same hu h1, relOf_set_same (x := { th with loc := L }) hu rfl, actrOf_set_same hu h2]
          rw [this]; exact e
        | addOwner id tok =>
          rw [step_instr_addOwner hu hrel hI]
          obtain ⟨_, htok, h1, _⟩ := instr_addOwner_inv hI
          subst htok
          refine exact_clone h e (u := u) (k := th.loc.ctr) (id0 := id) hidle hnew rfl rfl
            (relOf_set_same hu rfl) (fun x => addOwner_freed _ _ _ x) ?_ ?_ ?_ ?_
          · intro x hx
            show (addOwner s.arcs id _ x).owners = (s.arcs x).owners
            rw [addOwner_ne _ _ _ _ hx]
          · exact addOwner_self _ _ _
          · intro t htu; exact tableOf_set_ne _ htu
          · show tableOf (s.threads.set u _) u = _ :: tableOf s.threads u
            rw [tableOf_set_self hu, tableOf_of hu]; exact h1
        | release id tok =>
          rw [step_instr_release hu hrel hI]
          obtain ⟨key, htok, hmem, h1, _⟩ := instr_release_inv hI
          subst htok
          refine exact_release e (u := u) (key := key) (id0 := id) hidle ?_ rfl rfl rfl ?_ ?_ ?_ ?_
          · show (key, id) ∈ tableOf s.threads u
            rw [tableOf_of hu]; exact hmem
          · intro t htu; exact tableOf_set_ne _ htu
          · show tableOf (s.threads.set u _) u = (tableOf s.threads u).filter _
            rw [tableOf_set_self hu, tableOf_of hu]; exact h1
          · intro t htu; exact relOf_set_ne _ htu
          · exact relOf_set_self hu _
        | alloc newid f tok =>
          obtain ⟨hnewid, htok, h1, _, hnx⟩ := instr_alloc_inv hI
          subst htok
          have hc : (abs s).actr u = some th.loc.actr := actrOf_of hu
          have F := h.fresh u th.loc.actr th.loc.actr hc (Nat.le_refl _)
          rw [← hnewid] at F
          cases hn : f.next with
          | none =>
            rw [step_instr_alloc_none hu hrel hI hn]
            subst hnewid
            refine exact_alloc h e (u := u) (c := th.loc.actr) (k := th.loc.ctr) (f := f) hc hnew rfl
              (relOf_set_same hu rfl) ?_ ?_ ?_ ?_ ?_ ?_ ?_
            · exact upd_self _ _ _
            · intro x hx; exact upd_ne _ _ _ _ hx
            · exact upd_self _ _ _
            · intro j hj; rw [hn] at hj; cases hj
            · intro x hx _; exact upd_ne _ _ _ _ hx
            · intro t htu; exact tableOf_set_ne _ htu
            · show tableOf (s.threads.set u _) u = _ :: tableOf s.threads u
              rw [tableOf_set_self hu, tableOf_of hu]; exact h1
          | some j =>
            rw [step_instr_alloc_some hu hrel hI hn]
            obtain ⟨r, hres⟩ := hnx j hn
            have hal := (resolve_alive h hu hres).1
            have hjne : j ≠ newid := by
              intro hj; subst hj; exact hal F.noowners
            subst hnewid
            refine exact_alloc h e (u := u) (c := th.loc.actr) (k := th.loc.ctr) (f := f) hc hnew rfl
              (relOf_set_same hu rfl) ?_ ?_ ?_ ?_ ?_ ?_ ?_
            · exact upd_self _ _ _
            · intro x hx; exact upd_ne _ _ _ _ hx
            · show addOwner (upd s.arcs _ _) j _ _ = _
              rw [addOwner_ne _ _ _ _ (Ne.symm hjne), upd_self]
            · intro j' hj'
              rw [hn] at hj'; cases hj'
              refine ⟨hjne, ?_, ?_⟩
              · show (addOwner (upd s.arcs _ _) j _ j).owners = _ :: (s.arcs j).owners
                rw [addOwner_self, upd_ne _ _ _ _ hjne]
              · show (addOwner (upd s.arcs _ _) j _ j).freed = (s.arcs j).freed
                rw [addOwner_freed, upd_ne _ _ _ _ hjne]
            · intro x hx hxj
              have hxj' : x ≠ j := by intro hc'; subst hc'; exact hxj hn
              show addOwner (upd s.arcs _ _) j _ x = s.arcs x
              rw [addOwner_ne _ _ _ _ hxj', upd_ne _ _ _ _ hx]
            · intro t htu; exact tableOf_set_ne _ htu
            · show tableOf (s.threads.set u _) u = _ :: tableOf s.threads u
              rw [tableOf_set_self hu, tableOf_of hu]; exact h1

/-- the full count invariant: safety half, exactness half, key freshness -/
structure InvX (s : State) : Prop where
  inv : Inv (abs s)
  exact : Exact (abs s)
  keys : KeysLt s.threads

theorem invX_step (s : State) (u : Nat) (h : InvX s) : InvX (step s u) :=
  ⟨inv_step s u h.inv, exact_step s u h.inv h.exact h.keys, keysLt_step s u h.keys⟩

theorem invX_run (sched : List Nat) : ∀ s : State, InvX s → InvX (run s sched) := by
  induction sched with
  | nil => intro s h; exact h
  | cons u us ih => intro s h; exact ih _ (invX_step s u h)

/-- what is assumed of the initial state for exact counts, on top of `WellFormed`: the owner lists have no
duplicates and contain nothing but the root handles, the threads' handles and the `next` links of non-freed
nodes; a thread's handle keys are distinct and below its key counter -/
structure WellFormedX (s : State) : Prop extends WellFormed s where
  nodup : ∀ id, (s.arcs id).owners.Nodup
  onlyRefs : ∀ id tok, tok ∈ (s.arcs id).owners →
    (∃ i : Nat, tok = .root i ∧ s.roots[i]? = some id) ∨
    (∃ (t : Nat) (th : Thread) (k : Nat), tok = .handle t k ∧ s.threads[t]? = some th ∧ (k, id) ∈ th.loc.table) ∨
    (∃ (p : NodeId) (f : Fields), tok = .node p ∧ s.fields p = some f ∧ f.next = some id ∧ (s.arcs p).freed = false)
  keysFunc : ∀ (t : Nat) (th : Thread) (k : Nat) (x y : NodeId), s.threads[t]? = some th →
    (k, x) ∈ th.loc.table → (k, y) ∈ th.loc.table → x = y
  keysLt : KeysLt s.threads

theorem WellFormedX.invX {s : State} (w : WellFormedX s) : InvX s := by
  refine ⟨w.toWellFormed.inv, ⟨w.nodup, ?_, ?_⟩, w.keysLt⟩
  · intro id tok hm
    rcases w.onlyRefs id tok hm with ⟨i, rfl, hi⟩ | ⟨t, th, k, rfl, ht, hk⟩ | ⟨p, f, rfl, hp, hn, hfr⟩
    · exact .root hi
    · refine .handle ?_
      show (k, id) ∈ tableOf s.threads t
      rw [tableOf_of ht]; exact hk
    · exact .link hp hn hfr
  · intro t k x y h1 h2
    change (k, x) ∈ tableOf s.threads t at h1
    change (k, y) ∈ tableOf s.threads t at h2
    simp only [tableOf] at h1 h2
    cases ht : s.threads[t]? with
    | none => rw [ht] at h1; cases h1
    | some th => rw [ht] at h1 h2; exact w.keysFunc t th k x y ht h1 h2

end Arimaa.Conc
