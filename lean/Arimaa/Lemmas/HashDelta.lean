import Arimaa.Lemmas.ZobristTables

/-!
How `Zobrist::from_piece_board` changes when one feature of the position changes (algebraic part of
C17; also used by C08 for placements).  Independent of the table values.
-/
namespace Arimaa
open Gen

/-- the table-value function of one (owner, piece) plane -/
def planeF (op : Bool × Piece) : Nat → BB := fun sq => pieceValue sq op.2 op.1

theorem boardPart_eq_xsum' (b : Board) :
    boardPart b = xsum planes (fun op => xorOver (b.bitsForPiece op.2 op.1) (planeF op)) := rfl

theorem zFromPieceBoard_xor (b b' : Board) (side : Bool) (step : Nat) :
    zFromPieceBoard b side step ^^^ zFromPieceBoard b' side step = boardPart b ^^^ boardPart b' := by
  rw [zFromPieceBoard_eq, zFromPieceBoard_eq]
  generalize Z_INITIAL ^^^ (if side then 0 else Z_PLAYER_TO_MOVE) ^^^ stepValueAt step = h
  rw [BitVec.xor_comm h (boardPart b), BitVec.xor_assoc, xor_cancel_left]

/-! ### one plane changes at one square -/

/-- a piece `(o, p)` added to or removed from square `q`, nothing else changed: the board parts
differ by exactly `piece_value(q, p, o)` — for all boards -/
theorem boardPart_plane_delta (b b' : Board) (o : Bool) (p : Piece) (q : Nat) (hq : q < 64)
    (hsame : ∀ op : Bool × Piece, op ≠ (o, p) →
      b'.bitsForPiece op.2 op.1 = b.bitsForPiece op.2 op.1)
    (hdiff : b'.bitsForPiece p o = b.bitsForPiece p o ^^^ sqBit q) :
    boardPart b' = boardPart b ^^^ pieceValue q p o := by
  have h : boardPart b ^^^ boardPart b' = pieceValue q p o := by
    rw [← pieceBoardValue_eq]
    show xsum planes _ = _
    rw [xsum_single planes _ (o, p) planes_nodup (mem_planes _)]
    · show xorOver (b.bitsForPiece p o ^^^ b'.bitsForPiece p o) _ = _
      rw [hdiff, xor_cancel_left, xorOver_sqBit q hq]
    · intro op _ hne
      show xorOver (b.bitsForPiece op.2 op.1 ^^^ b'.bitsForPiece op.2 op.1) _ = 0
      rw [hsame op hne, bb_xor_self, xorOver_zero]
  rw [← h, xor_cancel_left]

/-! ### square contents -/

/-- what the hash sees on square `sq`: the first (in fact, on well-formed boards, the only)
(owner, piece) whose `bits_for_piece` plane has the square set -/
def Board.contentAt (b : Board) (sq : Nat) : Option (Bool × Piece) :=
  planes.find? (fun op => bit (b.bitsForPiece op.2 op.1) sq)

/-- every square carries at most one (owner, piece) -/
def Board.AtMostOne (b : Board) : Prop :=
  ∀ sq, sq < 64 → ∀ op ∈ planes, ∀ op' ∈ planes,
    bit (b.bitsForPiece op.2 op.1) sq = true → bit (b.bitsForPiece op'.2 op'.1) sq = true → op = op'

instance (b : Board) : Decidable b.AtMostOne := by
  unfold Board.AtMostOne; infer_instance

/-- contribution of square `i` to the board part -/
def sqPart (b : Board) (i : Nat) : BB :=
  xsum planes (fun op => xorTerm (b.bitsForPiece op.2 op.1) (planeF op) i)

theorem boardPart_eq_squares (b : Board) : boardPart b = xsum (List.range 64) (sqPart b) := by
  rw [boardPart_eq_xsum']
  unfold sqPart
  rw [← xsum_comm]
  apply xsum_congr
  intro op _
  exact xorOver_eq_xsum _ _

theorem sqPart_eq_content (b : Board) (hb : b.AtMostOne) (i : Nat) (hi : i < 64) :
    sqPart b i = contentValue i (b.contentAt i) := by
  unfold sqPart
  cases hc : b.contentAt i with
  | none =>
    unfold Board.contentAt at hc
    rw [List.find?_eq_none] at hc
    apply xsum_zero
    intro op hop
    have := hc op hop
    unfold xorTerm
    simp only [Bool.not_eq_true] at this
    rw [this]; rfl
  | some op =>
    unfold Board.contentAt at hc
    have hbit := List.find?_some hc
    have hmem := List.mem_of_find?_eq_some hc
    rw [xsum_single planes _ op planes_nodup hmem]
    · unfold xorTerm; rw [hbit]; rfl
    · intro op' hop' hne
      unfold xorTerm
      cases hb' : bit (b.bitsForPiece op'.2 op'.1) i
      · rfl
      · exact absurd (hb i hi op' hop' op hmem hb' hbit) hne

/-- on a board with at most one piece per square: the content of `i` is `(o, p)` iff the plane of
`(o, p)` has bit `i` -/
theorem contentAt_eq_some_iff (b : Board) (hb : b.AtMostOne) (i : Nat) (hi : i < 64)
    (op : Bool × Piece) : b.contentAt i = some op ↔ bit (b.bitsForPiece op.2 op.1) i = true := by
  constructor
  · intro hc
    unfold Board.contentAt at hc
    have h := List.find?_some hc
    exact h
  · intro hbit
    cases hc : b.contentAt i with
    | none =>
      unfold Board.contentAt at hc
      rw [List.find?_eq_none] at hc
      exact absurd hbit (hc op (mem_planes op))
    | some op' =>
      unfold Board.contentAt at hc
      have hbit' := List.find?_some hc
      have hmem := List.mem_of_find?_eq_some hc
      rw [hb i hi op' hmem op (mem_planes op) hbit' hbit]

/-- boards whose square contributions agree except on `q` -/
theorem boardPart_xor_one (b b' : Board) (q : Nat) (hq : q < 64)
    (hsame : ∀ i, i < 64 → i ≠ q → sqPart b i = sqPart b' i) :
    boardPart b ^^^ boardPart b' = sqPart b q ^^^ sqPart b' q := by
  rw [boardPart_eq_squares, boardPart_eq_squares, ← xsum_xor,
    xsum_single (List.range 64) _ q List.nodup_range (List.mem_range.mpr hq)]
  intro i hi hne
  rw [hsame i (List.mem_range.mp hi) hne, bb_xor_self]

/-- boards whose square contributions agree except on `q₁` and `q₂` -/
theorem boardPart_xor_two (b b' : Board) (q₁ q₂ : Nat) (h1 : q₁ < 64) (h2 : q₂ < 64) (hne : q₁ ≠ q₂)
    (hsame : ∀ i, i < 64 → i ≠ q₁ → i ≠ q₂ → sqPart b i = sqPart b' i) :
    boardPart b ^^^ boardPart b' =
      (sqPart b q₁ ^^^ sqPart b' q₁) ^^^ (sqPart b q₂ ^^^ sqPart b' q₂) := by
  rw [boardPart_eq_squares, boardPart_eq_squares, ← xsum_xor,
    xsum_pair (List.range 64) _ q₁ q₂ List.nodup_range (List.mem_range.mpr h1)
      (List.mem_range.mpr h2) hne]
  intro i hi hn1 hn2
  rw [hsame i (List.mem_range.mp hi) hn1 hn2, bb_xor_self]

/-! ### play-phase states with a from-scratch hash -/

/-- the play-phase state that `GameState::new` builds from a board, a side, a move number and a
`PlayPhase`: its `hash` field is `Zobrist::from_piece_board(board, side, step)` -/
def mkPlay (b : Board) (side : Bool) (moveNo : Nat) (pp : PlayPhase) : GameState :=
  { p1Turn := side, moveNo := moveNo, phase := .play pp, board := b,
    hash := zFromPieceBoard b side pp.step }

theorem transpositionHash_mkPlay (b : Board) (side : Bool) (n : Nat) (pp : PlayPhase) :
    (mkPlay b side n pp).transpositionHash = zFromPieceBoard b side pp.step ^^^ ppsValue pp.pps := by
  show zWithPPS _ _ = _
  rw [zWithPPS_eq]; rfl

end Arimaa
