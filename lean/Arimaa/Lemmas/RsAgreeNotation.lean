import Arimaa.Lemmas.RsAgreeSquare
import Arimaa.Lemmas.Notation

/-!
The `FromStr` parsers of piece.rs, direction.rs, square.rs and action.rs, translated (`Gen/RsSq.lean`; a `&str` is
the list of its chars, `Result<T, _>` is `Option T`, `str::parse::<usize>` is `Rt.parseUsize`) and PROVED equal to
the hand-written parsers of `Impl/Text.lean` that the C16 theorems are about — for every string.
-/
namespace Arimaa.RsAgree
open Arimaa Arimaa.Gen Arimaa.Rt

/-- an `Outcome` of the hand model as the result type of the translation -/
def ofOutcome {α : Type} : Outcome α → Res (Option α)
  | .ok a => .ok (some a)
  | .err => .ok none
  | .panic => .panic

theorem piece_char (c : Char) : (match c with
        | 'E' | 'e' => some Piece.elephant | 'M' | 'm' => some Piece.camel | 'H' | 'h' => some Piece.horse
        | 'D' | 'd' => some Piece.dog | 'C' | 'c' => some Piece.cat | 'R' | 'r' => some Piece.rabbit
        | _ => none) = pieceOfChar c := by
  unfold pieceOfChar
  by_cases h1 : c = 'E'
  · subst h1; rfl
  by_cases h2 : c = 'e'
  · subst h2; rfl
  by_cases h3 : c = 'M'
  · subst h3; rfl
  by_cases h4 : c = 'm'
  · subst h4; rfl
  by_cases h5 : c = 'H'
  · subst h5; rfl
  by_cases h6 : c = 'h'
  · subst h6; rfl
  by_cases h7 : c = 'D'
  · subst h7; rfl
  by_cases h8 : c = 'd'
  · subst h8; rfl
  by_cases h9 : c = 'C'
  · subst h9; rfl
  by_cases h10 : c = 'c'
  · subst h10; rfl
  by_cases h11 : c = 'R'
  · subst h11; rfl
  by_cases h12 : c = 'r'
  · subst h12; rfl
  split <;> first | contradiction | (split <;> first | rfl | contradiction)

theorem dir_char (c : Char) : (match c with
        | 'n' => some Dir.up | 'e' => some Dir.right | 's' => some Dir.down | 'w' => some Dir.left
        | _ => none) = dirOfChar c := by
  unfold dirOfChar
  by_cases h1 : c = 'n'
  · subst h1; rfl
  by_cases h2 : c = 'e'
  · subst h2; rfl
  by_cases h3 : c = 's'
  · subst h3; rfl
  by_cases h4 : c = 'w'
  · subst h4; rfl
  split <;> first | contradiction | (split <;> first | rfl | contradiction)

theorem piece_from_str (t : List Char) :
    RsSq.Piece_from_str t = (match parsePiece t with | .ok p => some p | _ => none) := by
  unfold RsSq.Piece_from_str parsePiece
  match t with
  | [] => rfl
  | [c] =>
    simp only [List.length_cons, List.length_nil, List.head?_cons]
    show (match (match c with
        | 'E' | 'e' => some Piece.elephant | 'M' | 'm' => some Piece.camel | 'H' | 'h' => some Piece.horse
        | 'D' | 'd' => some Piece.dog | 'C' | 'c' => some Piece.cat | 'R' | 'r' => some Piece.rabbit
        | _ => none) with
      | some piece => some piece
      | _ => none) = _
    rw [piece_char]
    cases pieceOfChar c <;> rfl
  | _ :: _ :: _ => rfl

theorem direction_from_str (t : List Char) :
    RsSq.Direction_from_str t = (match parseDir t with | .ok d => some d | _ => none) := by
  unfold RsSq.Direction_from_str parseDir
  match t with
  | [] => rfl
  | [c] =>
    simp only [List.length_cons, List.length_nil, List.head?_cons]
    show (match (match c with
        | 'n' => some Dir.up | 'e' => some Dir.right | 's' => some Dir.down | 'w' => some Dir.left
        | _ => none) with
      | some d => some d
      | _ => none) = _
    rw [dir_char]
    cases dirOfChar c <;> rfl
  | _ :: _ :: _ => rfl

/-- `"<c>".parse::<usize>()` for one character: exactly the ASCII digits -/
theorem parseUsize_single (c : Char) : Rt.parseUsize [c] = parseDigitChar c := by
  unfold Rt.parseUsize parseDigitChar
  by_cases hp : c = '+'
  · subst hp; decide
  · have hds : Rt.stripPlus [c] = [c] := by
      unfold Rt.stripPlus
      split
      · rename_i h; cases h; exact absurd rfl hp
      · rfl
    simp only [hds, List.isEmpty_cons, Bool.false_eq_true, if_false, List.all_cons, List.all_nil, Bool.and_true,
      List.foldl_cons, List.foldl_nil]
    by_cases hd : ('0' ≤ c ∧ c ≤ '9')
    · have h1 : 48 ≤ c.toNat := hd.1
      have h2 : c.toNat ≤ 57 := hd.2
      have hdig : Rt.isAsciiDigit c = true := by
        simp [Rt.isAsciiDigit, Nat.ble_eq, h1, h2]
      have hv : 0 * 10 + (c.toNat - 48) ≤ Rt.usizeMax := by unfold Rt.usizeMax; omega
      simp [hdig, hd]
      unfold Rt.usizeMax; omega
    · have hdig : Rt.isAsciiDigit c = false := by
        unfold Rt.isAsciiDigit
        rcases Nat.lt_or_ge c.toNat 48 with h | h
        · have : Nat.ble 48 c.toNat = false := by
            cases hb : Nat.ble 48 c.toNat
            · rfl
            · have := Nat.ble_eq.mp hb; omega
          simp [this]
        · have h9 : ¬ c.toNat ≤ 57 := by
            intro h57
            exact hd ⟨h, h57⟩
          have : Nat.ble c.toNat 57 = false := by
            cases hb : Nat.ble c.toNat 57
            · rfl
            · exact absurd (Nat.ble_eq.mp hb) h9
          simp [this]
      simp [hdig, hd]

theorem char_le_iff (a b : Char) : a ≤ b ↔ a.toNat ≤ b.toNat := Iff.rfl

theorem square_from_str (t : List Char) : RsSq.Square_from_str t = ofOutcome (parseSquare t) := by
  unfold RsSq.Square_from_str parseSquare
  match t with
  | [] => rfl
  | [_] => rfl
  | _ :: _ :: _ :: _ => rfl
  | [column, row] =>
    simp only [List.length_cons, List.length_nil]
    have hi0 : Rt.index [column, row] 0 = .ok column := rfl
    have hi1 : Rt.index [column, row] 1 = .ok row := rfl
    have hadd : Rt.addU8 ASCII_LETTER_A (BOARD_WIDTH % 256) = .ok 105 := by decide
    have hsub : Rt.subU8 105 1 = .ok 104 := by decide
    simp only [show ((0 + 1 + 1 : Nat) == 2) = true from rfl, cond_true, hi0, hi1, Res.bind_ok, parseUsize_single,
      hadd, hsub]
    cases hr : parseDigitChar row with
    | none => rfl
    | some r =>
      simp only []
      have h97 : (Char.ofNat ASCII_LETTER_A).toNat = 97 := by decide
      have h104 : (Char.ofNat 104).toNat = 104 := by decide
      have h104' : Char.ofNat (ASCII_LETTER_A + BOARD_WIDTH - 1) = Char.ofNat 104 := by decide
      simp only [h97, h104, h104', char_le_iff, BOARD_HEIGHT]
      by_cases hc : 97 ≤ column.toNat ∧ column.toNat ≤ 104 ∧ 1 ≤ r ∧ r ≤ 8
      · obtain ⟨c1, c2, r1, r2⟩ := hc
        have hb : (Nat.ble 97 column.toNat && Nat.ble column.toNat 104 && (Nat.ble 1 r && Nat.ble r 8)) = true := by
          simp [Nat.ble_eq, c1, c2, r1, r2]
        have hnew : RsSq.Square_new column r = .ok (sqNew column r) := by
          rw [square_new_ascii column r (by omega)]
          have : sqNewPanics column r = false := by
            unfold sqNewPanics ASCII_LETTER_A BOARD_HEIGHT
            have e1 : column.toNat % 256 = column.toNat := by omega
            simp [e1]; omega
          rw [this]; rfl
        simp only [hb, cond_true, hnew, Res.bind_ok, if_pos (show 97 ≤ column.toNat ∧ column.toNat ≤ 104 ∧ 1 ≤ r ∧ r ≤ 8 from ⟨c1, c2, r1, r2⟩)]
        rfl
      · have hb : (Nat.ble 97 column.toNat && Nat.ble column.toNat 104 && (Nat.ble 1 r && Nat.ble r 8)) = false := by
          cases hbb : (Nat.ble 97 column.toNat && Nat.ble column.toNat 104 && (Nat.ble 1 r && Nat.ble r 8))
          · rfl
          · exfalso; apply hc
            simp only [Bool.and_eq_true, Nat.ble_eq] at hbb
            exact ⟨hbb.1.1, hbb.1.2, hbb.2.1, hbb.2.2⟩
        simp only [hb, cond_false, if_neg hc]
        rfl

theorem action_from_str (t : List Char) : RsSq.Action_from_str t = ofOutcome (parseAction t) := by
  unfold RsSq.Action_from_str parseAction
  match t with
  | [] => rfl
  | [c] =>
    simp only [List.length_cons, List.length_nil, List.head?_cons, show ((0 + 1 : Nat) == 1) = true from rfl, cond_true,
      piece_from_str]
    by_cases hp : c = 'p'
    · subst hp; rfl
    · have : (c == 'p') = false := by simpa using hp
      simp only [this, cond_false, if_neg hp]
      cases parsePiece [c] <;> rfl
  | [_, _] => rfl
  | _ :: _ :: _ :: _ :: _ => rfl
  | [a, b, c] =>
    simp only [List.length_cons, List.length_nil]
    have hs : Rt.sliceTo [a, b, c] 2 = .ok [a, b] := rfl
    have hi : Rt.index [a, b, c] 2 = .ok c := rfl
    simp only [show ((0 + 1 + 1 + 1 : Nat) == 1) = false from rfl, show ((0 + 1 + 1 + 1 : Nat) == 3) = true from rfl,
      cond_false, cond_true, hs, hi, Res.bind_ok, square_from_str, direction_from_str]
    cases hsq : parseSquare [a, b] with
    | err => rfl
    | panic => exact absurd hsq (parseSquare_no_panic _)
    | ok sq =>
      simp only [ofOutcome, Res.bind_ok]
      cases parseDir [c] <;> rfl

/-! ### the `Display` printers -/

theorem piece_fmt (p : Piece) (f : List Char) : RsSq.Piece_fmt p f = f ++ showPiece p := by
  cases p <;> rfl

theorem direction_fmt (d : Dir) (f : List Char) : RsSq.Direction_fmt d f = f ++ showDir d := by
  cases d <;> rfl

theorem square_fmt (sq : Nat) (f : List Char) :
    RsSq.Square_fmt sq f = Res.guard (showSquarePanics sq) (f ++ showSquare sq) := by
  unfold RsSq.Square_fmt showSquarePanics showSquare natDigits
  rw [square_column_char, square_row]
  cases sqRowPanics sq
  · simp [Res.guard, Res.bind]
  · rfl

theorem action_fmt (a : Action) (f : List Char) :
    RsSq.Action_fmt a f = Res.guard (showActionPanics a) (f ++ showAction a) := by
  unfold RsSq.Action_fmt showActionPanics showAction
  cases a with
  | pass => rfl
  | place p => simp [piece_fmt, Res.guard, Res.bind]
  | move sq d =>
    simp only [square_fmt, direction_fmt, List.nil_append]
    cases showSquarePanics sq
    · simp [Res.guard, Res.bind]
    · rfl

end Arimaa.RsAgree
