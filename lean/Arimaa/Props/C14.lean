import Arimaa.Lemmas.Turn

/-!
# C14 — earlier boards of the current turn are reported faithfully

Property text: for a state reached after `k` steps of the current turn, asking for the board at
step `i` (`0 ≤ i ≤ k`) returns exactly the board that was current after `i` steps of this turn; at
the start of a turn only step 0 exists and it is the current board.

The "board that was current after `i` steps" is a ghost value: it is not stored in the model state
but obtained by re-running the first `i` steps from the turn-start state
(`GameState.stateAfter s0 ms i = s0.runMoves (ms.take i)`).  The theorem holds for every list of at
most three steps `Action.move sq d`, offered or not (stronger than asked).  Setup has no turn steps
(`piece_board_for_step` panics there by design), so the statement is about play-phase states.
-/
namespace Arimaa
open GameState

/-- **Boards of the turn.**  Let `s0` be a turn-start play state (step 0, i.e. no recorded boards),
`ms` a list of `k ≤ 3` steps and `s_i` the state after the first `i` of them.  Then `s_k` is a
play-phase state whose step counter is `k`, whose recorded list is exactly
`[s_0.board, …, s_{k-1}.board]`, and `pieceBoardForStep i` on `s_k` returns `s_i.board` for every
`i ≤ k` (for `i = k` this is the current board). -/
theorem C14_boards_of_turn (s0 : GameState) (pp0 : PlayPhase) (hph : s0.phase = .play pp0)
    (hstart : pp0.step = 0) (ms : List (Nat × Dir)) (hk : ms.length ≤ 3) :
    ∃ ppk, (s0.runMoves ms).phase = .play ppk ∧
      ppk.step = ms.length ∧ (s0.runMoves ms).step = ms.length ∧
      ppk.prev = (List.range ms.length).map (fun i => (s0.stateAfter ms i).board) ∧
      ∀ i, i ≤ ms.length → (s0.runMoves ms).pieceBoardForStep i = (s0.stateAfter ms i).board := by
  have h0 : pp0.prev = [] := List.length_eq_zero_iff.1 hstart
  obtain ⟨ppk, h1, h2⟩ := prev_runMoves s0 pp0 hph h0 ms hk
  have hstep : ppk.step = ms.length := by simp [PlayPhase.step, h2]
  refine ⟨ppk, h1, hstep, by simp [GameState.step, h1, hstep], h2, ?_⟩
  intro i hi
  unfold pieceBoardForStep
  simp only [h1, hstep]
  by_cases hik : i = ms.length
  · rw [if_pos hik, hik, stateAfter_length]
  · rw [if_neg hik, h2]
    have hlt : i < ms.length := by omega
    simp [List.getD_eq_getElem?_getD, List.getElem?_map, List.getElem?_range hlt]

/-- **Start of a turn** (`k = 0`): the step counter is 0, nothing is recorded, the only index in
range is `i = 0` and it yields the current board. -/
theorem C14_turn_start (s0 : GameState) (pp0 : PlayPhase) (hph : s0.phase = .play pp0)
    (hstart : pp0.step = 0) :
    pp0.prev = [] ∧ (∀ i, i ≤ s0.step → i = 0) ∧ s0.pieceBoardForStep 0 = s0.board := by
  obtain ⟨ppk, h1, h2, h3, h4, h5⟩ := C14_boards_of_turn s0 pp0 hph hstart [] (by simp)
  refine ⟨List.length_eq_zero_iff.1 hstart, ?_, ?_⟩
  · intro i hi
    have : s0.step = 0 := by simp [GameState.step, hph, hstart]
    omega
  · simpa [stateAfter] using h5 0 (by simp)

/-- The boards reported for two consecutive indices are related by the step made between them:
`pieceBoardForStep (i+1)` is the result of `Board.takeMove` with the `i`-th step on
`pieceBoardForStep i`.  (This pins the ghost boards down without mentioning re-running.) -/
theorem C14_consecutive_boards (s0 : GameState) (pp0 : PlayPhase) (hph : s0.phase = .play pp0)
    (hstart : pp0.step = 0) (ms : List (Nat × Dir)) (hk : ms.length ≤ 3) (i : Nat)
    (hi : i < ms.length) :
    (s0.runMoves ms).pieceBoardForStep (i + 1) =
      (((s0.runMoves ms).pieceBoardForStep i).takeMove (ms[i]).1 (ms[i]).2).1 := by
  obtain ⟨ppk, _, _, _, _, h5⟩ := C14_boards_of_turn s0 pp0 hph hstart ms hk
  rw [h5 (i + 1) (by omega), h5 i (by omega)]
  simp only [stateAfter]
  rw [List.take_succ_eq_append_getElem hi, runMoves_snoc]
  obtain ⟨ppi, hi1, hi2, _⟩ := C14_boards_of_turn s0 pp0 hph hstart (ms.take i)
    (by rw [List.length_take]; omega)
  have hlt : ppi.step < 3 := by rw [hi2, List.length_take]; omega
  rw [movePiece_lt3 _ ppi _ _ hi1 hlt]

/-! ## Non-vacuity -/

/-- Gold elephant alone on square 36 (e4), Gold to move, start of a turn. -/
private def exB_C14 : Board := Board.new (sqBit 36) (sqBit 36) 0 0 0 0 0
private def ex0_C14 : GameState :=
  { p1Turn := true, moveNo := 2, phase := .play (PlayPhase.initial 0 [0]), board := exB_C14, hash := 0 }
private def exMs : List (Nat × Dir) := [(36, .up), (28, .right), (29, .right)]

example : ex0_C14.phase = .play (PlayPhase.initial 0 [0]) ∧ (PlayPhase.initial 0 [0]).step = 0 ∧
    exMs.length ≤ 3 := ⟨rfl, rfl, by decide⟩

/-- a three-step turn with pairwise different boards: the four reported boards are the elephant on
e4, e5, f5, g5 -/
example :
    (List.range 4).map (fun i => ((ex0_C14.runMoves exMs).pieceBoardForStep i).elephants) =
      [sqBit 36, sqBit 28, sqBit 29, sqBit 30] := by decide +kernel

end Arimaa
