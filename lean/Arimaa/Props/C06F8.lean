import Arimaa.Lemmas.Replay

/-!
# C06 — the exactness clause without a no-collision hypothesis is FALSE (finding F8)

`Props/C06b.lean` proves `C06_exact_partial` under `CollisionFreeAt`.  This file shows that the
hypothesis cannot be dropped: the stored game of finding F8 (DESIGN.md §6, `corpus/F8.game`) is
replayed on the model by kernel evaluation.  All 55 actions are offered; at the end the pass is in
the rule-only list and is withheld, although the board it leads to differs from the turn-start board
and the resulting position occurs nowhere among the starts of turn.  The cause is visible too: an
earlier, different start-of-turn position has the same 64-bit hash (`C06_f8_collision`).
-/
namespace Arimaa
open GameState

/-- the left board of finding F8, as in the diagram of `corpus/F8.game` -/
def f8Board : Board :=
  Board.new
    (sqBit 32 ||| sqBit 40 ||| sqBit 43 ||| sqBit 47 ||| sqBit 51 ||| sqBit 53 ||| sqBit 54 |||
      sqBit 56 ||| sqBit 60)
    (sqBit 16 ||| sqBit 40) (sqBit 14 ||| sqBit 47) (sqBit 4 ||| sqBit 19 ||| sqBit 43 ||| sqBit 60)
    (sqBit 1 ||| sqBit 15 ||| sqBit 51 ||| sqBit 53) (sqBit 11 ||| sqBit 22 ||| sqBit 54 ||| sqBit 56)
    (sqBit 31 ||| sqBit 32)

/-- the state `from_str` produces for that diagram (header `2g`: move 2, Gold to move) -/
def f8Start : GameState :=
  { p1Turn := true, moveNo := 2, board := f8Board, hash := zPos f8Board true
    phase := .play (PlayPhase.initial (zPos f8Board true) [zPos f8Board true]) }

/-- the 55 actions of the stored game before its last action (the pass under test):
`a3s p a6n p a2n p a7s p a3s d2w d3s a1e a6n a7n b8s b7s b1e c1e c2s d2w b6w d7n d6n d8w c2w b2s a2e
b2e e8s e7e h7n h8w c2e b1w h3w e1n g8w f8w g6e p g2s f2e e2e g2e g7s f7e h6n p f2e h2n g2e g1e h7n
g7e h7s`  (square `xr` is index `(8 - r) * 8 + (x - 'a')`; n/e/s/w = up/right/down/left) -/
def f8Game : List Action :=
  [.move 40 .down, .pass, .move 16 .up, .pass, .move 48 .up, .pass, .move 8 .down, .pass,
   .move 40 .down, .move 51 .left, .move 43 .down, .move 56 .right, .move 16 .up, .move 8 .up,
   .move 1 .down, .move 9 .down, .move 57 .right, .move 58 .right, .move 50 .down, .move 51 .left,
   .move 17 .left, .move 11 .up, .move 19 .up, .move 3 .left, .move 50 .left, .move 49 .down,
   .move 48 .right, .move 49 .right, .move 4 .down, .move 12 .right, .move 15 .up, .move 7 .left,
   .move 50 .right, .move 57 .left, .move 47 .left, .move 60 .up, .move 6 .left, .move 5 .left,
   .move 22 .right, .pass, .move 54 .down, .move 53 .right, .move 52 .right, .move 54 .right,
   .move 14 .down, .move 13 .right, .move 23 .up, .pass, .move 53 .right, .move 55 .up,
   .move 54 .right, .move 62 .right, .move 15 .up, .move 14 .right, .move 15 .down]

/-- the diagram text of `corpus/F8.game` -/
def f8Text : List Char :=
  "2g\n +-----------------+\n8|   d     h       |\n7|       c     m d |\n6| e   x h   x c   |\n5|               r |\n4| R               |\n3| E   x H   x   M |\n2|       D   D C   |\n1| C       H       |\n +-----------------+\n   a b c d e f g h\n".toList

set_option maxRecDepth 100000 in
/-- `f8Start` is what the model of `from_str` yields on the stored diagram -/
theorem C06_f8_parse : parseState f8Text = .ok f8Start := by decide +kernel

set_option maxRecDepth 100000 in
/-- the stored action strings parse to `f8Game` -/
theorem C06_f8_actions :
    ["a3s", "p", "a6n", "p", "a2n", "p", "a7s", "p", "a3s", "d2w", "d3s", "a1e", "a6n", "a7n", "b8s",
     "b7s", "b1e", "c1e", "c2s", "d2w", "b6w", "d7n", "d6n", "d8w", "c2w", "b2s", "a2e", "b2e", "e8s",
     "e7e", "h7n", "h8w", "c2e", "b1w", "h3w", "e1n", "g8w", "f8w", "g6e", "p", "g2s", "f2e", "e2e",
     "g2e", "g7s", "f7e", "h6n", "p", "f2e", "h2n", "g2e", "g1e", "h7n", "g7e", "h7s"].map
      (fun t => parseAction t.toList) = f8Game.map Outcome.ok := by
  decide +kernel

theorem f8_startOk : StartOk f8Start := ⟨wf_of_wfCheck _ (by decide +kernel), rfl, rfl⟩

/-- everything that is checked at the end of the game, as one Boolean -/
def f8Check (s : GameState) (G : List (Board × Bool)) : Bool :=
  match s.phase with
  | .play pp =>
    decide (Action.pass ∈ s.validActionsNoRep) && endsTurn pp .pass && s.withheld pp .pass &&
    decide ((s.takeAction .pass).board ≠ tsb G) &&
    decide (G.count ((s.takeAction .pass).board, (s.takeAction .pass).p1Turn) = 0) &&
    decide (G.length = 16) &&
    G.any (fun p => decide (p ≠ ((s.takeAction .pass).board, (s.takeAction .pass).p1Turn)) &&
      (zPos p.1 p.2 == zPos (s.takeAction .pass).board (s.takeAction .pass).p1Turn))
  | .place => false

set_option maxRecDepth 100000 in
/-- one strict replay of the whole game by the kernel (`Lemmas/Replay.lean`) -/
theorem f8_replay :
    replayK f8Start [posOf f8Start] true f8Game (fun s G ok => ok && f8Check s G) = true := by
  decide +kernel

/-- every one of the 55 actions is offered where it is taken -/
theorem C06_f8_offered : Offered f8Start f8Game := (replay_check _ _ _ f8_replay).1

/-- at the end (Silver has made one step): the pass is in the rule-only list and is withheld,
although the board it leads to differs from the turn-start board and the resulting position occurs
NOWHERE among the 16 starts of turn so far -/
theorem C06_f8_facts :
    ∃ pp, (f8Start.run f8Game).phase = .play pp ∧
      Action.pass ∈ (f8Start.run f8Game).validActionsNoRep ∧
      endsTurn pp .pass = true ∧
      (f8Start.run f8Game).withheld pp .pass = true ∧
      ((f8Start.run f8Game).takeAction .pass).board ≠ turnStartBoard f8Start f8Game ∧
      (turnStarts f8Start f8Game).count (((f8Start.run f8Game).takeAction .pass).board,
        ((f8Start.run f8Game).takeAction .pass).p1Turn) = 0 ∧
      (turnStarts f8Start f8Game).length = 16 := by
  have h := (replay_check _ _ _ f8_replay).2
  unfold f8Check at h
  split at h
  · rename_i pp hph
    simp only [Bool.and_eq_true, decide_eq_true_eq] at h
    obtain ⟨⟨⟨⟨⟨⟨h1, h2⟩, h3⟩, h4⟩, h5⟩, h6⟩, _⟩ := h
    exact ⟨pp, hph, h1, h2, h3, h4, h5, h6⟩
  · cases h

/-- **The exactness clause of C06 WITHOUT `CollisionFreeAt` is false for the implementation.**
It is not true that for every start state, every game all of whose actions are offered, and every
turn-ending action of the rule-only list: withheld ⇔ (result = turn-start board ∨ result occurred
at least twice).  Witness: the F8 game. -/
theorem C06_full_strength_is_false :
    ¬ (∀ (s0 : GameState) (as : List Action) (pp : PlayPhase) (a : Action),
        StartOk s0 → Offered s0 as → (s0.run as).phase = .play pp →
        a ∈ (s0.run as).validActionsNoRep → endsTurn pp a = true →
        ((s0.run as).withheld pp a = true ↔
          (((s0.run as).takeAction a).board = turnStartBoard s0 as ∨
            2 ≤ (turnStarts s0 as).count
              (((s0.run as).takeAction a).board, ((s0.run as).takeAction a).p1Turn)))) := by
  intro hall
  obtain ⟨pp, hph, hin, he, hw, hne, hc, _⟩ := C06_f8_facts
  rcases (hall f8Start f8Game pp .pass f8_startOk C06_f8_offered hph hin he).mp hw with h | h
  · exact hne h
  · rw [hc] at h; omega

/-- the same as a statement about the offered list: a turn-ending action that breaks neither
repetition rule is missing from `valid_actions()` -/
theorem C06_f8_not_offered :
    Action.pass ∈ (f8Start.run f8Game).validActionsNoRep ∧
    Action.pass ∉ (f8Start.run f8Game).validActions := by
  obtain ⟨pp, hph, hin, _, hw, _⟩ := C06_f8_facts
  refine ⟨hin, fun h => ?_⟩
  have := ((C06_mem_iff _ pp hph .pass).mp h).2
  rw [hw] at this
  cases this

/-- the collision itself: an earlier, different start-of-turn position of the game has the same
start-of-turn hash as the position the withheld pass would produce -/
theorem C06_f8_collision :
    ∃ p ∈ turnStarts f8Start f8Game,
      p ≠ (((f8Start.run f8Game).takeAction .pass).board,
        ((f8Start.run f8Game).takeAction .pass).p1Turn) ∧
      zFromPieceBoard p.1 p.2 0 =
        zFromPieceBoard ((f8Start.run f8Game).takeAction .pass).board
          ((f8Start.run f8Game).takeAction .pass).p1Turn 0 := by
  have h := (replay_check _ _ _ f8_replay).2
  unfold f8Check at h
  split at h
  · simp only [Bool.and_eq_true, List.any_eq_true, decide_eq_true_eq, beq_iff_eq] at h
    obtain ⟨_, p, hp, hne, hz⟩ := h
    exact ⟨p, hp, hne, hz⟩
  · cases h

end Arimaa
