import Arimaa.Props.C05
import Arimaa.Lemmas.ParsePrint

/-!
C05, start states: every parsed position is a start state (its board is well-formed by
`parseState_wf`, Lemmas/ParsePrint.lean), so C05's theorems apply "since the position was parsed"
without side condition.
-/
namespace Arimaa
open GameState

/-- Every text that parses yields a start state for C05/C06: play phase, fresh per-turn record,
from-scratch hash, well-formed board. -/
theorem C05_start_of_any_parse (t : List Char) (s : GameState) (h : parseState t = .ok s) : StartOk s :=
  C05_start_of_parse t s h (parseState_wf t s h)

/-- C05 for every game from every parsed position: no completed turn leaves the board unchanged
and no position occurs a third time at a start of turn. -/
theorem C05_from_any_parse (t : List Char) (s0 : GameState) (h : parseState t = .ok s0) (as : List Action)
    (ho : Offered s0 as) (p : Board × Bool) : (turnStarts s0 as).count p ≤ 2 :=
  C05_no_third_occurrence s0 (C05_start_of_any_parse t s0 h) as ho p

end Arimaa
