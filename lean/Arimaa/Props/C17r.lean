import Arimaa.Props.C17
import Arimaa.Lemmas.RsAgreeTHash
import Arimaa.Lemmas.RsAgreeHash
import Arimaa.Gen.Bridge.GameState_transposition_hash
import Arimaa.Gen.Bridge.Zobrist_board_state_hash_with_push_pull_state
import Arimaa.Gen.Bridge.Zobrist_from_piece_board

/-!
# C17 — the property at the level of the REGENERATED code

`Gen/Rs.lean` is written by `tools/rs2lean2.py` from the current text of engine.rs / zobrist.rs on every
run.  `Gen/Bridge/<fn>.lean` (generated) proves `@Rs.fn = @RsBase.fn` — the current text against the
baseline text — and `Lemmas/RsAgree*.lean` prove that each baseline function equals
`Res.guard (hand panic guard) (hand total function)`.  This file puts both, for the functions C17 rests
on, into the property's proof closure and restates them as one named obligation (`C17_code_agrees`) about
the CURRENT functions, plus corollaries that speak about them directly.  A change of the Rust text of one
of these functions that alters behaviour breaks an obligation here without any test having to find the input.
(written by tools/mkrprops.py)
-/
namespace Arimaa
open Gen GameState Arimaa.Gen.Rs Arimaa.Rt Arimaa.Gen.Bridge

theorem C17_value_of_ok {α : Type} {x : Res α} {p : Bool} {v w : α} (h : x = Res.guard p v) (hx : x = .ok w) :
    p = false ∧ w = v := by
  rw [h] at hx
  obtain ⟨hp, hv⟩ := Res.guard_eq_ok.mp hx
  exact ⟨hp, hv.symm⟩

/-- the agreement theorems C17 rests on, about the CURRENT functions, as one obligation -/
theorem C17_code_agrees :
    (∀ s : GameState, GameState_transposition_hash s = Res.guard s.transpositionHashPanics s.transpositionHash) ∧
    (∀ (h : BB) (p : PPS), Zobrist_board_state_hash_with_push_pull_state h p = Res.guard (zWithPPSPanics p) (zWithPPS h p)) ∧
    (∀ (b : Board) (p1 : Bool) (step : Nat), Zobrist_from_piece_board b p1 step = Res.guard (zFromPieceBoardPanics b step) (zFromPieceBoard b p1 step)) :=
  ⟨(by simp only [bridge_GameState_transposition_hash]; exact RsAgree.transposition_hash_eq),
   (by simp only [bridge_Zobrist_board_state_hash_with_push_pull_state]; exact RsAgree.zobrist_with_pps),
   (by simp only [bridge_Zobrist_from_piece_board]; exact RsAgree.from_piece_board_eq)⟩

theorem C17_code_thash (s : GameState) (r : BB)
    (h : GameState_transposition_hash s = .ok r) : r = s.transpositionHash := by
  simp only [bridge_GameState_transposition_hash] at h
  exact (C17_value_of_ok (RsAgree.transposition_hash_eq s) h).2

/-- **C17 for the code as it is now** (content of one square): two play states that differ in the content of
exactly one square get different values from the regenerated `transposition_hash` -/
theorem C17_code_content (b b' : Board) (hb : b.AtMostOne) (hb' : b'.AtMostOne) (q : Nat) (hq : q < 64)
    (hsame : ∀ i, i < 64 → i ≠ q → b.contentAt i = b'.contentAt i)
    (hdiff : b.contentAt q ≠ b'.contentAt q) (side : Bool) (n : Nat) (pp : PlayPhase) (x x' : BB)
    (hx : GameState_transposition_hash (mkPlay b side n pp) = .ok x)
    (hx' : GameState_transposition_hash (mkPlay b' side n pp) = .ok x') : x ≠ x' := by
  rw [C17_code_thash _ x hx, C17_code_thash _ x' hx']
  exact C17_content b b' hb hb' q hq hsame hdiff side n pp

end Arimaa
