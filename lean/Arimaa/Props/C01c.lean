import Arimaa.Lemmas.TurnsEquiv

/-!
C01 (specification part) — the step machine accepts exactly the prefixes of legal Arimaa turns.

This file is pure specification: it relates L2 (`Spec.Rules`: the per-step machine with a pending
push / possible pull status, which the implementation is proved to refine in `Props/C01.lean`) to
L3 (`Spec.Turns`: the declarative turn of the property text — one to four steps built from single
steps of unfrozen friendly pieces onto empty neighbouring squares, rabbits never backward, and
pushes and pulls of strictly weaker neighbouring enemy pieces by an unfrozen stronger piece, every
push or pull completed inside the turn, no step serving both a push and a pull).

Hypothesis used: `NoHanging b` — no piece stands on a trap square without a friendly neighbour at
the start of the turn.  It holds after every finished setup and after every step (C13); it is
needed because L3 reads the conditions of a push or pull on the board *before* its first step: a
pusher hanging on a trap would disappear at the displacement (see the last example below).
-/
namespace Arimaa
open Spec TurnLemmas

/-- **The machine accepts exactly the prefixes of legal turns; a turn may end exactly after a
complete legal turn.**  From a turn start `(b, gold, step 0, no obligation)` on a board without
unsupported trap pieces, for every non-empty list `ms` of at most four moves:
* every move of `ms` is enabled when its turn comes (`accepted`: board evolving by `applyStep`,
  status by `nextPending`, step counter by one) if and only if `ms` is a prefix of the steps of
  some legal turn;
* `ms` is accepted and the turn may end after it (`mayEnd`: `passEnabled`, i.e. no push is
  half-done) if and only if `ms` is exactly the steps of some legal turn.

The bound of four moves is the machine's own: its fourth step ends the turn (`State.next`), see
`C01_accepted_is_state_run`; `runTurn` itself does not count.

In particular the machine's greedy reading — an enemy step onto the square just vacated by a
stronger friendly piece is always booked as the end of a pull — rejects no legal labelling, and a
push is never started when it could not be completed inside the turn. -/
theorem C01_prefixes_of_turns (b : Spec.Board) (gold : Bool) (hb : NoHanging b) (ms : List Mv)
    (hne : ms ≠ []) (hlen : ms.length ≤ 4) :
    (accepted b gold ms = true ↔ ∃ us, legalTurn b gold us = true ∧ ms <+: steps us) ∧
    (mayEnd b gold ms = true ↔ ∃ us, legalTurn b gold us = true ∧ ms = steps us) := by
  have hpos : 1 ≤ ms.length := by
    cases ms with
    | nil => exact absurd rfl hne
    | cons _ _ => simp
  rw [accepted_eq_acc, mayEnd_eq_acc b gold ms hne]
  constructor
  · constructor
    · intro h
      obtain ⟨us, hul, hl, hpre, _⟩ :=
        acc_to_units false gold ms.length ms b 0 hb (Nat.le_refl _) (by omega) h
      refine ⟨us, ?_, hpre⟩
      have := hpre.length_le
      simp only [legalTurn, Bool.and_eq_true, decide_eq_true_eq]
      exact ⟨⟨hul, by omega⟩, by omega⟩
    · rintro ⟨us, hlt, hpre⟩
      simp only [legalTurn, Bool.and_eq_true, decide_eq_true_eq] at hlt
      exact units_to_acc false gold us b 0 ms hb hlt.1.1 (by omega) hpre (fun hf => by cases hf)
  · constructor
    · intro h
      obtain ⟨us, hul, hl, hpre, hfin⟩ :=
        acc_to_units true gold ms.length ms b 0 hb (Nat.le_refl _) (by omega) h
      refine ⟨us, ?_, hfin rfl⟩
      have := hpre.length_le
      simp only [legalTurn, Bool.and_eq_true, decide_eq_true_eq]
      exact ⟨⟨hul, by omega⟩, by omega⟩
    · rintro ⟨us, hlt, heq⟩
      simp only [legalTurn, Bool.and_eq_true, decide_eq_true_eq] at hlt
      exact units_to_acc true gold us b 0 ms hb hlt.1.1 (by omega) (heq ▸ List.prefix_refl _)
        (fun _ => heq)

/-- **Every accepted move list can be continued to a complete legal turn**: it extends, inside the
four steps of the turn, to a list after which the turn may end.  (This is why a push may not be
started with the last step, and it rests on the pusher surviving the displacement of its victim,
`pusher_survives`.) -/
theorem C01_accepted_extends (b : Spec.Board) (gold : Bool) (hb : NoHanging b) (ms : List Mv)
    (hne : ms ≠ []) (hlen : ms.length ≤ 4) (h : accepted b gold ms = true) :
    ∃ ext, (ms ++ ext).length ≤ 4 ∧ mayEnd b gold (ms ++ ext) = true := by
  obtain ⟨us, hlt, ext, hext⟩ := ((C01_prefixes_of_turns b gold hb ms hne hlen).1).1 h
  have hlt' := hlt
  simp only [legalTurn, Bool.and_eq_true, decide_eq_true_eq] at hlt'
  have hne' : ms ++ ext ≠ [] := by
    intro e; exact hne (List.append_eq_nil_iff.1 e).1
  refine ⟨ext, by rw [hext]; exact hlt'.2, ?_⟩
  exact ((C01_prefixes_of_turns b gold hb (ms ++ ext) hne' (by rw [hext]; exact hlt'.2)).2).2
    ⟨us, hlt, hext⟩

/-- **A fourth step always completes a turn**: an accepted list of four moves is the steps of a
legal turn, so the turn that ends by itself after the fourth step never leaves a push half-done. -/
theorem C01_fourth_step_completes (b : Spec.Board) (gold : Bool) (hb : NoHanging b) (ms : List Mv)
    (hlen : ms.length = 4) (h : accepted b gold ms = true) : mayEnd b gold ms = true := by
  have hne : ms ≠ [] := by intro e; rw [e] at hlen; cases hlen
  obtain ⟨us, hlt, hpre⟩ := ((C01_prefixes_of_turns b gold hb ms hne (by omega)).1).1 h
  have hlt' := hlt
  simp only [legalTurn, Bool.and_eq_true, decide_eq_true_eq] at hlt'
  have heq : ms = steps us := hpre.eq_of_length (by have := hpre.length_le; omega)
  exact ((C01_prefixes_of_turns b gold hb ms hne (by omega)).2).2 ⟨us, hlt, heq⟩

/-- `accepted` is acceptance by the shared L2 game machine `Spec.State` (the one whose symmetry is
C11): the step actions are played one after the other from the turn start, each enabled when its
turn comes. -/
theorem C01_accepted_is_state_run (b : Spec.Board) (gold : Bool) (ms : List Mv) (hlen : ms.length ≤ 4) :
    accepted b gold ms = (State.run ⟨b, gold, 0, .none⟩ (ms.map fun m => Act.move m.1 m.2)).isSome := by
  unfold accepted
  rw [run_isSome_eq_runTurn ms b gold 0 .none (by omega)]

/-- The two one-directional halves of the first equivalence, with the hypotheses each needs: the
direction from turns to the machine does not need the bound on the length of `ms` (it follows). -/
theorem C01_turn_prefix_accepted (b : Spec.Board) (gold : Bool) (hb : NoHanging b) (us : List TUnit)
    (hlt : legalTurn b gold us = true) (ms : List Mv) (hpre : ms <+: steps us) :
    accepted b gold ms = true := by
  rw [accepted_eq_acc]
  simp only [legalTurn, Bool.and_eq_true, decide_eq_true_eq] at hlt
  exact units_to_acc false gold us b 0 ms hb hlt.1.1 (by omega) hpre (fun hf => by cases hf)

/-! ### non-vacuity: concrete positions (kernel-checked) -/

namespace TurnEnum

/-- a board given by its pieces -/
def board (ps : List (Nat × Cell)) : Spec.Board := fun k => (ps.find? (·.1 == k)).map (·.2)
def G (p : Spec.Piece) : Cell := ⟨true, p⟩
def S (p : Spec.Piece) : Cell := ⟨false, p⟩

/-- gold dog d4 (35), silver cat c4 (34), gold elephant b4 (33), gold rabbit h1 (63) -/
def exA : Spec.Board := board [(35, G .dog), (34, S .cat), (33, G .elephant), (63, G .rabbit)]
/-- a gold elephant alone on the trap c3 (42), a silver cat on d3 (43): not `NoHanging` -/
def exC : Spec.Board := board [(42, G .elephant), (43, S .cat)]
/-- gold dog b3 (41) next to the trap c3 (42), silver cat a3 (40) -/
def exD : Spec.Board := board [(41, G .dog), (40, S .cat)]

end TurnEnum
open TurnEnum

/-- the hypothesis of the theorems is satisfiable -/
example : NoHanging exA := noHanging_of_check _ (by decide +kernel)
example : NoHanging exD := noHanging_of_check _ (by decide +kernel)

/-- point (a): the dog leaves d4, the cat is pushed from c4 onto d4 by the elephant, the elephant
follows.  The player's labelling (single step, then push) and the machine's reading (pull by the
dog, then a single step of the elephant) are both legal turns with the same moves, and the
machine, which books the cat's step as the end of a pull, accepts them and lets the turn end. -/
example : legalTurn exA true [.single 35 .n, .push 34 .e 33 .e] = true := by decide +kernel
example : legalTurn exA true [.pull 35 .n 34 .e, .single 33 .e] = true := by decide +kernel
example : runTurn exA true 0 .none [(35, .n), (34, .e)] = some .none := by decide +kernel
example : mayEnd exA true [(35, .n), (34, .e), (33, .e)] = true := by decide +kernel

/-- point (b): a push is accepted as third and fourth step, the turn cannot end between its
halves, and it cannot be started with the fourth step -/
example : accepted exA true [(63, .w), (62, .e), (34, .s)] = true := by decide +kernel
example : mayEnd exA true [(63, .w), (62, .e), (34, .s)] = false := by decide +kernel
example : mayEnd exA true [(63, .w), (62, .e), (34, .s), (33, .e)] = true := by decide +kernel
example : accepted exA true [(63, .w), (62, .e), (63, .w), (34, .s)] = false := by decide +kernel
example : legalTurn exA true [.single 63 .w, .single 62 .e, .single 63 .w, .push 34 .s 33 .e] = false := by
  decide +kernel

/-- point (c): the puller is captured on the trap it steps onto; the pull is still completed -/
example : applyStep exD 41 .e 42 = none := by decide +kernel
example : legalTurn exD true [.pull 41 .e 40 .e] = true := by decide +kernel
example : mayEnd exD true [(41, .e), (40, .e)] = true := by decide +kernel

/-- the hypothesis `NoHanging` cannot be dropped: a pusher hanging on a trap disappears when its
victim is displaced, so the declarative push (conditions read before its first step) is not
accepted by the machine -/
example : noHangingB exC = false := by decide +kernel
example : legalTurn exC true [.push 43 .e 42 .e] = true := by decide +kernel
example : accepted exC true [(43, .e), (42, .e)] = false := by decide +kernel

/-! ### brute-force comparison of the two sides (evaluated, not proved)

Independent enumerators of both sides of `C01_prefixes_of_turns`: all move lists the L2 machine
accepts within a turn (with the "turn may end here" flag), and all legal L3 turns with their
steps and prefixes.  `agree` compares the two pairs of sets on a position.  The `#guard`s below run
it on a few positions when the file is built; the same enumerators (with arrays for boards and
sorted codes for sets) were run on 650 random clustered positions (3–5 pieces in a 3×3 window,
half of the windows containing a trap, capture rule applied first), both sides to move: 2,184,901
accepted move lists and 2,167,003 complete turns, no mismatch.  On 150 such positions without the
capture rule applied first (unsupported trap pieces possible) they report 12 mismatches. -/

namespace TurnEnum

/-- executable boards: a list of 64 cells -/
def ofList (l : List (Option Cell)) : Spec.Board := fun k => l.getD k none
def mk (ps : List (Nat × Cell)) : List (Option Cell) := (List.range 64).map (board ps)
def stepL (l : List (Option Cell)) (m : Mv) : List (Option Cell) :=
  (List.range 64).map (applyStep (ofList l) m.1 m.2)

/-- candidate moves: every direction from every occupied square (no other move is ever enabled) -/
def occMoves (l : List (Option Cell)) : List Mv :=
  ((List.range 64).filter fun i => (l.getD i none).isSome).flatMap fun i => Dir.all.map fun d => (i, d)

/-- all non-empty move lists the L2 machine accepts from the state (at most `n` more moves), each
with the flag "the turn may end here" -/
def l2 (gold : Bool) : Nat → List (Option Cell) → Nat → Pending → List (List Mv × Bool)
  | 0, _, _, _ => []
  | n+1, l, step, pend =>
    ((occMoves l).filter fun m => enabledMove (ofList l) gold step pend m.1 m.2).flatMap fun m =>
      let l' := stepL l m
      let p' := nextPending (ofList l) gold pend m.1 m.2
      ([m], passEnabled (step+1) p') :: (l2 gold n l' (step+1) p').map fun sf => (m :: sf.1, sf.2)

/-- candidate units: a single step or a pull from a friendly square, a push from an enemy square -/
def candUnits (l : List (Option Cell)) (gold : Bool) : List TUnit :=
  let ms := occMoves l
  ms.flatMap fun m =>
    match l.getD m.1 none with
    | some c =>
      if c.gold == gold then
        TUnit.single m.1 m.2 :: ms.map fun m' => TUnit.pull m.1 m.2 m'.1 m'.2
      else ms.map fun m' => TUnit.push m.1 m.2 m'.1 m'.2
    | none => []

/-- all lists of units legal from the board with at most `budget` steps (fuel `f` bounds the
number of units) -/
def l3 (gold : Bool) : Nat → Nat → List (Option Cell) → List (List TUnit)
  | 0, _, _ => [[]]
  | f+1, budget, l =>
    [] :: ((candUnits l gold).filter fun u =>
        u.legal (ofList l) gold && decide (u.steps.length ≤ budget)).flatMap fun u =>
      (l3 gold f (budget - u.steps.length) (u.steps.foldl stepL l)).map (u :: ·)

def prefixesNE : List Mv → List (List Mv)
  | [] => []
  | m :: ms => [m] :: (prefixesNE ms).map (m :: ·)

/-- a move list as a number (injective on squares below 64) -/
def code (s : List Mv) : Nat :=
  s.foldl (fun a m => a * 257 + (m.1 * 4 + (match m.2 with | .n => 0 | .e => 1 | .s => 2 | .w => 3) + 1)) 0

/-- a set of move lists as the sorted list of its codes without repetitions -/
def asSet (xs : List (List Mv)) : List Nat :=
  ((xs.map code).mergeSort (· ≤ ·)).foldr (fun x acc => if acc.head? == some x then acc else x :: acc) []

/-- both sides of `C01_prefixes_of_turns`, enumerated independently, agree on the position:
accepted lists = non-empty prefixes of legal turns, and lists after which the turn may end =
steps of legal turns -/
def agree (l : List (Option Cell)) (gold : Bool) : Bool :=
  let s2 := l2 gold 4 l 0 .none
  let p2 := s2.map (·.1)
  let e2 := (s2.filter (·.2)).map (·.1)
  let us := (l3 gold 4 4 l).filter fun u => legalTurn (ofList l) gold u
  let p3 := us.flatMap fun u => prefixesNE (steps u)
  let e3 := us.map steps
  asSet p2 == asSet p3 && asSet e2 == asSet e3

/-- number of accepted move lists (to see that a comparison is not empty) -/
def count (l : List (Option Cell)) (gold : Bool) : Nat := (l2 gold 4 l 0 .none).length

end TurnEnum

-- the positions of the examples above
#guard agree (mk [(35, G .dog), (34, S .cat), (33, G .elephant), (63, G .rabbit)]) true
#guard agree (mk [(41, G .dog), (40, S .cat)]) true && agree (mk [(41, G .dog), (40, S .cat)]) false
-- a corner, a frozen piece, both sides
#guard agree (mk [(56, G .elephant), (48, S .rabbit), (57, S .cat)]) true
#guard agree (mk [(56, G .elephant), (48, S .rabbit), (57, S .cat)]) false
-- around the trap c3 (42): support, capture of a pushed and of a pulling piece
#guard agree (mk [(35, G .elephant), (34, S .cat), (43, G .dog), (27, S .horse)]) true
#guard agree (mk [(41, S .rabbit), (43, G .horse), (50, S .dog), (34, G .cat)]) true
#guard agree (mk [(41, S .rabbit), (43, G .horse), (50, S .dog), (34, G .cat)]) false
#guard count (mk [(35, G .elephant), (34, S .cat), (43, G .dog), (27, S .horse)]) true = 1639
-- without `NoHanging` the two sides differ
#guard !agree (mk [(42, G .elephant), (43, S .cat)]) true

end Arimaa
