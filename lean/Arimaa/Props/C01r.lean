import Arimaa.Gen.Bridge.GameState_valid_actions_no_rep
import Arimaa.Props.C01
import Arimaa.Lemmas.RsAgreeGen

/-!
# C01 — the property at the level of the REGENERATED code

`Gen/Rs.lean` is written by `tools/rs2lean2.py` from the current text of engine.rs / zobrist.rs on every
run; `Lemmas/RsAgree*.lean` prove that each regenerated function equals
`Res.guard (hand panic guard) (hand total function)`.  The theorems below restate the property for the
regenerated functions themselves (`Gen.Rs.GameState_*`, result type `Res` = value or panic), so a change
of the Rust text that alters behaviour breaks an obligation of this file without any test having to
find the input.  C01 rests on the rule-only generators only (not on the repetition filter).
-/
namespace Arimaa
open Gen Spec GameState Arimaa.Gen.Rs Arimaa.Rt Arimaa.Gen.Bridge

/-- the regenerated `valid_actions_no_rep` never panics under the play invariant and returns the model's list -/
theorem C01_code_rule_only_list (s : GameState) (pp : PlayPhase) (h : PlayInv s pp) :
    GameState_valid_actions_no_rep s = .ok s.validActionsNoRep := by
  rw [bridge_GameState_valid_actions_no_rep, RsAgree.valid_actions_no_rep_direct]
  have hp : s.validActionsNoRepPanics = false := by
    unfold validActionsNoRepPanics validActions_Panics
    rw [h.phase]
    have hpend := h.pend
    cases hps : pp.pps with
    | none => simp [PPS.isMustCompletePush, pullExtendPanics, hps, canPassPanics, h.phase]
    | possiblePull q x =>
      have : q < 64 := by rw [hps] at hpend; exact hpend.1
      simp [PPS.isMustCompletePush, pullExtendPanics, hps, canPassPanics, h.phase, sqBitPanics, this]
    | mustCompletePush q x =>
      have : q < 64 := by rw [hps] at hpend; exact hpend.1
      simp [PPS.isMustCompletePush, mustCompletePushActionsPanics, hps, sqBitPanics, this]
  rw [hp]; rfl

/-- **C01 for the code as it is now**: a step is in the list the regenerated `valid_actions_no_rep` returns
iff the rules enable it -/
theorem C01_code_enabled_iff (s : GameState) (pp : PlayPhase) (h : PlayInv s pp) (l : List Action)
    (hl : GameState_valid_actions_no_rep s = .ok l) (i : Nat) (d : Dir) :
    Action.move i d ∈ l ↔
      i < 64 ∧ enabledMove (absBoard s.board) s.p1Turn pp.step (absPend pp.pps) i (dirSpec d) = true := by
  rw [C01_code_rule_only_list s pp h] at hl
  cases hl
  exact C01_enabled_iff s pp h i d

theorem C01_code_pass_iff (s : GameState) (pp : PlayPhase) (h : PlayInv s pp) (l : List Action)
    (hl : GameState_valid_actions_no_rep s = .ok l) :
    Action.pass ∈ l ↔ passEnabled pp.step (absPend pp.pps) = true := by
  rw [C01_code_rule_only_list s pp h] at hl
  cases hl
  exact C01_pass_iff s pp h.phase

theorem C01_code_nodup (s : GameState) (pp : PlayPhase) (h : PlayInv s pp) (l : List Action)
    (hl : GameState_valid_actions_no_rep s = .ok l) : l.Nodup := by
  rw [C01_code_rule_only_list s pp h] at hl
  cases hl
  exact C01_nodup s pp h

end Arimaa
