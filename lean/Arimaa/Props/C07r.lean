import Arimaa.Props.C07
import Arimaa.Lemmas.RsAgreeOffered
import Arimaa.Lemmas.RsAgreeResult

/-!
# C07 — the property at the level of the REGENERATED code

`Gen/Rs.lean` is written by `tools/rs2lean2.py` from the current text of engine.rs / zobrist.rs on every
run; `Lemmas/RsAgree*.lean` prove that each regenerated function equals
`Res.guard (hand panic guard) (hand total function)`.  This file puts the agreement theorems of the
functions C07 rests on into the property's proof closure and restates them as one named obligation
(`C07_code_agrees`), plus corollaries that speak about the regenerated functions directly.  A change of
the Rust text of one of these functions breaks an obligation here without any test having to find the input.
-/
namespace Arimaa
open Gen GameState Arimaa.Gen.Rs Arimaa.Rt

theorem C07_value_of_ok {α : Type} {x : Res α} {p : Bool} {v w : α} (h : x = Res.guard p v) (hx : x = .ok w) :
    p = false ∧ w = v := by
  rw [h] at hx
  obtain ⟨hp, hv⟩ := Res.guard_eq_ok.mp hx
  exact ⟨hp, hv.symm⟩

/-- the agreement theorems C07 rests on, as one obligation -/
theorem C07_code_agrees :
    (∀ (s : GameState) (cr : Bool), GameState_valid_actions_ s cr = Res.guard (s.validActions_Panics cr) (s.validActions_ cr)) ∧
    (∀ (s : GameState) (b : Board), GameState_has_move s b = Res.guard (s.hasMovePanics b) (s.hasMove b)) ∧
    (∀ s : GameState, GameState_is_terminal s = Res.guard s.isTerminalPanics s.isTerminal) ∧
    (∀ (s : GameState) (cr : Bool), GameState_can_pass s cr = Res.guard (s.canPassPanics cr) (s.canPass cr)) :=
  ⟨RsAgree.valid_actions__eq, RsAgree.has_move_eq, RsAgree.is_terminal_eq, RsAgree.can_pass_eq⟩

/-- **C07 for the code as it is now**: whatever the regenerated `has_move` and `valid_actions` return,
"no result" coincides with "the offered list is non-empty" -/
theorem C07_code_has_move_iff (s : GameState) (pp : PlayPhase) (hph : s.phase = .play pp) (h3 : pp.step ≤ 3)
    (r : Option Terminal) (l : List Action)
    (hr : GameState_has_move s s.board = .ok r) (hl : GameState_valid_actions s = .ok l) :
    r = none ↔ l ≠ [] := by
  have h1 := (C07_value_of_ok (RsAgree.has_move_eq s s.board) hr).2
  have h2 := (C07_value_of_ok (RsAgree.valid_actions_eq s) hl).2
  subst h1 h2
  exact C07_has_move_iff s pp hph h3

end Arimaa
