import Arimaa.Props.C07
import Arimaa.Lemmas.RsAgreeOffered
import Arimaa.Lemmas.RsAgreeResult
import Arimaa.Gen.Bridge.GameState_can_pass
import Arimaa.Gen.Bridge.GameState_has_move
import Arimaa.Gen.Bridge.GameState_is_terminal
import Arimaa.Gen.Bridge.GameState_valid_actions
import Arimaa.Gen.Bridge.GameState_valid_actions_

/-!
# C07 — the property at the level of the REGENERATED code

`Gen/Rs.lean` is written by `tools/rs2lean2.py` from the current text of engine.rs / zobrist.rs on every
run.  `Gen/Bridge/<fn>.lean` (generated) proves `@Rs.fn = @RsBase.fn` — the current text against the
baseline text — and `Lemmas/RsAgree*.lean` prove that each baseline function equals
`Res.guard (hand panic guard) (hand total function)`.  This file puts both, for the functions C07 rests
on, into the property's proof closure and restates them as one named obligation (`C07_code_agrees`) about
the CURRENT functions, plus corollaries that speak about them directly.  A change of the Rust text of one
of these functions that alters behaviour breaks an obligation here without any test having to find the input.
(written by tools/mkrprops.py)
-/
namespace Arimaa
open Gen GameState Arimaa.Gen.Rs Arimaa.Rt Arimaa.Gen.Bridge

theorem C07_value_of_ok {α : Type} {x : Res α} {p : Bool} {v w : α} (h : x = Res.guard p v) (hx : x = .ok w) :
    p = false ∧ w = v := by
  rw [h] at hx
  obtain ⟨hp, hv⟩ := Res.guard_eq_ok.mp hx
  exact ⟨hp, hv.symm⟩

/-- the agreement theorems C07 rests on, about the CURRENT functions, as one obligation -/
theorem C07_code_agrees :
    (∀ (s : GameState) (cr : Bool), GameState_valid_actions_ s cr = Res.guard (s.validActions_Panics cr) (s.validActions_ cr)) ∧
    (∀ (s : GameState) (b : Board), GameState_has_move s b = Res.guard (s.hasMovePanics b) (s.hasMove b)) ∧
    (∀ s : GameState, GameState_is_terminal s = Res.guard s.isTerminalPanics s.isTerminal) ∧
    (∀ (s : GameState) (cr : Bool), GameState_can_pass s cr = Res.guard (s.canPassPanics cr) (s.canPass cr)) :=
  ⟨(by simp only [bridge_GameState_valid_actions_]; exact RsAgree.valid_actions__eq),
   (by simp only [bridge_GameState_has_move]; exact RsAgree.has_move_eq),
   (by simp only [bridge_GameState_is_terminal]; exact RsAgree.is_terminal_eq),
   (by simp only [bridge_GameState_can_pass]; exact RsAgree.can_pass_eq)⟩

/-- **C07 for the code as it is now**: whatever the regenerated `has_move` and `valid_actions` return,
"no result" coincides with "the offered list is non-empty" -/
theorem C07_code_has_move_iff (s : GameState) (pp : PlayPhase) (hph : s.phase = .play pp) (h3 : pp.step ≤ 3)
    (r : Option Terminal) (l : List Action)
    (hr : GameState_has_move s s.board = .ok r) (hl : GameState_valid_actions s = .ok l) :
    r = none ↔ l ≠ [] := by
  simp only [bridge_GameState_has_move] at hr
  simp only [bridge_GameState_valid_actions] at hl
  have h1 := (C07_value_of_ok (RsAgree.has_move_eq s s.board) hr).2
  have h2 := (C07_value_of_ok (RsAgree.valid_actions_eq s) hl).2
  subst h1 h2
  exact C07_has_move_iff s pp hph h3

/-- **C07 for the code as it is now**: in a play-phase state with step counter at most 3, if the regenerated
`is_terminal` returns "no result" then the list the regenerated `valid_actions` returns is not empty: a driver that
asks for the result before asking for actions never gets stuck -/
theorem C07_code_no_result_nonempty (s : GameState) (pp : PlayPhase) (hph : s.phase = .play pp) (h3 : pp.step ≤ 3)
    (l : List Action) (ht : GameState_is_terminal s = .ok none) (hl : GameState_valid_actions s = .ok l) : l ≠ [] := by
  simp only [bridge_GameState_is_terminal] at ht
  simp only [bridge_GameState_valid_actions] at hl
  have h1 := (C07_value_of_ok (RsAgree.is_terminal_eq s) ht).2
  have h2 := (C07_value_of_ok (RsAgree.valid_actions_eq s) hl).2
  subst h2
  exact C07_no_result_nonempty s pp hph h3 h1.symm

end Arimaa
