import Arimaa.Gen.Bridge.GameState_valid_actions
import Arimaa.Gen.Bridge.GameState_valid_actions_no_rep
import Arimaa.Gen.Bridge.GameState_is_terminal
import Arimaa.Gen.Bridge.GameState_has_move
import Arimaa.Gen.Bridge.GameState_can_pass
import Arimaa.Gen.Bridge.GameState_transposition_hash
import Arimaa.Gen.Bridge.GameState_current_step
import Arimaa.Gen.Bridge.GameState_take_action
import Arimaa.Gen.Bridge.GameState_trapped_animal_for_action
import Arimaa.Gen.Bridge.GameState_piece_board_for_step
import Arimaa.Props.C19
import Arimaa.Lemmas.RsAgreeOffered
import Arimaa.Lemmas.RsAgreeResult
import Arimaa.Lemmas.RsAgreeStep
import Arimaa.Lemmas.RsAgreeTHash
import Arimaa.Lemmas.RsAgreePrevBoards
import Arimaa.Lemmas.RsAgreePreview

/-!
# C19 — the property at the level of the REGENERATED code

`Gen/Rs.lean` is written by `tools/rs2lean2.py` from the current text of engine.rs / zobrist.rs on every
run; `Lemmas/RsAgree*.lean` prove that each regenerated function equals
`Res.guard (hand panic guard) (hand total function)`.  The theorems below restate the property for the
regenerated functions themselves (`Gen.Rs.GameState_*`, result type `Res` = value or panic), so a change
of the Rust text that alters behaviour breaks an obligation of this file without any test having to
find the input.  Here: no public query and no offered action of the regenerated code returns `panic` on a state satisfying the play invariant; each returns exactly the value of the total model.
-/
namespace Arimaa
open Gen Spec GameState Arimaa.Gen.Rs Arimaa.Rt Arimaa.Gen.Bridge

theorem C19_guard_ok {α : Type} {p : Bool} {v : α} (h : p = false) : Res.guard p v = .ok v := by
  subst h; rfl

/-- **C19 for the code as it is now** (play phase): every listed query of the regenerated code returns a
value — the one the total model computes — and so do `take_action` and the capture preview for every
action of the rule-only list, and `piece_board_for_step` for every step index of the turn. -/
theorem C19_code_no_panic_play (s : GameState) (pp : PlayPhase) (h : PlayInv s pp)
    (hh : StatusHashable pp.pps) (hm : s.moveNo < usizeMax) :
    GameState_valid_actions s = .ok s.validActions ∧
    GameState_valid_actions_no_rep s = .ok s.validActionsNoRep ∧
    GameState_is_terminal s = .ok s.isTerminal ∧
    GameState_has_move s s.board = .ok (s.hasMove s.board) ∧
    GameState_can_pass s false = .ok (s.canPass false) ∧
    GameState_can_pass s true = .ok (s.canPass true) ∧
    GameState_transposition_hash s = .ok s.transpositionHash ∧
    GameState_current_step s = .ok s.step ∧
    (∀ a ∈ s.validActionsNoRep,
      GameState_take_action s a = .ok (s.takeAction a) ∧
      GameState_trapped_animal_for_action s a = .ok (s.trappedAnimalForAction a)) ∧
    (∀ i, i ≤ pp.step → GameState_piece_board_for_step s i = .ok (s.pieceBoardForStep i)) := by
  obtain ⟨⟨h1, h2, h3, h4, h5, h6, h7, _, h9⟩, hact, hpbs, _⟩ := C19_no_panic_play s pp h hh hm
  refine ⟨?_, ?_, ?_, ?_, ?_, ?_, ?_, ?_, ?_, ?_⟩
  · rw [bridge_GameState_valid_actions, RsAgree.valid_actions_eq]; exact C19_guard_ok h1
  · rw [bridge_GameState_valid_actions_no_rep, RsAgree.valid_actions_no_rep_eq]; exact C19_guard_ok h2
  · rw [bridge_GameState_is_terminal, RsAgree.is_terminal_eq]; exact C19_guard_ok h3
  · rw [bridge_GameState_has_move, RsAgree.has_move_eq]; exact C19_guard_ok h4
  · rw [bridge_GameState_can_pass, RsAgree.can_pass_eq]; exact C19_guard_ok h5
  · rw [bridge_GameState_can_pass, RsAgree.can_pass_eq]; exact C19_guard_ok h6
  · rw [bridge_GameState_transposition_hash, RsAgree.transposition_hash_eq]; exact C19_guard_ok h7
  · rw [bridge_GameState_current_step, RsAgree.current_step]; exact C19_guard_ok h9
  · intro a ha
    obtain ⟨hp, ht, _⟩ := hact a ha
    exact ⟨by rw [bridge_GameState_take_action, RsAgree.take_action_eq]; exact C19_guard_ok ht,
      by rw [bridge_GameState_trapped_animal_for_action, RsAgree.trapped_animal_for_action_eq]; exact C19_guard_ok hp⟩
  · intro i hi
    rw [bridge_GameState_piece_board_for_step, RsAgree.piece_board_for_step_eq]; exact C19_guard_ok (hpbs i hi)

/-- the overflow point F4 is a panic of the regenerated code as well: the model-level statement and the code agree -/
theorem C19_code_overflow_point (s : GameState) (pp : PlayPhase) (hph : s.phase = .play pp)
    (hside : s.p1Turn = false) (hmax : s.moveNo = usizeMax) :
    GameState_take_action s .pass = .panic := by
  rw [bridge_GameState_take_action, RsAgree.take_action_eq]
  have : s.takeActionPanics .pass = true := by
    simp [takeActionPanics, passPanics, hph, usizeAddPanics, hside, hmax]
  rw [this]; rfl

/-- **C19 for the code as it is now, every reachable state** (the initial state, every state a diagram parses to,
and everything reached from those through the rule-only lists — setup included): no listed query of the
regenerated code panics, nor do `take_action` and the capture preview for any offered action, nor — in play —
`current_step` and `piece_board_for_step i` for `i ≤ step`; each returns the value of the total model.  The only
hypothesis is the machine-integer bound of finding F4. -/
theorem C19_code_no_panic (s : GameState) (hr : NoPanic.Reach s) (hm : s.moveNo < usizeMax) :
    GameState_valid_actions s = .ok s.validActions ∧
    GameState_valid_actions_no_rep s = .ok s.validActionsNoRep ∧
    GameState_is_terminal s = .ok s.isTerminal ∧
    GameState_has_move s s.board = .ok (s.hasMove s.board) ∧
    GameState_can_pass s false = .ok (s.canPass false) ∧
    GameState_can_pass s true = .ok (s.canPass true) ∧
    GameState_transposition_hash s = .ok s.transpositionHash ∧
    (∀ a ∈ s.validActionsNoRep,
      GameState_take_action s a = .ok (s.takeAction a) ∧
      GameState_trapped_animal_for_action s a = .ok (s.trappedAnimalForAction a)) ∧
    (∀ pp, s.phase = .play pp →
      GameState_current_step s = .ok s.step ∧
      ∀ i, i ≤ pp.step → GameState_piece_board_for_step s i = .ok (s.pieceBoardForStep i)) := by
  obtain ⟨⟨h1, h2, h3, h4, h5, h6, h7, _⟩, hact, _, hplay⟩ := C19_no_panic s hr hm
  refine ⟨?_, ?_, ?_, ?_, ?_, ?_, ?_, ?_, ?_⟩
  · rw [bridge_GameState_valid_actions, RsAgree.valid_actions_eq]; exact C19_guard_ok h1
  · rw [bridge_GameState_valid_actions_no_rep, RsAgree.valid_actions_no_rep_eq]; exact C19_guard_ok h2
  · rw [bridge_GameState_is_terminal, RsAgree.is_terminal_eq]; exact C19_guard_ok h3
  · rw [bridge_GameState_has_move, RsAgree.has_move_eq]; exact C19_guard_ok h4
  · rw [bridge_GameState_can_pass, RsAgree.can_pass_eq]; exact C19_guard_ok h5
  · rw [bridge_GameState_can_pass, RsAgree.can_pass_eq]; exact C19_guard_ok h6
  · rw [bridge_GameState_transposition_hash, RsAgree.transposition_hash_eq]; exact C19_guard_ok h7
  · intro a ha
    obtain ⟨hp, ht, _⟩ := hact a ha
    exact ⟨by rw [bridge_GameState_take_action, RsAgree.take_action_eq]; exact C19_guard_ok ht,
      by rw [bridge_GameState_trapped_animal_for_action, RsAgree.trapped_animal_for_action_eq]; exact C19_guard_ok hp⟩
  · intro pp hph
    obtain ⟨hc, hpbs⟩ := hplay pp hph
    refine ⟨by rw [bridge_GameState_current_step, RsAgree.current_step]; exact C19_guard_ok hc, ?_⟩
    intro i hi
    rw [bridge_GameState_piece_board_for_step, RsAgree.piece_board_for_step_eq]; exact C19_guard_ok (hpbs i hi)

end Arimaa
