import Arimaa.Lemmas.Result

/-!
# C04 — at turn start the reported result follows the official win-condition order

Property text: for every position at the start of a turn the reported result is: the player who
just moved wins if one of their rabbits stands on its goal rank; otherwise the player to move wins
if one of theirs does; otherwise the player who just moved wins if the player to move has no
rabbits; otherwise the player to move wins if the other side has none; otherwise the player to move
loses if they have no legal step; otherwise the game is not over.  A rabbit touching the goal rank,
or a side losing its last rabbit, in the middle of a turn or during setup does not by itself end
the game.

The six-line decision list is `Spec.result` (`Spec/Rules.lean`), written over the square-indexed
board with its own goal ranks (`onGoalRank`: rank 8 = squares 0..7 for Gold, rank 1 = squares
56..63 for Silver), `hasRabbit`, and `hasStep` (= some square and direction with
`enabledMove b side 0 .none`, i.e. an own step of an unfrozen piece or the first half of a push).
`absBoard` is the abstraction of the eight bitboards; `WF` says the bitboards describe one piece
per occupied square.  "Start of a turn" is `step = 0`; the status is then `none`
(`TurnInv`, proved along every action list in C03), which `C04_turn_start_inv` uses.
`terminalOf` / `toSpecResult` are the two obvious renamings between `Spec.Result` and `Terminal`.
-/
namespace Arimaa
open GameState Gen Spec

/-- **Goal-rank masks.**  The generated masks are exactly the specification's goal ranks: Gold's
mask is rank 8 (squares 0..7, a8..h8), Silver's mask is rank 1 (squares 56..63, a1..h1 — all eight
of them). -/
theorem C04_goal_masks (i : Nat) (h : i < 64) :
    bit P1_OBJECTIVE_MASK i = onGoalRank true i ∧ bit P2_OBJECTIVE_MASK i = onGoalRank false i := by
  rw [p1_objective_bit i h, p2_objective_bit i h]
  simp [onGoalRank]

/-- **The four board tests.**  On a well-formed board the code's bit tests are the specification's
predicates: "Gold has a rabbit on rank 8", "Silver has a rabbit on rank 1", "Gold has no rabbit",
"Silver has no rabbit". -/
theorem C04_board_tests (b : Board) (hw : WF b) :
    (((b.p1 &&& b.rabbits &&& P1_OBJECTIVE_MASK) != 0) = rabbitOnGoal (absBoard b) true) ∧
    (((~~~b.p1 &&& b.rabbits &&& P2_OBJECTIVE_MASK) != 0) = rabbitOnGoal (absBoard b) false) ∧
    (((b.p1 &&& b.rabbits) == 0) = !hasRabbit (absBoard b) true) ∧
    (((~~~b.p1 &&& b.rabbits) == 0) = !hasRabbit (absBoard b) false) :=
  ⟨p1Met_eq b hw, p2Met_eq b hw, p1Lost_eq b hw, p2Lost_eq b hw⟩

/-- **Goal test, last mover first.**  `rabbitAtGoal` reports a win of the player who just moved
(`!p1Turn`) if that player has a rabbit on its goal rank, otherwise a win of the player to move if
that one has, otherwise nothing (lines 1–2 of the list). -/
theorem C04_rabbit_at_goal (s : GameState) (b : Board) (hw : WF b) :
    s.rabbitAtGoal b =
      if rabbitOnGoal (absBoard b) (!s.p1Turn) then some (terminalOf (win (!s.p1Turn)))
      else if rabbitOnGoal (absBoard b) s.p1Turn then some (terminalOf (win s.p1Turn))
      else none :=
  rabbitAtGoal_eq s b hw

/-- **Elimination test.**  `lostAllRabbits` reports a win of the player who just moved if the
player to move has no rabbit, otherwise a win of the player to move if the other side has none,
otherwise nothing (lines 3–4 of the list). -/
theorem C04_lost_all_rabbits (s : GameState) (b : Board) (hw : WF b) :
    s.lostAllRabbits b =
      if !hasRabbit (absBoard b) s.p1Turn then some (terminalOf (win (!s.p1Turn)))
      else if !hasRabbit (absBoard b) (!s.p1Turn) then some (terminalOf (win s.p1Turn))
      else none :=
  lostAllRabbits_eq s b hw

/-- **Immobilisation test at turn start.**  At step 0 with no pending status, `hasMove` says
"there is a move" exactly when the specification gives the player to move some step; otherwise it
reports a loss for the player to move (line 5 of the list). -/
theorem C04_has_move_turn_start (s : GameState) (pp : PlayPhase) (hph : s.phase = .play pp)
    (hw : WF s.board) (h0 : pp.step = 0) (hpps : pp.pps = .none) :
    (s.hasMove s.board = none ↔ hasStep (absBoard s.board) s.p1Turn = true) ∧
    (s.hasMove s.board =
      if !hasStep (absBoard s.board) s.p1Turn then some (terminalOf (win (!s.p1Turn))) else none) :=
  ⟨hasMove_step0_iff s pp hph hw h0 hpps, hasMove_step0_eq s pp hph hw h0 hpps⟩

/-- **Result at the start of a turn.**  For every play-phase state with a well-formed board at
step 0 (status `none`), the reported result is the specification's six-line decision list
evaluated on the abstract board with the side to move. -/
theorem C04_turn_start (s : GameState) (pp : PlayPhase) (hph : s.phase = .play pp)
    (hw : WF s.board) (h0 : pp.step = 0) (hpps : pp.pps = .none) :
    s.isTerminal = (Spec.result (absBoard s.board) s.p1Turn).map terminalOf := by
  have hn : ¬ pp.step > 0 := by omega
  simp only [isTerminal, hph, hn, if_false]
  rw [rabbitAtGoal_eq s s.board hw, lostAllRabbits_eq s s.board hw,
    hasMove_step0_eq s pp hph hw h0 hpps]
  unfold Spec.result
  simp only []
  cases rabbitOnGoal (absBoard s.board) (!s.p1Turn) <;>
    cases rabbitOnGoal (absBoard s.board) s.p1Turn <;>
    cases hasRabbit (absBoard s.board) s.p1Turn <;>
    cases hasRabbit (absBoard s.board) (!s.p1Turn) <;>
    cases hasStep (absBoard s.board) s.p1Turn <;> simp [Option.orElse]

/-- `C04_turn_start` read in the other direction: the reported result, renamed into the
specification's result type, equals `Spec.result`. -/
theorem C04_turn_start_spec (s : GameState) (pp : PlayPhase) (hph : s.phase = .play pp)
    (hw : WF s.board) (h0 : pp.step = 0) (hpps : pp.pps = .none) :
    s.isTerminal.map toSpecResult = Spec.result (absBoard s.board) s.p1Turn := by
  rw [C04_turn_start s pp hph hw h0 hpps, map_toSpecResult_map_terminalOf]

/-- `C04_turn_start` with the status hypothesis supplied by the turn invariant (`TurnInv` holds in
every state reached from the initial state or a parsed position: `turnInv_run`, C03). -/
theorem C04_turn_start_inv (s : GameState) (pp : PlayPhase) (hph : s.phase = .play pp)
    (hw : WF s.board) (hinv : TurnInv s) (h0 : pp.step = 0) :
    s.isTerminal = (Spec.result (absBoard s.board) s.p1Turn).map terminalOf := by
  unfold TurnInv at hinv
  rw [hph] at hinv
  exact C04_turn_start s pp hph hw h0 (hinv.2 h0).1

/-- **Over reachable play-phase states.**  Start from any play-phase state `s0` with a well-formed
board whose status names an empty square (`PlayInv`) and which satisfies the turn invariant (both
hold for every successfully parsed position and for the first play state after setup).  Every
state `s` reached from it by offered actions (`OfferedRun`, closed even under the rule-only list)
that stands at the start of a turn reports exactly `Spec.result` of its board and side to move —
no hypothesis on `s` itself. -/
theorem C04_turn_start_reachable (s0 : GameState) (pp0 : PlayPhase) (hinv0 : PlayInv s0 pp0)
    (ht0 : TurnInv s0) (s : GameState) (hr : OfferedRun s0 s) (pp : PlayPhase)
    (hph : s.phase = .play pp) (h0 : pp.step = 0) :
    s.isTerminal = (Spec.result (absBoard s.board) s.p1Turn).map terminalOf := by
  obtain ⟨⟨pp', hpi⟩, hti⟩ := offeredRun_inv s0 pp0 hinv0 ht0 s hr
  exact C04_turn_start_inv s pp hph hpi.wf hti h0

/-- The six lines of the property spelled out one by one (`m` = side to move is Gold iff `p1Turn`;
`win g` is "Gold wins" iff `g`). -/
theorem C04_turn_start_lines (s : GameState) (pp : PlayPhase) (hph : s.phase = .play pp)
    (hw : WF s.board) (h0 : pp.step = 0) (hpps : pp.pps = .none) :
    let b := absBoard s.board
    let m := s.p1Turn
    let l := !s.p1Turn
    (rabbitOnGoal b l = true → s.isTerminal = some (terminalOf (win l))) ∧
    (rabbitOnGoal b l = false → rabbitOnGoal b m = true →
      s.isTerminal = some (terminalOf (win m))) ∧
    (rabbitOnGoal b l = false → rabbitOnGoal b m = false → hasRabbit b m = false →
      s.isTerminal = some (terminalOf (win l))) ∧
    (rabbitOnGoal b l = false → rabbitOnGoal b m = false → hasRabbit b m = true →
      hasRabbit b l = false → s.isTerminal = some (terminalOf (win m))) ∧
    (rabbitOnGoal b l = false → rabbitOnGoal b m = false → hasRabbit b m = true →
      hasRabbit b l = true → hasStep b m = false → s.isTerminal = some (terminalOf (win l))) ∧
    (rabbitOnGoal b l = false → rabbitOnGoal b m = false → hasRabbit b m = true →
      hasRabbit b l = true → hasStep b m = true → s.isTerminal = none) := by
  intro b m l
  rw [C04_turn_start s pp hph hw h0 hpps]
  unfold Spec.result
  refine ⟨?_, ?_, ?_, ?_, ?_, ?_⟩ <;> intros <;> simp_all [b, m, l]

/-- **Middle of a turn: only the action list matters.**  At steps 1..3 the reported result is
`hasMove` and nothing else: a result is reported iff the offered list is empty, and it is then a
loss for the player on move. -/
theorem C04_mid_turn (s : GameState) (pp : PlayPhase) (hph : s.phase = .play pp)
    (hpos : pp.step > 0) (h3 : pp.step ≤ 3) :
    s.isTerminal = s.hasMove s.board ∧
    s.isTerminal =
      if s.validActions.isEmpty then some (terminalOf (win (!s.p1Turn))) else none := by
  have h1 := isTerminal_mid_turn s pp hph hpos
  refine ⟨h1, ?_⟩
  rw [h1]
  have h := validActions_ne_nil_iff s pp hph h3
  cases hv : s.validActions with
  | nil =>
    have hne : s.hasMove s.board ≠ none := fun e => (h.2 e) hv
    rw [hasMove_eq_some s s.board hne]
    cases s.p1Turn <;> simp [terminalOf, win]
  | cons a l =>
    have := h.1 (by rw [hv]; exact List.cons_ne_nil a l)
    simpa using this

/-- **Goal rabbits and lost rabbits are not consulted mid-turn.**  Whatever the board contains —
a rabbit on a goal rank, a side without rabbits — a mid-turn state with a non-empty offered list
reports no result. -/
theorem C04_mid_turn_ignores_goal (s : GameState) (pp : PlayPhase) (hph : s.phase = .play pp)
    (hpos : pp.step > 0) (h3 : pp.step ≤ 3) (hne : s.validActions ≠ []) :
    s.isTerminal = none := by
  rw [isTerminal_mid_turn s pp hph hpos]
  exact (validActions_ne_nil_iff s pp hph h3).1 hne

/-- **Setup.**  In the place phase no result is reported, whatever the board contains. -/
theorem C04_setup (s : GameState) (hph : s.phase = .place) : s.isTerminal = none := by
  simp [isTerminal, hph]

/-! ### Non-vacuity: each of the six lines fires on a concrete well-formed position -/

/-- a play-phase state at the start of a turn with the given side to move and board -/
def exState_C04 (gold : Bool) (b : Board) : GameState :=
  { p1Turn := gold, moveNo := 2, phase := .play (PlayPhase.initial 0 []), board := b, hash := 0 }

/-- the same board in the middle of a turn (one step made) -/
def exMid_C04 (gold : Bool) (b : Board) : GameState :=
  { p1Turn := gold, moveNo := 2,
    phase := .play { PlayPhase.initial 0 [] with prev := [Board.empty] }, board := b, hash := 0 }

/-- a decidable rendering of `WF` used only for the examples -/
def wfCheck_C04 (b : Board) : Bool :=
  (List.range 64).all fun i =>
    decide ((bit b.elephants i).toNat + (bit b.camels i).toNat + (bit b.horses i).toNat +
      (bit b.dogs i).toNat + (bit b.cats i).toNat + (bit b.rabbits i).toNat ≤ 1) &&
    (bit b.all i == (bit b.elephants i || bit b.camels i || bit b.horses i || bit b.dogs i ||
      bit b.cats i || bit b.rabbits i)) &&
    (!bit b.p1 i || bit b.all i)

theorem wf_of_check_C04 (b : Board) (h : wfCheck_C04 b = true) : WF b := by
  unfold wfCheck_C04 at h
  rw [List.all_eq_true] at h
  refine ⟨fun i hi => ?_, fun i hi => ?_, fun i hi hp => ?_⟩ <;>
    have := h i (List.mem_range.2 hi) <;> simp_all

/-- line 1: Silver has just moved and has a rabbit on h1 (square 63); Gold also has one on a8 —
the player who just moved wins -/
def exB1_C04 : Board := Board.new (sqBit 0) 0 0 0 0 0 (sqBit 0 ||| sqBit 63)
example : WF exB1_C04 := wf_of_check_C04 _ (by decide +kernel)
example : (exState_C04 true exB1_C04).isTerminal = some .silverWin := by decide +kernel
example : Spec.result (absBoard exB1_C04) true = some .silverWin := by decide +kernel

/-- line 1 with Silver to move: on the same board Gold is now the player who just moved -/
example : (exState_C04 false exB1_C04).isTerminal = some .goldWin := by decide +kernel

/-- line 2: Gold to move has a rabbit on h8 (square 7), Silver's rabbit is on c7 -/
def exB2_C04 : Board := Board.new (sqBit 7) 0 0 0 0 0 (sqBit 7 ||| sqBit 10)
example : WF exB2_C04 := wf_of_check_C04 _ (by decide +kernel)
example : (exState_C04 true exB2_C04).isTerminal = some .goldWin := by decide +kernel

/-- line 3: Gold to move has no rabbit (only an elephant on a3), Silver has one -/
def exB3_C04 : Board := Board.new (sqBit 40) (sqBit 40) 0 0 0 0 (sqBit 10)
example : WF exB3_C04 := wf_of_check_C04 _ (by decide +kernel)
example : (exState_C04 true exB3_C04).isTerminal = some .silverWin := by decide +kernel

/-- line 4: Gold to move has a rabbit on a3, Silver has only an elephant -/
def exB4_C04 : Board := Board.new (sqBit 40) (sqBit 10) 0 0 0 0 (sqBit 40)
example : WF exB4_C04 := wf_of_check_C04 _ (by decide +kernel)
example : (exState_C04 true exB4_C04).isTerminal = some .goldWin := by decide +kernel

/-- line 5: Gold to move has a single rabbit on a1 frozen by Silver cats on a2 and b1; Silver has
a rabbit on c7 — Gold has no step and loses -/
def exB5_C04 : Board := Board.new (sqBit 56) 0 0 0 0 (sqBit 48 ||| sqBit 57) (sqBit 56 ||| sqBit 10)
example : WF exB5_C04 := wf_of_check_C04 _ (by decide +kernel)
example : (exState_C04 true exB5_C04).isTerminal = some .silverWin := by decide +kernel
example : hasStep (absBoard exB5_C04) true = false := by decide +kernel

/-- line 6: both sides have a rabbit off the goal ranks and Gold can step — no result -/
def exB6_C04 : Board := Board.new (sqBit 48) 0 0 0 0 0 (sqBit 48 ||| sqBit 8)
example : WF exB6_C04 := wf_of_check_C04 _ (by decide +kernel)
example : (exState_C04 true exB6_C04).isTerminal = none := by decide +kernel

/-- the hypotheses of `C04_turn_start` hold for these states -/
example : ∃ pp, (exState_C04 true exB1_C04).phase = .play pp ∧ pp.step = 0 ∧ pp.pps = .none :=
  ⟨_, rfl, rfl, rfl⟩

/-- the hypotheses of `C04_turn_start_reachable` hold for the line-6 state, and the state after Gold's
offered step a2-a3 is reached by an `OfferedRun` -/
example : PlayInv (exState_C04 true exB6_C04) (PlayPhase.initial 0 []) :=
  ⟨rfl, wf_of_check_C04 _ (by decide +kernel), trivial, by decide⟩
example : TurnInv (exState_C04 true exB6_C04) := turnInv_of_initial _ _ _ rfl
example : OfferedRun (exState_C04 true exB6_C04)
    ((exState_C04 true exB6_C04).takeAction (.move 48 .up)) :=
  .step .refl (by decide +kernel)

/-- mid-turn: the board of line 1 (rabbits of both sides on their goal ranks) and the board of
line 3 (Gold without rabbits) report no result after one step of the turn -/
example : ∃ pp, (exMid_C04 true exB1_C04).phase = .play pp ∧ pp.step = 1 := ⟨_, rfl, rfl⟩
example : (exMid_C04 true exB1_C04).isTerminal = none := by decide +kernel
example : (exMid_C04 true exB3_C04).isTerminal = none := by decide +kernel
example : (exMid_C04 true exB1_C04).validActions ≠ [] := by decide +kernel

/-- setup: the same boards report no result in the place phase -/
example : ({ exState_C04 true exB1_C04 with phase := .place }).isTerminal = none := rfl

end Arimaa
