import Arimaa.Lemmas.Notation

/-!
C16 — Action/square notation round-trips; malformed text is rejected without panic.

Text is `List Char` (the repaired `FromStr` impls work on `chars()`); `Outcome` distinguishes
`Ok` / `Err` / panic.  A square is its index (`Nat`, valid when `< 64`), so `Square::from_index`
and `Square::index` are the identity in the model.
-/
namespace Arimaa
open Gen

/-! ### 1. Round trips: print, then parse -/

/-- Every action (moves restricted to the 64 board squares) prints to a text that parses back to
the same action. -/
theorem C16_action_roundtrip (a : Action) (h : ∀ sq d, a = .move sq d → sq < 64) :
    parseAction (showAction a) = .ok a :=
  parseAction_showAction a h

/-- Every board square prints to a text that parses back to the same square. -/
theorem C16_square_roundtrip (sq : Nat) (h : sq < 64) : parseSquare (showSquare sq) = .ok sq :=
  parseSquare_showSquare sq h

/-- Every piece prints to a text that parses back to the same piece; so does its upper-case letter. -/
theorem C16_piece_roundtrip (p : Piece) :
    parsePiece (showPiece p) = .ok p ∧ parsePiece [(pieceLetter p).toUpper] = .ok p :=
  ⟨parsePiece_showPiece p, parsePiece_upper p⟩

/-- Every direction prints to a text that parses back to the same direction. -/
theorem C16_dir_roundtrip (d : Dir) : parseDir (showDir d) = .ok d :=
  parseDir_showDir d

/-! ### 2. Square conversions -/

/-- For each of the 64 squares: bit board and square are mutually inverse (`from_bit_board ∘
as_bit_board = id`, and `as_bit_board` is injective with exactly bit `sq` set, so it is the one-bit
board of that index and `map_bit_board_to_squares` gives back `[sq]`); `new (column_char s) (row s) = s`;
and the printed form is the file letter `'a' + sq % 8` followed by the rank digit `8 - sq / 8`. -/
theorem C16_square_conversions (sq : Nat) (h : sq < 64) :
    sqOfBit (sqBit sq) = sq ∧
    sqNew (sqColumnChar sq) (sqRow sq) = sq ∧
    showSquare sq = [Char.ofNat ('a'.toNat + sq % 8), Char.ofNat ('0'.toNat + (8 - sq / 8))] ∧
    (∀ i, bit (sqBit sq) i = decide (i = sq)) ∧
    sqBit sq ≠ 0 ∧
    squaresOf (sqBit sq) = [sq] ∧
    (∀ sq', sq' < 64 → sqBit sq = sqBit sq' → sq = sq') :=
  ⟨sqOfBit_sqBit sq h, sqNew_column_row sq h, showSquare_eq sq h, fun i => sqBit_bit' sq i h,
    sqBit_ne_zero sq h, squaresOf_sqBit sq h, fun sq' h' e => sqBit_injective sq sq' h h' e⟩

/-- Converse direction of the coordinate conversion: `Square::new` on file letter number `i` (`a`..`h`)
and rank `j + 1` (`1`..`8`) is the square `i + (7 - j) * 8 < 64`, whose `column_char` and `row` are
that file letter and that rank. -/
theorem C16_square_new_inverse (i j : Fin 8) :
    sqNew (Char.ofNat ('a'.toNat + i.1)) (j.1 + 1) < 64 ∧
    sqColumnChar (sqNew (Char.ofNat ('a'.toNat + i.1)) (j.1 + 1)) = Char.ofNat ('a'.toNat + i.1) ∧
    sqRow (sqNew (Char.ofNat ('a'.toNat + i.1)) (j.1 + 1)) = j.1 + 1 := by
  obtain ⟨h1, h2, h3⟩ := sqNew_file_rank i j
  have e : 'a'.toNat = 97 := by decide
  rw [e, h1]
  exact ⟨by omega, h2, h3⟩

/-- A one-bit board converts to a square and back to the same board. -/
theorem C16_bit_square_bit (x : BB) (h : ∃ sq, sq < 64 ∧ x = sqBit sq) : sqBit (sqOfBit x) = x := by
  obtain ⟨sq, hs, rfl⟩ := h
  rw [sqOfBit_sqBit sq hs]

/-! ### 3. Parsing succeeds only on printed forms (all texts, no length bound) -/

/-- If ANY text parses as an action, the text is the printed form of that action, or the action is a
placement and the text is the upper-case piece letter. -/
theorem C16_only_printed_forms (t : List Char) (a : Action) (h : parseAction t = .ok a) :
    t = showAction a ∨ ∃ p, a = .place p ∧ t = [(pieceLetter p).toUpper] :=
  parseAction_ok t a h

/-- If ANY text parses as a square, the result is one of the 64 squares and the text is its printed form. -/
theorem C16_only_printed_forms_square (t : List Char) (sq : Nat) (h : parseSquare t = .ok sq) :
    sq < 64 ∧ t = showSquare sq :=
  parseSquare_ok t sq h

/-- If ANY text parses as a piece, the text is its printed letter or the upper-case letter. -/
theorem C16_only_printed_forms_piece (t : List Char) (p : Piece) (h : parsePiece t = .ok p) :
    t = showPiece p ∨ t = [(pieceLetter p).toUpper] :=
  parsePiece_ok t p h

/-- If ANY text parses as a direction, the text is its printed form. -/
theorem C16_only_printed_forms_dir (t : List Char) (d : Dir) (h : parseDir t = .ok d) :
    t = showDir d :=
  parseDir_ok t d h

/-- A parsed action is always on the board: a parsed move has a square `< 64`. -/
theorem C16_parsed_move_on_board (t : List Char) (sq : Nat) (d : Dir)
    (h : parseAction t = .ok (.move sq d)) : sq < 64 := by
  rcases parseAction_ok t _ h with h1 | ⟨p, hp, _⟩
  · subst h1
    -- the printed move parses; its square part parses too
    simp only [showAction, showDir, parseAction] at h
    cases hs : showSquare sq with
    | nil => simp [showSquare] at hs
    | cons x r =>
      rw [hs] at h
      match r, h with
      | [y], h =>
        simp only [List.cons_append, List.nil_append] at h
        split at h
        · rename_i s hsq
          split at h
          · cases h
            exact (parseSquare_ok _ _ hsq).1
          · cases h
        · cases h
      | [], h => simp at h
      | _ :: _ :: _, h => simp at h
  · cases hp

/-- Exact characterisation: a text parses to the action `a` iff `a` is on the board and the text is
its printed form or (for placements) the upper-case piece letter. -/
theorem C16_parse_action_iff (t : List Char) (a : Action) :
    parseAction t = .ok a ↔
      (∀ sq d, a = .move sq d → sq < 64) ∧
      (t = showAction a ∨ ∃ p, a = .place p ∧ t = [(pieceLetter p).toUpper]) := by
  constructor
  · intro h
    refine ⟨?_, parseAction_ok t a h⟩
    intro sq d e; subst e
    exact C16_parsed_move_on_board t sq d h
  · rintro ⟨hb, h | ⟨p, rfl, h⟩⟩
    · subst h; exact parseAction_showAction a hb
    · subst h; cases p <;> decide

/-- Exact characterisation for squares. -/
theorem C16_parse_square_iff (t : List Char) (sq : Nat) :
    parseSquare t = .ok sq ↔ sq < 64 ∧ t = showSquare sq := by
  constructor
  · exact parseSquare_ok t sq
  · rintro ⟨h, rfl⟩; exact parseSquare_showSquare sq h

/-! ### 4. No panic -/

/-- None of the four parsers panics, on any text. -/
theorem C16_no_panic (t : List Char) :
    parseAction t ≠ .panic ∧ parseSquare t ≠ .panic ∧ parsePiece t ≠ .panic ∧ parseDir t ≠ .panic :=
  ⟨parseAction_no_panic t, parseSquare_no_panic t, parsePiece_no_panic t, parseDir_no_panic t⟩

/-! ### 5. `map_bit_board_to_squares` -/

/-- `squaresOf x` lists exactly the set bits of `x` (all `< 64`), in strictly ascending order and
hence without duplicates. -/
theorem C16_squares_of_bitboard (x : BB) :
    (∀ i, i ∈ squaresOf x ↔ i < 64 ∧ bit x i = true) ∧
    (squaresOf x).Pairwise (· < ·) ∧
    (squaresOf x).Nodup :=
  ⟨mem_squaresOf x, squaresOf_sorted x, squaresOf_nodup x⟩

/-! ### Non-vacuity -/

-- printed forms and their parses
example : showAction (.move 56 .up) = "a1n".toList := by decide
example : parseAction "a1n".toList = .ok (.move 56 .up) := by decide
example : parseAction "h8w".toList = .ok (.move 7 .left) := by decide
example : parseAction "p".toList = .ok .pass := by decide
example : parseAction "e".toList = .ok (.place .elephant) := by decide
-- the upper-case alternative of `C16_only_printed_forms` really occurs and is not the printed form
example : parseAction "R".toList = .ok (.place .rabbit) ∧ "R".toList ≠ showAction (.place .rabbit) := by
  decide
-- the bound `sq < 64` of the round trip is needed: square 64 prints as "a0", which is rejected
example : parseAction (showAction (.move 64 .up)) = .err := by decide
-- malformed texts (the inputs F1-F3 that broke the original code) are rejected, not panics
example : parseAction ['a', 'é', 'n'] = .err := by decide
example : parseSquare "A1".toList = .err := by decide
example : parseSquare "`1".toList = .err := by decide
example : parseSquare "11".toList = .err := by decide
example : parseAction "A1n".toList = .err := by decide
example : parseSquare [Char.ofNat 0x161, '1'] = .err := by decide
example : parseSquare "a9".toList = .err ∧ parseSquare "i1".toList = .err ∧ parseSquare "a0".toList = .err := by
  decide
example : parseAction [] = .err ∧ parseAction "a1".toList = .err ∧ parseAction "a1nn".toList = .err := by
  decide
-- square conversions on a concrete square (c6 = index 18, a trap)
example : showSquare 18 = "c6".toList ∧ sqOfBit (sqBit 18) = 18 ∧ sqNew 'c' 6 = 18 := by decide
-- a bitboard with several bits
example : squaresOf 0x8000000000000005#64 = [0, 2, 63] := by decide

end Arimaa
