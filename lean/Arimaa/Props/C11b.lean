import Arimaa.Props.C06b
import Arimaa.Props.C07
import Arimaa.Props.C11
import Arimaa.Lemmas.SymRepetition

/-!
# C11 (repetition clause) — the symmetries respect what the repetition rules withhold

Property text (C11): mirroring a game (position and every action) across the vertical axis, or
swapping the colours while flipping the ranks, maps offered actions to offered actions, captures to
captures and results to the correspondingly swapped results at every step of the game, *including
which actions the repetition rules withhold*.

`Props/C11.lean` proves everything except the emphasised clause in the middle of a turn (at the start
of a turn the repetition rules withhold nothing, `C11_impl_offered_turn_start`).  This file proves
the remaining clause for the offered list `validActions` (repetition rules on) of every state of
every game, and its two consequences (whole games through the offered lists; `isTerminal` in the
middle of a turn), each under an added hypothesis:

**FULL statement** (what C11 claims): for start states `s0`, `s0'` whose positions are `σ`-images of
each other and every game `as` played from `s0`, the image action `σ a` is offered after the image
game from `s0'` exactly when `a` is offered after `as` from `s0`.

**Proved here, PARTIAL** (`C11_repetition_partial`): the same with the added hypothesis
`CollisionFreeAt` (of `Props/C06b.lean`) at the state reached in the game and at the state reached in
the image game: no start-of-turn position so far has the 64-bit Zobrist hash of a board that a
turn-ending action leads to (with either side to move) unless it is that very position.  The full
statement is not provable for the implementation: the engine decides repetition by comparing
hashes, the Zobrist tables bear no relation to the symmetries, and finding F8 (DESIGN.md §6;
`C06_full_strength_is_false` in `Props/C06F8.lean`) is a legal game at whose end a pass is withheld
only because of a hash collision; nothing forces the image game to have a collision at the image
position.  What is missing from full strength is exactly `CollisionFreeAt` on the two sides.

Method: the exact board-level characterisation of the offered list (`C06_offered_iff_partial`) on both
sides; the rule-only lists, "ends the turn" and the successor positions correspond (`Props/C11.lean`);
the ghost lists of start-of-turn positions of the two games correspond entry by entry
(`ghostRel_run`), the correspondence is bi-unique because a well-formed board is determined by its
abstraction (`absBoard_inj_of_wf`) and every symmetry is an involution, hence "equals the turn-start
board" and the number of earlier occurrences of the resulting position agree in the two games.

`σ` ranges over the three symmetries `mirror`, `swap`, `both`; `σ.iact` is the action on model
actions, `σ.ires` on results (`Lemmas/SymTransfer.lean`, `Lemmas/SymResult.lean`).  The start states
are related by: the abstract board of `s0'` is the `σ`-image of the abstract board of `s0`, and the
side to move is the image side (`StartOk` makes both of them step-0 play-phase states with no
push/pull status, so this is `SymRel` for them).
-/
namespace Arimaa
open Spec GameState

/-- **The repetition clause, PARTIAL: added hypotheses `hcf`, `hcf'` (`CollisionFreeAt` in the game
and in the image game).**  Full statement (not provable for the implementation, see the file header
and finding F8): the same without `hcf` and `hcf'`.

For start states `s0`, `s0'` whose positions are images of each other under the symmetry `σ`, and
every game `as` played from `s0` through actions of the rule-only lists (this includes every game
through offered actions): after the image game from `s0'`, the image of an action `a` is offered
(`validActions`, repetition rules on) if and only if `a` is offered after `as` from `s0`.  In
particular the repetition rules withhold the image of exactly the actions they withhold in the
original game. -/
theorem C11_repetition_partial (σ : Sym) (s0 s0' : GameState) (h0 : StartOk s0) (h0' : StartOk s0')
    (hb : absBoard s0'.board = σ.board (absBoard s0.board)) (ht : s0'.p1Turn = σ.col s0.p1Turn)
    (as : List Action) (ho : OfferedNR s0 as) (pp pp' : PlayPhase)
    (hph : (s0.run as).phase = .play pp) (hph' : (s0'.run (as.map σ.iact)).phase = .play pp')
    (hcf : CollisionFreeAt s0 as pp) (hcf' : CollisionFreeAt s0' (as.map σ.iact) pp') (a : Action) :
    σ.iact a ∈ (s0'.run (as.map σ.iact)).validActions ↔ a ∈ (s0.run as).validActions := by
  obtain ⟨ho', hi, hi', hr, hg⟩ := symGame_setup σ s0 s0' h0 h0' hb ht as ho pp pp' hph hph'
  rw [C06_offered_iff_partial s0 h0 as ho pp hph hcf a,
    C06_offered_iff_partial s0' h0' _ ho' pp' hph' hcf' (σ.iact a),
    (C11_impl_offered_all σ _ _ pp pp' hi hi' hr a).1, endsTurn_iact σ pp pp' hr.step a]
  refine and_congr_right fun ha => not_congr (and_congr_right fun _ => ?_)
  obtain ⟨_, q, q', hq, hq', hrq⟩ := C11_impl_step σ _ _ pp pp' hi hi' hr a ha
  have hrel : PosRel σ (posOf ((s0.run as).takeAction a))
      (posOf ((s0'.run (as.map σ.iact)).takeAction (σ.iact a))) := ⟨hrq.board, hrq.turn⟩
  refine or_congr ?_ ?_
  · exact board_eq_iff_of_image σ _ _ _ _ hq.wf hg.tsbWf hq'.wf hg.tsbWf' hrq.board hg.tsbRel
  · have hc := relL_count (PosRel σ) _ _ (posOf ((s0.run as).takeAction a))
      (posOf ((s0'.run (as.map σ.iact)).takeAction (σ.iact a))) hg.rel
      (fun p hp p' hp' r => posRel_eq_iff σ p _ p' _ (hg.wf p hp) hq.wf (hg.wf' p' hp') hq'.wf r hrel)
    show 2 ≤ (turnStarts s0' (as.map σ.iact)).count
        (posOf ((s0'.run (as.map σ.iact)).takeAction (σ.iact a))) ↔
      2 ≤ (turnStarts s0 as).count (posOf ((s0.run as).takeAction a))
    rw [hc]

/-- The same read from the image side: an action `a'` is offered after the image game exactly when
its image (`σ` is an involution) is offered in the original game.  PARTIAL, same added hypotheses. -/
theorem C11_repetition_image_partial (σ : Sym) (s0 s0' : GameState) (h0 : StartOk s0)
    (h0' : StartOk s0') (hb : absBoard s0'.board = σ.board (absBoard s0.board))
    (ht : s0'.p1Turn = σ.col s0.p1Turn) (as : List Action) (ho : OfferedNR s0 as) (pp pp' : PlayPhase)
    (hph : (s0.run as).phase = .play pp) (hph' : (s0'.run (as.map σ.iact)).phase = .play pp')
    (hcf : CollisionFreeAt s0 as pp) (hcf' : CollisionFreeAt s0' (as.map σ.iact) pp') (a' : Action) :
    a' ∈ (s0'.run (as.map σ.iact)).validActions ↔ σ.iact a' ∈ (s0.run as).validActions := by
  have := C11_repetition_partial σ s0 s0' h0 h0' hb ht as ho pp pp' hph hph' hcf hcf' (σ.iact a')
  rwa [iact_iact] at this

/-- **Whole games through the offered lists, PARTIAL: added hypotheses `hcf`, `hcf'`
(`CollisionFreeAt` at every prefix of the game and at every prefix of the image game).**  Full
statement: the same without `hcf` and `hcf'`.

If every action of `as` is offered (repetition rules on) when its turn comes in the game from `s0`,
then every action of the image list is offered when its turn comes in the game from the image
start state `s0'`.  (The final states are then images of each other by `C11_impl_game`.) -/
theorem C11_offered_games_partial (σ : Sym) (s0 s0' : GameState) (h0 : StartOk s0) (h0' : StartOk s0')
    (hb : absBoard s0'.board = σ.board (absBoard s0.board)) (ht : s0'.p1Turn = σ.col s0.p1Turn)
    (as : List Action) (ho : Offered s0 as)
    (hcf : ∀ bs, bs <+: as → ∀ pp, (s0.run bs).phase = .play pp → CollisionFreeAt s0 bs pp)
    (hcf' : ∀ bs, bs <+: as → ∀ pp', (s0'.run (bs.map σ.iact)).phase = .play pp' →
      CollisionFreeAt s0' (bs.map σ.iact) pp') :
    Offered s0' (as.map σ.iact) := by
  -- generalise to a split `as = bs ++ cs` with `bs` already transferred
  have key : ∀ cs bs, as = bs ++ cs → Offered s0 bs → Offered (s0.run bs) cs →
      Offered (s0'.run (bs.map σ.iact)) (cs.map σ.iact) := by
    intro cs
    induction cs with
    | nil => intro _ _ _ _; trivial
    | cons c cs ih =>
      intro bs hsplit hbs hcs
      have hpre : bs <+: as := ⟨c :: cs, hsplit.symm⟩
      have honr := offered_offeredNR s0 bs hbs
      obtain ⟨pp, pp', hph, hph'⟩ := symGame_phase σ s0 s0' h0 h0' hb ht bs honr
      have hc' : σ.iact c ∈ (s0'.run (bs.map σ.iact)).validActions :=
        (C11_repetition_partial σ s0 s0' h0 h0' hb ht bs honr pp pp' hph hph'
          (hcf bs hpre pp hph) (hcf' bs hpre pp' hph') c).mpr hcs.1
      refine ⟨hc', ?_⟩
      have hnext := ih (bs ++ [c]) (by rw [hsplit, List.append_assoc]; rfl)
        ((offered_append s0 bs [c]).mpr ⟨hbs, hcs.1, trivial⟩)
        (by rw [run_append]; exact hcs.2)
      rw [List.map_append, run_append] at hnext
      exact hnext
  exact key as [] rfl trivial ho

/-- **... and conversely**: under the same added hypotheses, stated for the prefixes of the image
game, an offered image game comes from an offered game.  PARTIAL (`CollisionFreeAt` at every prefix
on both sides); full statement: without `hcf`, `hcf'`. -/
theorem C11_offered_games_iff_partial (σ : Sym) (s0 s0' : GameState) (h0 : StartOk s0)
    (h0' : StartOk s0') (hb : absBoard s0'.board = σ.board (absBoard s0.board))
    (ht : s0'.p1Turn = σ.col s0.p1Turn) (as : List Action)
    (hcf : ∀ bs, bs <+: as → ∀ pp, (s0.run bs).phase = .play pp → CollisionFreeAt s0 bs pp)
    (hcf' : ∀ bs, bs <+: as → ∀ pp', (s0'.run (bs.map σ.iact)).phase = .play pp' →
      CollisionFreeAt s0' (bs.map σ.iact) pp') :
    Offered s0' (as.map σ.iact) ↔ Offered s0 as := by
  constructor
  · intro ho'
    obtain ⟨hb2, ht2⟩ := startRel_symm σ _ _ _ _ hb ht
    have := C11_offered_games_partial σ s0' s0 h0' h0 hb2 ht2 (as.map σ.iact) ho'
      (by
        intro bs' hpre pp' hph'
        have hp2 : bs'.map σ.iact <+: as := by
          have := hpre.map σ.iact
          rwa [map_iact_iact] at this
        have := hcf' _ hp2 pp' (by rw [map_iact_iact]; exact hph')
        rwa [map_iact_iact] at this)
      (by
        intro bs' hpre pp hph
        have hp2 : bs'.map σ.iact <+: as := by
          have := hpre.map σ.iact
          rwa [map_iact_iact] at this
        exact hcf _ hp2 pp hph)
    rwa [map_iact_iact] at this
  · intro ho
    exact C11_offered_games_partial σ s0 s0' h0 h0' hb ht as ho hcf hcf'

/-- **Results in the middle of a turn, PARTIAL: added hypotheses `hcf`, `hcf'` (`CollisionFreeAt` in
the game and in the image game).**  Full statement: the same without them.

In the middle of a turn (`step > 0`) `isTerminal` reports a result exactly when the offered list,
repetition rules on, is empty (`C07_mid_turn_result`), a loss for the player on move.  After the
image game, `isTerminal` is the image of `isTerminal` after the original game: the same under
`mirror`, winners exchanged under `swap` and `both`.  (At the start of a turn: `C11_impl_result`,
full strength.) -/
theorem C11_mid_turn_result_partial (σ : Sym) (s0 s0' : GameState) (h0 : StartOk s0)
    (h0' : StartOk s0') (hb : absBoard s0'.board = σ.board (absBoard s0.board))
    (ht : s0'.p1Turn = σ.col s0.p1Turn) (as : List Action) (ho : OfferedNR s0 as) (pp pp' : PlayPhase)
    (hph : (s0.run as).phase = .play pp) (hph' : (s0'.run (as.map σ.iact)).phase = .play pp')
    (hcf : CollisionFreeAt s0 as pp) (hcf' : CollisionFreeAt s0' (as.map σ.iact) pp')
    (hpos : pp.step > 0) :
    (s0'.run (as.map σ.iact)).isTerminal = (s0.run as).isTerminal.map σ.ires := by
  obtain ⟨_, hi, hi', hr, _⟩ := symGame_setup σ s0 s0' h0 h0' hb ht as ho pp pp' hph hph'
  have hpos' : pp'.step > 0 := by rw [hr.step]; exact hpos
  obtain ⟨e1, f1⟩ := C07_mid_turn_result _ pp hph hpos hi.step_le
  obtain ⟨e2, f2⟩ := C07_mid_turn_result _ pp' hph' hpos' hi'.step_le
  have hmem := C11_repetition_partial σ s0 s0' h0 h0' hb ht as ho pp pp' hph hph' hcf hcf'
  have hmem' := C11_repetition_image_partial σ s0 s0' h0 h0' hb ht as ho pp pp' hph hph' hcf hcf'
  have hnil : (s0'.run (as.map σ.iact)).validActions = [] ↔ (s0.run as).validActions = [] := by
    constructor
    · intro h
      apply List.eq_nil_iff_forall_not_mem.mpr
      intro a ha
      have := (hmem a).mpr ha
      rw [h] at this
      cases this
    · intro h
      apply List.eq_nil_iff_forall_not_mem.mpr
      intro a' ha'
      have := (hmem' a').mp ha'
      rw [h] at this
      cases this
  by_cases hv : (s0.run as).validActions = []
  · rw [f1 hv, f2 (hnil.mpr hv), hr.turn]
    simp only [Option.map, ires_loser]
  · have n1 : (s0.run as).isTerminal = none := by
      apply Classical.byContradiction
      intro hc
      exact hv (e1.mp hc)
    have n2 : (s0'.run (as.map σ.iact)).isTerminal = none := by
      apply Classical.byContradiction
      intro hc
      exact hv (hnil.mp (e2.mp hc))
    rw [n1, n2]; rfl

/-! ## Non-vacuity

The example position of `Props/C11.lean` (`exModelBoard`: gold rabbit a7, silver rabbit c5 next to
the gold elephant d5, …) as a start state with Gold to move, and its half-turned, colour-swapped
image (`σ = both`) with Silver to move.  Game: the gold elephant pushes the rabbit c5 west (two
steps); in the image game the silver elephant e4 pushes the gold rabbit f4 east.  After the two steps
a pass is possible, so the repetition test is exercised. -/

section Examples

private def exS (b : Board) (g : Bool) : GameState :=
  { p1Turn := g, moveNo := 2, board := b, hash := zPos b g
    phase := .play (PlayPhase.initial (zPos b g) [zPos b g]) }

private theorem exS_start (b : Board) (g : Bool) (hw : WF b) : StartOk (exS b g) := ⟨hw, rfl, rfl⟩

private def exPush : List Action := [.move 26 .left, .move 27 .left]

private def exPP (s : GameState) : PlayPhase :=
  match s.phase with
  | .play pp => pp
  | .place => default

private theorem exS_wf : WF exModelBoard ∧ WF (exModelImage .both) :=
  ⟨(exModel_rel .both).1.wf, (exModel_rel .both).2.1.wf⟩

/-- all hypotheses of `C11_repetition_partial` hold for `σ = both`, the example start states and the
two-step push; the collision-freeness hypotheses are checked by evaluating the hashes -/
example :
    StartOk (exS exModelBoard true) ∧ StartOk (exS (exModelImage .both) false) ∧
    absBoard (exS (exModelImage .both) false).board = Sym.both.board (absBoard (exS exModelBoard true).board) ∧
    (exS (exModelImage .both) false).p1Turn = Sym.both.col (exS exModelBoard true).p1Turn ∧
    OfferedNR (exS exModelBoard true) exPush ∧
    ((exS exModelBoard true).run exPush).phase = .play (exPP ((exS exModelBoard true).run exPush)) ∧
    ((exS (exModelImage .both) false).run (exPush.map Sym.both.iact)).phase =
      .play (exPP ((exS (exModelImage .both) false).run (exPush.map Sym.both.iact))) ∧
    CollisionFreeAt (exS exModelBoard true) exPush (exPP ((exS exModelBoard true).run exPush)) ∧
    CollisionFreeAt (exS (exModelImage .both) false) (exPush.map Sym.both.iact)
      (exPP ((exS (exModelImage .both) false).run (exPush.map Sym.both.iact))) := by
  refine ⟨exS_start _ _ exS_wf.1, exS_start _ _ exS_wf.2, (exModel_rel .both).2.2.board, rfl,
    ⟨by decide +kernel, by decide +kernel, trivial⟩, by decide +kernel, by decide +kernel, ?_, ?_⟩
  · rw [C06_collisionFreeAt_iff]; decide +kernel
  · rw [C06_collisionFreeAt_iff]; decide +kernel

/-- ... and the conclusion is not trivially true or false there: the pass is offered in both games;
the backward step of the gold rabbit a7 (not in the rule-only list) and its image are offered in
neither. -/
example : Action.pass ∈ ((exS exModelBoard true).run exPush).validActions ∧
    Sym.both.iact .pass ∈ ((exS (exModelImage .both) false).run (exPush.map Sym.both.iact)).validActions ∧
    Action.move 8 .down ∉ ((exS exModelBoard true).run exPush).validActions ∧
    Sym.both.iact (.move 8 .down) ∉
      ((exS (exModelImage .both) false).run (exPush.map Sym.both.iact)).validActions := by
  decide +kernel

/-- a game in which the repetition rule bites: the gold elephant steps d5-e5, back, d5-e5 again -/
private def exBackForth : List Action := [.move 27 .right, .move 28 .left, .move 27 .right]

/-- the hypotheses hold for that game too (both `CollisionFreeAt` by evaluation), and there the
theorem speaks about an action that the repetition rules withhold: the fourth step e5-d5 would
restore the turn-start board; it is in the rule-only list but not offered, and the same holds for
its image in the image game. -/
example :
    OfferedNR (exS exModelBoard true) exBackForth ∧
    CollisionFreeAt (exS exModelBoard true) exBackForth (exPP ((exS exModelBoard true).run exBackForth)) ∧
    CollisionFreeAt (exS (exModelImage .both) false) (exBackForth.map Sym.both.iact)
      (exPP ((exS (exModelImage .both) false).run (exBackForth.map Sym.both.iact))) ∧
    Action.move 28 .left ∈ ((exS exModelBoard true).run exBackForth).validActionsNoRep ∧
    Action.move 28 .left ∉ ((exS exModelBoard true).run exBackForth).validActions ∧
    Sym.both.iact (.move 28 .left) ∈
      ((exS (exModelImage .both) false).run (exBackForth.map Sym.both.iact)).validActionsNoRep ∧
    Sym.both.iact (.move 28 .left) ∉
      ((exS (exModelImage .both) false).run (exBackForth.map Sym.both.iact)).validActions := by
  refine ⟨⟨by decide +kernel, by decide +kernel, by decide +kernel, trivial⟩, ?_, ?_, by decide +kernel,
    by decide +kernel, by decide +kernel, by decide +kernel⟩
  · rw [C06_collisionFreeAt_iff]; decide +kernel
  · rw [C06_collisionFreeAt_iff]; decide +kernel

/-- the mid-turn hypothesis `step > 0` of `C11_mid_turn_result_partial` holds there -/
example : (exPP ((exS exModelBoard true).run exPush)).step > 0 := by decide +kernel

end Examples

end Arimaa
