import Arimaa.Props.C18
import Arimaa.Lemmas.ConcCount
import Arimaa.Lemmas.ConcExact
import Arimaa.Lemmas.ConcCountExample

/-!
# C18 (b), second conjunct — the reference-count discipline of the heap model `Impl/Conc.lean`

Under every schedule, no node reachable from a live handle — a shared root handle or a handle a thread
created itself with `clone` / `append` and has not dropped yet — is freed, no read, `clone` or `append` ever
touches a freed node, a node is freed only when its count is 0, and every decrement really decrements.
Together with `C18_interleaving_results` this is the intended `C18_interleaving`.

The proof is the count invariant `Conc.Inv` of `Lemmas/ConcCount.lean` (every live reference — root handle,
handle in a thread's table, `next` link of a non-freed node, reference a thread is in the middle of giving
up — is one of the counted owners of its target; a freed node has count 0; …), which is preserved by every
atomic step of every thread (`Conc.inv_step`) and so by every schedule (`Conc.inv_run`).
Atomicity of each step (in particular of the decrement-and-test) is an assumption of the model.
-/

namespace Arimaa.Props
open Arimaa.Conc

/-- **C18 (b4): the count invariant holds under every schedule.**  From a well-formed initial state
(`WellFormed`: all threads idle; the counts cover the root handles, the handles the threads start with and
the `next` links of the non-freed nodes; freed nodes have count 0; the threads' arenas are unused), after
any schedule: every live reference to a node is one of its counted owners (distinct references carry
distinct tokens, so count ≥ number of live references) and every freed node has count 0. -/
theorem C18_count_invariant (s : State) (hwf : WellFormed s) (sched : List Nat) :
    (∀ id tok, Refs (abs (run s sched)) id tok → tok ∈ ((run s sched).arcs id).owners) ∧
    (∀ id, ((run s sched).arcs id).freed = true → ((run s sched).arcs id).count = 0) := by
  have h := inv_run sched s hwf.inv
  refine ⟨h.counted, fun id hf => ?_⟩
  have := h.freedEmpty id hf
  change ((run s sched).arcs id).owners = [] at this
  show ((run s sched).arcs id).owners.length = 0
  rw [this]; rfl

/-- **C18 (b5): no node reachable from a live handle is ever freed.**  From a well-formed initial state, after
any schedule (so: at every moment of every interleaving), every node reachable by `next` links from the
target of a live handle — a root handle, or a handle in the table of any thread, whether the thread
was given it or made it itself by `clone` or `append` — is not freed and has a positive count. -/
theorem C18_no_live_node_freed (s : State) (hwf : WellFormed s) (sched : List Nat) (h id : NodeId)
    (hh : Held (run s sched) h) (hr : Reach (run s sched).fields h id) :
    ((run s sched).arcs id).freed = false ∧ 0 < ((run s sched).arcs id).count :=
  (inv_run sched s hwf.inv).held_alive hh hr

/-- **C18 (b6): no instruction touches a freed node.**  After any schedule, whatever node a reference of a
thread leads to (the node a `readElem` / `readLen` reads, a `clone` increments, an `append` links to —
and every node passed on the way there, which is what a shorter reference leads to) is allocated, not
freed, and has a positive count. -/
theorem C18_reads_not_freed (s : State) (hwf : WellFormed s) (sched : List Nat) (t : Nat) (th : Thread)
    (ht : (run s sched).threads[t]? = some th) (r : Ref) (j : NodeId)
    (hres : resolve (view t (run s sched).fields) (run s sched).roots th.loc.table r = some j) :
    ((run s sched).arcs j).freed = false ∧ 0 < ((run s sched).arcs j).count ∧
      ((run s sched).fields j).isSome := by
  have := resolve_alive (inv_run sched s hwf.inv) ht hres
  exact ⟨this.2.1, List.length_pos_iff.2 this.1, this.2.2⟩

/-- **C18 (b7): a node is freed only at count 0, when nothing refers to it.**  If a step of thread `u` after
any schedule sets the `freed` flag of `id`, then just before that step the count of `id` was 0 and there
was no live reference to it: no handle, no `next` link of a non-freed node, no reference in the middle of
being dropped.  (Only the thread whose decrement brought the count to 0 gets here: `Arc::into_inner`.) -/
theorem C18_free_only_at_zero (s : State) (hwf : WellFormed s) (sched : List Nat) (u : Nat) (id : NodeId)
    (h0 : ((run s sched).arcs id).freed = false) (h1 : ((step (run s sched) u).arcs id).freed = true) :
    ((run s sched).arcs id).count = 0 ∧ ∀ tok, ¬ Refs (abs (run s sched)) id tok := by
  have h := inv_run sched s hwf.inv
  rcases step_freed h1 with hf | hf
  · rw [h0] at hf; cases hf
  · have ho := (h.freeing u id hf).1
    change ((run s sched).arcs id).owners = [] at ho
    refine ⟨by show ((run s sched).arcs id).owners.length = 0; rw [ho]; rfl, fun tok r => ?_⟩
    have := h.counted id tok r
    change tok ∈ ((run s sched).arcs id).owners at this
    rw [ho] at this; cases this

/-- **C18 (b8): every decrement is a decrement.**  The model keeps the count as the length of a ghost list of
owners and a decrement erases the token of the reference given up; after any schedule that token is in
the list, so the step lowers the count by exactly 1 (the ghost list never makes a decrement a no-op). -/
theorem C18_dec_decrements (s : State) (hwf : WellFormed s) (sched : List Nat) (u : Nat) (th : Thread)
    (id : NodeId) (tok : Owner) (hu : (run s sched).threads[u]? = some th) (hr : th.rel = .dec id tok) :
    ((step (run s sched) u).arcs id).count + 1 = ((run s sched).arcs id).count := by
  have h := inv_run sched s hwf.inv
  have hm : tok ∈ ((run s sched).arcs id).owners :=
    h.counted id tok (.pending (t := u) (by show relOf _ u = _; rw [relOf_of hu, hr]))
  rw [step_dec hu hr]
  show (upd (run s sched).arcs id _ id).owners.length + 1 = ((run s sched).arcs id).owners.length
  rw [upd_self]
  show (((run s sched).arcs id).owners.erase tok).length + 1 = _
  rw [List.length_erase_of_mem hm]
  have := List.length_pos_of_mem hm
  omega

/-- **C18 (b): `C18_interleaving`, full statement.**  For every well-formed initial state of the heap model
(any heap, any number of threads, any programs), every thread `t` and every schedule:
(1) whenever `t` has executed as many instructions as in a run of `k` steps alone from the same initial
state, its local state — the sequence of values it has read (`trace`), its remaining program, its
handles — is the same as in that sequential run; and
(2) no node reachable from a live handle (root handle, or handle of any thread) is freed: it is not freed,
and its count is positive. -/
theorem C18_interleaving (s : State) (hwf : WellFormed s) (t : Nat) (th0 : Thread) (h0 : s.threads[t]? = some th0)
    (sched : List Nat) (k : Nat) :
    (∃ a b, (run s sched).threads[t]? = some a ∧ (run s (List.replicate k t)).threads[t]? = some b ∧
      (a.loc.pc = b.loc.pc → a.loc = b.loc)) ∧
    (∀ h id, Held (run s sched) h → Reach (run s sched).fields h id →
      ((run s sched).arcs id).freed = false ∧ 0 < ((run s sched).arcs id).count) :=
  ⟨C18_interleaving_results s t th0 h0 sched k, fun h id hh hr => C18_no_live_node_freed s hwf sched h id hh hr⟩

/-- **C18 (b9): count = number of live references.**  From an initial state whose owner lists are exact
(`WellFormedX`: `WellFormed`, and the owner lists are duplicate-free and contain only root handles, thread
handles and `next` links of non-freed nodes; handle keys distinct and below the key counter), after any
schedule, for every node: its ghost owner list has no duplicates and its members are exactly the tokens of
the live references to the node — root handle `i` ↦ `root i`, handle `k` of thread `t` ↦ `handle t k` (one
target per key), `next` of the non-freed node `p` ↦ `node p`, and the reference a thread is in the middle of
giving up.  Hence the count is the number of live references (`rs` = any duplicate-free enumeration of
them), and it is 0 exactly when there is none: nothing is leaked either. -/
theorem C18_count_exact (s : State) (hwf : WellFormedX s) (sched : List Nat) (id : NodeId) :
    ((run s sched).arcs id).owners.Nodup ∧
    (∀ tok, tok ∈ ((run s sched).arcs id).owners ↔ Refs (abs (run s sched)) id tok) ∧
    (∀ rs : List Owner, rs.Nodup → (∀ tok, tok ∈ rs ↔ Refs (abs (run s sched)) id tok) →
      ((run s sched).arcs id).count = rs.length) ∧
    (((run s sched).arcs id).count = 0 ↔ ∀ tok, ¬ Refs (abs (run s sched)) id tok) := by
  have h := invX_run sched s hwf.invX
  have hiff : ∀ tok, tok ∈ ((run s sched).arcs id).owners ↔ Refs (abs (run s sched)) id tok :=
    fun tok => ⟨h.exact.exact id tok, h.inv.counted id tok⟩
  have hnd : ((run s sched).arcs id).owners.Nodup := h.exact.nodup id
  refine ⟨hnd, hiff, ?_, ?_⟩
  · intro rs hrs hmem
    have : ((run s sched).arcs id).owners.Perm rs :=
      (List.perm_ext_iff_of_nodup hnd hrs).2 (fun tok => (hiff tok).trans (hmem tok).symm)
    exact this.length_eq
  · show ((run s sched).arcs id).owners.length = 0 ↔ _
    constructor
    · intro h0 tok r
      have := (hiff tok).2 r
      rw [List.eq_nil_of_length_eq_zero h0] at this; cases this
    · intro hno
      cases ho : ((run s sched).arcs id).owners with
      | nil => rfl
      | cons tok rest => exact absurd ((hiff tok).1 (by rw [ho]; exact List.mem_cons_self)) (hno tok)

/-! ### Non-vacuity -/

namespace C18bExample
open Arimaa.Conc.Example

/-- the example's initial state is well-formed -/
example : WellFormed init := init_wellFormed

/-- … and has exact counts -/
example : WellFormedX init := init_wellFormedX

/-- `C18_count_exact` at work: after both threads appended, the shared head `n2` has count 3 and its three
live references are the root handle and the `next` links of the two private nodes -/
example :
    ((run init [0, 0, 1, 1]).arcs n2).count = 3 ∧
    ∀ tok, tok ∈ [Owner.node ⟨2, 0⟩, .node ⟨1, 0⟩, .root 0] ↔ Refs (abs (run init [0, 0, 1, 1])) n2 tok := by
  have e : ((run init [0, 0, 1, 1]).arcs n2).owners = [Owner.node ⟨2, 0⟩, .node ⟨1, 0⟩, .root 0] := by
    decide +kernel
  refine ⟨by decide +kernel, fun tok => ?_⟩
  rw [← e]
  exact (C18_count_exact init init_wellFormedX [0, 0, 1, 1] n2).2.1 tok

/-- after `[0, 0, 1, 1]` thread 0 holds a handle it made itself (`append`), to its private node `⟨1, 0⟩`, from
which the whole shared history is reachable … -/
example : Held (run init [0, 0, 1, 1]) ⟨1, 0⟩ ∧ Reach (run init [0, 0, 1, 1]).fields ⟨1, 0⟩ n0 := by
  refine ⟨held_of_tableOf (t := 0) (k := 0) (by decide +kernel), ?_⟩
  have e1 : (run init [0, 0, 1, 1]).fields ⟨1, 0⟩ = some ⟨100, some n2, 4⟩ := by decide +kernel
  have e2 : (run init [0, 0, 1, 1]).fields n2 = some ⟨9, some n1, 3⟩ := by decide +kernel
  have e3 : (run init [0, 0, 1, 1]).fields n1 = some ⟨8, some n0, 2⟩ := by decide +kernel
  exact .step (.step (.step (.refl _) e1 rfl) e2 rfl) e3 rfl

/-- … so `C18_no_live_node_freed` applies to a thread-private handle -/
example : ((run init [0, 0, 1, 1]).arcs n0).freed = false ∧ 0 < ((run init [0, 0, 1, 1]).arcs n0).count := by
  refine C18_no_live_node_freed init init_wellFormed [0, 0, 1, 1] ⟨1, 0⟩ n0
    (held_of_tableOf (t := 0) (k := 0) (by decide +kernel)) ?_
  have e1 : (run init [0, 0, 1, 1]).fields ⟨1, 0⟩ = some ⟨100, some n2, 4⟩ := by decide +kernel
  have e2 : (run init [0, 0, 1, 1]).fields n2 = some ⟨9, some n1, 3⟩ := by decide +kernel
  have e3 : (run init [0, 0, 1, 1]).fields n1 = some ⟨8, some n0, 2⟩ := by decide +kernel
  exact .step (.step (.step (.refl _) e1 rfl) e2 rfl) e3 rfl

/-- `C18_interleaving` instantiated: thread 0 of the example under `schedA`, compared with 16 steps alone -/
example := C18_interleaving init init_wellFormed 0 _ rfl schedA 16

/-- frees do happen in the model (after the handles are dropped), and exactly at count 0: the hypotheses of
`C18_free_only_at_zero` are met by a step of `schedA` (its 27th step frees thread 0's private node), and
those of `C18_dec_decrements` by its 25th -/
example :
    ((run init (schedA.take 26)).arcs ⟨1, 0⟩).freed = false ∧
    ((step (run init (schedA.take 26)) 0).arcs ⟨1, 0⟩).freed = true ∧
    ((run init (schedA.take 26)).arcs ⟨1, 0⟩).count = 0 ∧
    relOf (run init (schedA.take 24)).threads 0 = .dec ⟨1, 0⟩ (.handle 0 1) ∧
    ((run init (schedA.take 24)).arcs ⟨1, 0⟩).count = 1 ∧
    ((step (run init (schedA.take 24)) 0).arcs ⟨1, 0⟩).count = 0 := by
  decide +kernel

/-- without the count discipline the conclusion fails: if the shared head starts with count 0 (not
well-formed: the root handle is not counted), a `clone` followed by a `drop` by one thread frees the
head under the root handle -/
example :
    let bad : State := { init with
      arcs := fun id => if id = n2 then {} else arcs0 id,
      threads := [{ loc := { prog := .clone ⟨.root 0, 0⟩ fun _ => .drop 0 .done } }] }
    Held (run bad [0, 0, 0, 0]) n2 ∧ ((run bad [0, 0, 0, 0]).arcs n2).freed = true := by
  refine ⟨.inl ⟨0, by decide +kernel⟩, by decide +kernel⟩

end C18bExample

end Arimaa.Props
