import Arimaa.Props.C12
import Arimaa.Lemmas.RsAgreeGen
import Arimaa.Lemmas.RsAgreeStep
import Arimaa.Gen.Bridge.GameState_must_complete_push_actions
import Arimaa.Gen.Bridge.GameState_next_push_pull_state
import Arimaa.Gen.Bridge.GameState_take_action
import Arimaa.Gen.Bridge.GameState_valid_actions_no_rep

/-!
# C12 — the property at the level of the REGENERATED code

`Gen/Rs.lean` is written by `tools/rs2lean2.py` from the current text of engine.rs / zobrist.rs on every
run.  `Gen/Bridge/<fn>.lean` (generated) proves `@Rs.fn = @RsBase.fn` — the current text against the
baseline text — and `Lemmas/RsAgree*.lean` prove that each baseline function equals
`Res.guard (hand panic guard) (hand total function)`.  This file puts both, for the functions C12 rests
on, into the property's proof closure and restates them as one named obligation (`C12_code_agrees`) about
the CURRENT functions, plus corollaries that speak about them directly.  A change of the Rust text of one
of these functions that alters behaviour breaks an obligation here without any test having to find the input.
(written by tools/mkrprops.py)
-/
namespace Arimaa
open Gen GameState Arimaa.Gen.Rs Arimaa.Rt Arimaa.Gen.Bridge Spec

theorem C12_value_of_ok {α : Type} {x : Res α} {p : Bool} {v w : α} (h : x = Res.guard p v) (hx : x = .ok w) :
    p = false ∧ w = v := by
  rw [h] at hx
  obtain ⟨hp, hv⟩ := Res.guard_eq_ok.mp hx
  exact ⟨hp, hv.symm⟩

/-- the agreement theorems C12 rests on, about the CURRENT functions, as one obligation -/
theorem C12_code_agrees :
    (∀ s : GameState, GameState_valid_actions_no_rep s = Res.guard s.validActionsNoRepPanics s.validActionsNoRep) ∧
    (∀ (s : GameState) (pp : PlayPhase), s.phase = .play pp → ∀ (sq : Nat) (d : Dir), GameState_next_push_pull_state s sq d = Res.guard (s.nextPushPullStatePanics pp sq) (s.nextPushPullState pp sq d)) ∧
    (∀ (s : GameState) (pp : PlayPhase), s.phase = .play pp → ∀ b : Board, GameState_must_complete_push_actions s b = Res.guard (mustCompletePushActionsPanics pp) (s.mustCompletePushActions pp b)) ∧
    (∀ (s : GameState) (a : Action), GameState_take_action s a = Res.guard (s.takeActionPanics a) (s.takeAction a)) :=
  ⟨(by simp only [bridge_GameState_valid_actions_no_rep]; exact RsAgree.valid_actions_no_rep_direct),
   (by simp only [bridge_GameState_next_push_pull_state]; exact RsAgree.next_push_pull_state),
   (by simp only [bridge_GameState_must_complete_push_actions]; exact RsAgree.must_complete_push_actions_eq),
   (by simp only [bridge_GameState_take_action]; exact RsAgree.take_action_eq)⟩


theorem C12_code_rule_only (s : GameState) (l : List Action) (hl : GameState_valid_actions_no_rep s = .ok l) :
    l = s.validActionsNoRep := by
  simp only [bridge_GameState_valid_actions_no_rep] at hl
  exact (C12_value_of_ok (RsAgree.valid_actions_no_rep_direct s) hl).2

/-- **C12 for the code as it is now**: after a step from the rule-only list of the regenerated code, applied by
the regenerated `take_action` before the last step of the turn, the reported status is the one the rules
prescribe (`Spec.nextPending`) -/
theorem C12_code_status_after_step (s s' : GameState) (pp : PlayPhase) (h : PlayInv s pp) (l : List Action)
    (hl : GameState_valid_actions_no_rep s = .ok l) (i : Nat) (d : Dir) (ha : Action.move i d ∈ l)
    (hlt : pp.step < 3) (ht : GameState_take_action s (.move i d) = .ok s') :
    ∃ pp', s'.phase = .play pp' ∧
      absPend pp'.pps = nextPending (absBoard s.board) s.p1Turn (absPend pp.pps) i (dirSpec d) := by
  have h1 := C12_code_rule_only s l hl
  simp only [bridge_GameState_take_action] at ht
  have h2 := (C12_value_of_ok (RsAgree.take_action_eq s _) ht).2
  subst h1 h2
  exact C12_status_after_step s pp h i d ha hlt

end Arimaa
