import Arimaa.Props.C16
import Arimaa.Lemmas.RsAgreeNotation

/-!
# C16 — the conversion clauses at the level of the REGENERATED code

`square.rs`, `bit_manip.rs` and `action.rs::map_bit_board_to_squares` are translated by `tools/rs2lean2.py` into
`Gen/RsSq.lean` on every run (the `while` loop as a fuel-bounded loop); `Lemmas/RsAgreeSquare*.lean` prove each
translated function equal to the hand model, for every argument.  The four `FromStr` parsers (piece.rs,
direction.rs, square.rs, action.rs) are translated as well (a `&str` is the list of its chars, `Result<T, _>` is
`Option T`) and proved equal to the hand-written parsers for EVERY string (`Lemmas/RsAgreeNotation.lean`).  The
`Display` printers are translated as well (`write!` / `format!` append the formatted pieces to the text written so
far) and proved equal to `showAction` / `showSquare` / `showPiece` / `showDir`.
-/
namespace Arimaa
open Gen Arimaa.Gen.RsSq Arimaa.Rt

theorem C16_code_agrees :
    (∀ sq, Square_as_bit_board sq = Rt.asBitBoard sq) ∧
    (∀ x : BB, Square_from_bit_board x = sqOfBit x) ∧
    (∀ sq, Square_index sq = sq) ∧ (∀ i, Square_from_index i = i) ∧
    (∀ x : BB, first_set_bit x = Rt.firstSetBit x) ∧
    (∀ x : BB, map_bit_board_to_squares x = .ok (squaresOf x)) ∧
    (∀ sq, Square_row sq = Res.guard (sqRowPanics sq) (sqRow sq)) ∧
    (∀ sq, Square_column_char sq = .ok (sqColumnChar sq)) ∧
    (∀ (c : Char) (row : Nat), c.toNat < 256 → Square_new c row = Res.guard (sqNewPanics c row) (sqNew c row)) :=
  ⟨RsAgree.square_as_bit_board, RsAgree.square_from_bit_board, RsAgree.square_index, RsAgree.square_from_index,
   RsAgree.first_set_bit, RsAgree.map_bit_board_to_squares_eq, RsAgree.square_row, RsAgree.square_column_char,
   RsAgree.square_new_ascii⟩

/-- **C16 (set bits) for the code as it is now**: the regenerated `map_bit_board_to_squares` never panics and lists
exactly the set bits of the word, in ascending order, without duplicates -/
theorem C16_code_squares_of_bitboard (x : BB) :
    ∃ l, map_bit_board_to_squares x = .ok l ∧
      (∀ i, i ∈ l ↔ i < 64 ∧ bit x i = true) ∧ l.Pairwise (· < ·) ∧ l.Nodup :=
  ⟨squaresOf x, RsAgree.map_bit_board_to_squares_eq x, C16_squares_of_bitboard x⟩

/-- **C16 (square conversions) for the code as it is now**: for every square of the board, `as_bit_board` returns a
single-bit word from which `from_bit_board` recovers the square, `column_char` / `row` return the coordinates, and
`new` on those coordinates returns the square again; none of them panics -/
theorem C16_code_square_conversions (sq : Nat) (h : sq < 64) :
    Square_as_bit_board sq = .ok (sqBit sq) ∧ Square_from_bit_board (sqBit sq) = sq ∧
    Square_column_char sq = .ok (sqColumnChar sq) ∧ Square_row sq = .ok (sqRow sq) ∧
    Square_new (sqColumnChar sq) (sqRow sq) = .ok sq := by
  obtain ⟨h1, h2, _⟩ := C16_square_conversions sq h
  have hrow : sqRowPanics sq = false := by simp [sqRowPanics, BOARD_WIDTH, BOARD_HEIGHT]; omega
  have hcol : (sqColumnChar sq).toNat < 256 := by
    have : ∀ s : Fin 64, (sqColumnChar s.1).toNat < 256 := by decide
    exact this ⟨sq, h⟩
  refine ⟨?_, ?_, RsAgree.square_column_char sq, ?_, ?_⟩
  · rw [RsAgree.square_as_bit_board]
    unfold Rt.asBitBoard
    have : ¬ sq ≥ 64 := by omega
    simp [this]
  · rw [RsAgree.square_from_bit_board, h1]
  · rw [RsAgree.square_row, hrow]; rfl
  · rw [RsAgree.square_new_ascii _ _ hcol, h2]
    have : sqNewPanics (sqColumnChar sq) (sqRow sq) = false := by
      have h64 : ∀ s : Fin 64, sqNewPanics (sqColumnChar s.1) (sqRow s.1) = false := by decide
      exact h64 ⟨sq, h⟩
    rw [this]; rfl

/-- the four regenerated parsers agree with the hand-written ones on every string -/
theorem C16_code_parsers_agree (t : List Char) :
    Action_from_str t = RsAgree.ofOutcome (parseAction t) ∧ Square_from_str t = RsAgree.ofOutcome (parseSquare t) ∧
    Piece_from_str t = (match parsePiece t with | .ok p => some p | _ => none) ∧
    Direction_from_str t = (match parseDir t with | .ok d => some d | _ => none) :=
  ⟨RsAgree.action_from_str t, RsAgree.square_from_str t, RsAgree.piece_from_str t, RsAgree.direction_from_str t⟩

/-- **C16 (no panic) for the code as it is now**: the regenerated `Action::from_str` and `Square::from_str` return
(`Ok` or `Err`) on EVERY string — in particular on strings with multi-byte characters, characters whose low byte is
a file letter, digits beyond 8, and strings of any length -/
theorem C16_code_no_panic (t : List Char) : Action_from_str t ≠ .panic ∧ Square_from_str t ≠ .panic := by
  obtain ⟨h1, h2, _, _⟩ := C16_no_panic t
  rw [RsAgree.action_from_str, RsAgree.square_from_str]
  constructor
  · cases h : parseAction t <;> simp_all [RsAgree.ofOutcome]
  · cases h : parseSquare t <;> simp_all [RsAgree.ofOutcome]

/-- **C16 (round trip) for the code as it is now**: the regenerated parser returns `Ok(a)` on the printed form of
every action whose square is on the board -/
theorem C16_code_action_roundtrip (a : Action) (h : ∀ sq d, a = .move sq d → sq < 64) :
    Action_from_str (showAction a) = .ok (some a) := by
  rw [RsAgree.action_from_str, C16_action_roundtrip a h]; rfl

/-- **C16 (only printed forms) for the code as it is now**: whenever the regenerated `Action::from_str` returns
`Ok(a)`, the string is the printed form of `a` (or the upper-case letter of a placement); whenever the regenerated
`Square::from_str` returns `Ok(sq)`, `sq` is one of the 64 squares and the string is its printed form -/
theorem C16_code_only_printed_forms (t : List Char) :
    (∀ a, Action_from_str t = .ok (some a) →
      t = showAction a ∨ ∃ p, a = .place p ∧ t = [(pieceLetter p).toUpper]) ∧
    (∀ sq, Square_from_str t = .ok (some sq) → sq < 64 ∧ t = showSquare sq) := by
  constructor
  · intro a h
    rw [RsAgree.action_from_str] at h
    cases hp : parseAction t with
    | ok a' =>
      rw [hp] at h
      simp only [RsAgree.ofOutcome, Res.ok.injEq, Option.some.injEq] at h
      subst h
      exact C16_only_printed_forms t a' hp
    | err => rw [hp] at h; simp [RsAgree.ofOutcome] at h
    | panic => rw [hp] at h; simp [RsAgree.ofOutcome] at h
  · intro sq h
    rw [RsAgree.square_from_str] at h
    cases hp : parseSquare t with
    | ok sq' =>
      rw [hp] at h
      simp only [RsAgree.ofOutcome, Res.ok.injEq, Option.some.injEq] at h
      subst h
      exact C16_only_printed_forms_square t sq' hp
    | err => rw [hp] at h; simp [RsAgree.ofOutcome] at h
    | panic => rw [hp] at h; simp [RsAgree.ofOutcome] at h

/-- the regenerated printers agree with the hand-written ones -/
theorem C16_code_printers_agree :
    (∀ (a : Action) (f : List Char), Action_fmt a f = Res.guard (showActionPanics a) (f ++ showAction a)) ∧
    (∀ (sq : Nat) (f : List Char), Square_fmt sq f = Res.guard (showSquarePanics sq) (f ++ showSquare sq)) ∧
    (∀ (p : Piece) (f : List Char), Piece_fmt p f = f ++ showPiece p) ∧
    (∀ (d : Dir) (f : List Char), Direction_fmt d f = f ++ showDir d) :=
  ⟨RsAgree.action_fmt, RsAgree.square_fmt, RsAgree.piece_fmt, RsAgree.direction_fmt⟩

/-- **C16 (round trip), printer AND parser as they are now**: for every action whose square is on the board the
regenerated `Display` returns a text (does not panic), and the regenerated `from_str` returns `Ok` of that very
action on it -/
theorem C16_code_print_parse_roundtrip (a : Action) (h : ∀ sq d, a = .move sq d → sq < 64) :
    ∃ text, Action_fmt a [] = .ok text ∧ Action_from_str text = .ok (some a) := by
  refine ⟨showAction a, ?_, C16_code_action_roundtrip a h⟩
  rw [RsAgree.action_fmt]
  have hp : showActionPanics a = false := by
    cases a with
    | pass => rfl
    | place p => rfl
    | move sq d =>
      have hsq := h sq d rfl
      simp only [showActionPanics, showSquarePanics, sqRowPanics, BOARD_WIDTH, BOARD_HEIGHT]
      simp; omega
  rw [hp]; simp [Res.guard]

end Arimaa
