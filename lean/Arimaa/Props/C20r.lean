import Arimaa.Lemmas.RsAgreeList

/-!
# C20 (and the history clauses of C05 / C06) — `linked_list.rs` itself, at value level

`Props/C20.lean` proves the stack bounds on a heap model whose `Drop` variant is selected from the source.  This
file ties the VALUES: the functions of `linked_list.rs`, regenerated on every run (`Gen/RsList.lean`), refine Lean
lists on every list the API can build — so "one `append` per turn start since the last capture" (`C05_history_step`)
speaks about the real container: `len()` is the number of entries `iter()` yields, `append` adds exactly one in front
and shares the rest, and nothing else in the file changes a list.
-/

namespace Arimaa.Props
open Arimaa Arimaa.Rt Arimaa.Gen.RsList Arimaa.RsAgree.ListAgree

/-- **C20, code level (values).**  Every list built through the API of `linked_list.rs` behaves as the Lean list of
its elements (newest first): length, head, tail, emptiness, clone, iteration; `append` (below `usize::MAX`
elements) puts one element in front and yields a list that is again of this kind. -/
theorem C20_code_list_refines {T : Type} {l : Link T} (h : Built l) :
    List_len l = (toList l).length ∧ List_head l = (toList l).head? ∧ toList (List_tail l) = (toList l).tail ∧
    List_is_empty l = (toList l).isEmpty ∧ toList (List_clone l) = toList l ∧
    (∀ fuel, (toList l).length ≤ fuel → drain fuel (List_iter l) = toList l) ∧
    (∀ x, (toList l).length + 1 ≤ usizeMax → ∃ l', List_append l x = .ok l' ∧ toList l' = x :: toList l ∧ Built l') :=
  list_api_refines h

/-- one `append` grows the list by exactly one node: the cached length of the new head is the old length + 1 -/
theorem C20_code_append_grows_by_one {T : Type} {l l' : Link T} {x : T} (h : Built l) (ha : List_append l x = .ok l') :
    List_len l' = List_len l + 1 := by
  have hw := built_wf h
  have h' : Built l' := Built.append h ha
  by_cases hb : (toList l).length + 1 ≤ usizeMax
  · obtain ⟨l'', h1, h2, _⟩ := append_spec l x hw hb
    rw [h1] at ha; cases ha
    rw [built_len h', built_len h, h2]; simp
  · rw [append_overflow l x hw (by omega)] at ha; cases ha

/-- the only panic in the file: `append` on a list of `usize::MAX` elements -/
theorem C20_code_append_panics_only_at_bound {T : Type} {l : Link T} (x : T) (h : Built l) :
    List_append l x = .panic ↔ usizeMax < (toList l).length + 1 := by
  have hw := built_wf h
  constructor
  · intro hp
    by_cases hb : (toList l).length + 1 ≤ usizeMax
    · obtain ⟨l', h1, _, _⟩ := append_spec l x hw hb
      rw [h1] at hp; cases hp
    · omega
  · exact fun hb => append_overflow l x hw hb

example : ∃ l : Link Nat, Built l ∧ List_len l = 2 := by
  obtain ⟨l1, h1, t1, w1⟩ := append_spec (List_new : Link Nat) 1 new_spec.2 (by simp [new_spec.1, usizeMax])
  obtain ⟨l2, h2, t2, _⟩ := append_spec l1 2 w1 (by simp [t1, new_spec.1, usizeMax])
  have hb : Built l2 := Built.append (Built.append Built.new h1) h2
  exact ⟨l2, hb, by rw [built_len hb, t2, t1, new_spec.1]; rfl⟩

end Arimaa.Props
