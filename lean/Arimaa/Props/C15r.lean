import Arimaa.Props.C15
import Arimaa.Lemmas.RsAgreeTHash
import Arimaa.Lemmas.RsAgreeHash
import Arimaa.Lemmas.RsAgreeShow
import Arimaa.Lemmas.RsAgreeParse
import Arimaa.Gen.Bridge.GameState_fmt
import Arimaa.Gen.Bridge.GameState_from_str
import Arimaa.Gen.Bridge.GameState_transposition_hash
import Arimaa.Gen.Bridge.Zobrist_from_piece_board

/-!
# C15 — the property at the level of the REGENERATED code

`Gen/Rs.lean` is written by `tools/rs2lean2.py` from the current text of engine.rs / zobrist.rs on every
run.  `Gen/Bridge/<fn>.lean` (generated) proves `@Rs.fn = @RsBase.fn` — the current text against the
baseline text — and `Lemmas/RsAgree*.lean` prove that each baseline function equals
`Res.guard (hand panic guard) (hand total function)`.  This file puts both, for the functions C15 rests
on, into the property's proof closure and restates them as one named obligation (`C15_code_agrees`) about
the CURRENT functions, plus corollaries that speak about them directly.  A change of the Rust text of one
of these functions that alters behaviour breaks an obligation here without any test having to find the input.
(written by tools/mkrprops.py)
-/
namespace Arimaa
open Gen GameState Arimaa.Gen.Rs Arimaa.Rt Arimaa.Gen.Bridge

theorem C15_value_of_ok {α : Type} {x : Res α} {p : Bool} {v w : α} (h : x = Res.guard p v) (hx : x = .ok w) :
    p = false ∧ w = v := by
  rw [h] at hx
  obtain ⟨hp, hv⟩ := Res.guard_eq_ok.mp hx
  exact ⟨hp, hv.symm⟩

/-- the agreement theorems C15 rests on, about the CURRENT functions, as one obligation -/
theorem C15_code_agrees :
    (∀ s : GameState, GameState_transposition_hash s = Res.guard s.transpositionHashPanics s.transpositionHash) ∧
    (∀ (b : Board) (p1 : Bool) (step : Nat), Zobrist_from_piece_board b p1 step = Res.guard (zFromPieceBoardPanics b step) (zFromPieceBoard b p1 step)) ∧
    (∀ (s : GameState) (f : List Char), GameState_fmt s f = .ok (f ++ showState s)) :=
  ⟨(by simp only [bridge_GameState_transposition_hash]; exact RsAgree.transposition_hash_eq),
   (by simp only [bridge_Zobrist_from_piece_board]; exact RsAgree.from_piece_board_eq),
   (by simp only [bridge_GameState_fmt]; exact RsAgree.game_state_fmt)⟩


/-- the regenerated diagram parser (`FromStr for GameState`: `split('|')`, the header through `matchHeader`, the two
nested loops with their early `Err`, `parse()?`) agrees with the hand-written `parseState` on every text shorter than
2^60 characters (the cell index is a `usize` in the code) -/
theorem C15_code_parser_agrees (t : List Char) (hlen : t.length < 2 ^ 60) :
    GameState_from_str t = RsAgree.ofOutcome (parseState t) := by
  simp only [bridge_GameState_from_str]
  exact RsAgree.game_state_from_str t hlen

/-- **C15 (no crash) for the code as it is now**: the regenerated parser returns `Ok` or `Err` on EVERY text -
oversized or non-ASCII move numbers, any number of rows and cells, stray bars, non-ASCII cells -/
theorem C15_code_no_panic (t : List Char) (hlen : t.length < 2 ^ 60) : GameState_from_str t ≠ .panic := by
  rw [C15_code_parser_agrees t hlen]
  have h := (C15_no_panic t).1
  cases hp : parseState t <;> simp_all [RsAgree.ofOutcome]

/-- **C15 (round trip) for the code as it is now**: parsing, with the regenerated parser, the diagram the
regenerated `Display` prints for a state with a well-formed board returns `Ok` of a state with the same board, side
and move number, which prints identically -/
theorem C15_code_roundtrip (s : GameState) (hw : WF s.board) (hn : s.moveNo ≤ usizeMax) (text : List Char)
    (hshow : GameState_fmt s [] = .ok text) (hlen : text.length < 2 ^ 60) :
    ∃ s', GameState_from_str text = .ok (some s') ∧ s'.board = s.board ∧ s'.p1Turn = s.p1Turn ∧
      s'.moveNo = s.moveNo ∧ GameState_fmt s' [] = .ok text := by
  simp only [bridge_GameState_fmt, RsAgree.game_state_fmt, List.nil_append, Res.ok.injEq] at hshow
  subst hshow
  obtain ⟨s', hp, hb, ht, hm, hs⟩ := C15_roundtrip s hw hn
  refine ⟨s', ?_, hb, ht, hm, ?_⟩
  · rw [C15_code_parser_agrees _ hlen, hp]; rfl
  · simp only [bridge_GameState_fmt, RsAgree.game_state_fmt, List.nil_append, hs]

/-- **C15 (printing side) for the code as it is now**: the regenerated `Display for GameState` never panics and
appends exactly the diagram `showState s` the round-trip theorems are about (the diagram PARSER, `FromStr for
GameState` with its regular expression, is not translated: it stays hand-modelled and tied by the text campaigns) -/
theorem C15_code_show (s : GameState) : GameState_fmt s [] = .ok (showState s) := by
  simp only [bridge_GameState_fmt, RsAgree.game_state_fmt, List.nil_append]

end Arimaa
