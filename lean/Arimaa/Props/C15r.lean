import Arimaa.Props.C15
import Arimaa.Lemmas.RsAgreeTHash
import Arimaa.Lemmas.RsAgreeHash

/-!
# C15 — the property at the level of the REGENERATED code

`Gen/Rs.lean` is written by `tools/rs2lean2.py` from the current text of engine.rs / zobrist.rs on every
run; `Lemmas/RsAgree*.lean` prove that each regenerated function equals
`Res.guard (hand panic guard) (hand total function)`.  This file puts the agreement theorems of the
functions C15 rests on into the property's proof closure and restates them as one named obligation
(`C15_code_agrees`), plus corollaries that speak about the regenerated functions directly.  A change of
the Rust text of one of these functions breaks an obligation here without any test having to find the input.
-/
namespace Arimaa
open Gen GameState Arimaa.Gen.Rs Arimaa.Rt

theorem C15_value_of_ok {α : Type} {x : Res α} {p : Bool} {v w : α} (h : x = Res.guard p v) (hx : x = .ok w) :
    p = false ∧ w = v := by
  rw [h] at hx
  obtain ⟨hp, hv⟩ := Res.guard_eq_ok.mp hx
  exact ⟨hp, hv.symm⟩

/-- the agreement theorems C15 rests on, as one obligation -/
theorem C15_code_agrees :
    (∀ s : GameState, GameState_transposition_hash s = Res.guard s.transpositionHashPanics s.transpositionHash) ∧
    (∀ (b : Board) (p1 : Bool) (step : Nat), Zobrist_from_piece_board b p1 step = Res.guard (zFromPieceBoardPanics b step) (zFromPieceBoard b p1 step)) :=
  ⟨RsAgree.transposition_hash_eq, RsAgree.from_piece_board_eq⟩


end Arimaa
