import Arimaa.Impl.AutoTraits
import Arimaa.Lemmas.Conc
import Arimaa.Lemmas.ConcExample

/-!
# C18 — game states can be shared between threads and expanded concurrently

Part (a): auto-trait derivation on the generated type inventory, and absence of mutation through
shared references.  Part (b) (interleavings on the heap model) is in the second half of this file.
-/

namespace Arimaa.Props
open Arimaa Arimaa.AutoTraits

/-- the thirteen types the property names (states, boards, actions, hashes, history lists) -/
def c18Types : List TyExpr :=
  [.app "GameState" [], .app "PieceBoardState" [], .app "PieceBoard" [], .app "PlayPhase" [],
   .app "Phase" [], .app "PushPullState" [], .app "Action" [], .app "Square" [], .app "Piece" [],
   .app "Direction" [], .app "Zobrist" [], .app "List" [.app "Zobrist" []], .app "Terminal" []]

/-- **C18 (a1).** Each of `GameState`, `PieceBoardState`, `PieceBoard`, `PlayPhase`, `Phase`,
`PushPullState`, `Action`, `Square`, `Piece`, `Direction`, `Zobrist`, `List<Zobrist>`, `Terminal` is
`Send` and `Sync` by Rust's structural auto-trait rules, evaluated on the type inventory generated
from the crate's sources.  (Replacing `Arc` by `Rc` in `linked_list.rs` changes `Gen.typeDecls` and
this evaluation then yields `false`, see the `example`s below.) -/
theorem C18_send_sync : ∀ t ∈ c18Types, isSend t = true ∧ isSync t = true := by
  decide +kernel

/-- **C18 (a2).** Nothing can be modified through a shared reference: the crate has no `pub` method
taking `&mut self` (at the time of writing the only `&mut self` methods are the trait methods `Drop::drop`
of the list and `Iterator::next` of the borrowed list iterator `Iter`, which advances the iterator's own
cursor; private helpers taking `&mut self` need exclusive access and are admitted), no
occurrence of unchecked-code blocks or impls, `static mut`, statics, `Cell`/`RefCell`/`UnsafeCell`, `Rc`, raw pointers,
atomics, locks, thread-locals or manual `Send`/`Sync` impls anywhere in the sources
(`Gen.hazards = []`), and no field of any type mentions such a constructor.  One kind of item is
listed separately (`Gen.benignStatics`) instead of being counted: a write-once `static` holding a
compiled regular expression (`OnceLock<Regex>` / `LazyLock<Regex>` initialised by `Regex::new` of a
pattern only) — a constant of the process that every thread sees with the same value, not state of a
game; on the current tree that list is empty as well. -/
theorem C18_immutable :
    (∀ m ∈ Gen.mutSelfMethods, m.2.2 = false) ∧
    Gen.hazards = [] ∧
    noSharedMutFields Gen.typeDecls = true := by
  decide +kernel

/-! ### Non-vacuity / sensitivity of the evaluator -/

/-- the thirteen types are all found in the inventory (none is "Send because unknown") -/
example : ∀ t ∈ c18Types,
    (match t with | .app n _ => (findDecl Gen.typeDecls n).isSome | _ => false) = true := by
  decide +kernel

/-- the `Arc → Rc` mutant of the inventory: the history list, and every type containing it, loses
both traits, while the plain-data types keep them -/
example :
    let m := renameCtor "Arc" "Rc" Gen.typeDecls
    holds m defaultFuel .send [] (.app "List" [.app "Zobrist" []]) = false ∧
    holds m defaultFuel .sync [] (.app "List" [.app "Zobrist" []]) = false ∧
    holds m defaultFuel .send [] (.app "GameState" []) = false ∧
    holds m defaultFuel .sync [] (.app "PlayPhase" []) = false ∧
    holds m defaultFuel .send [] (.app "PieceBoard" []) = true := by
  decide +kernel

/-- the rules reject the usual offenders and are conservative on unknown constructors -/
example :
    isSend (.app "Rc" [.prim "u8"]) = false ∧ isSync (.app "Rc" [.prim "u8"]) = false ∧
    isSend (.app "Cell" [.prim "u8"]) = true ∧ isSync (.app "Cell" [.prim "u8"]) = false ∧
    isSync (.app "RefCell" [.prim "u8"]) = false ∧
    isSend .rawptr = false ∧ isSync .rawptr = false ∧
    isSend (.app "Arc" [.app "Cell" [.prim "u8"]]) = false ∧
    isSend (.ref (.app "Cell" [.prim "u8"])) = false ∧
    isSync (.app "Mutex" [.app "Cell" [.prim "u8"]]) = true ∧
    isSend (.app "Mutex" [.app "Rc" [.prim "u8"]]) = false ∧
    isSend (.app "Frobnicate" []) = false ∧
    isSend (.app "List" [.app "Rc" [.prim "u8"]]) = false ∧
    isSync (.app "List" [.app "Cell" [.prim "u8"]]) = false ∧
    isSend (.app "Iter" [.app "Zobrist" []]) = true ∧
    isSend (.app "Iter" [.app "Cell" [.prim "u8"]]) = false ∧
    isSend (.app "List" []) = false := by
  decide +kernel

/-- a `pub fn f(&mut self)` or any hazard entry would falsify `C18_immutable` -/
example : ¬ (∀ m ∈ [("src/linked_list.rs", "next", false), ("src/engine.rs", "set_board", true)], m.2.2 = false) := by
  decide

/-! ## Part (b): interleavings on the heap model `Impl/Conc.lean` -/

open Arimaa.Conc in
/-- **C18 (b1): results do not depend on the interleaving.**  Take any initial state of the heap model (any
heap, any number of threads, any programs), any thread `t`, any schedule `sched` of all threads, and
any number `k` of steps of `t` running alone from the same initial state.  Whenever `t` has executed
the same number of instructions in both runs, its whole local state is the same in both: the sequence
of values it has read so far (`trace`: elements and lengths read through its references, keys of
handles obtained), its remaining program, and its handles.  In particular, running alone to the same
point yields exactly the same sequence of read results. -/
theorem C18_interleaving_results (s : State) (t : Nat) (th0 : Thread) (h0 : s.threads[t]? = some th0)
    (sched : List Nat) (k : Nat) :
    ∃ a b, (run s sched).threads[t]? = some a ∧ (run s (List.replicate k t)).threads[t]? = some b ∧
      (a.loc.pc = b.loc.pc → a.loc = b.loc) := by
  obtain ⟨a, n, ha, _, hxa⟩ := run_obs t sched s th0 h0
  obtain ⟨b, m, hb, _, hxb⟩ := run_obs t (List.replicate k t) s th0 h0
  refine ⟨a, b, ha, hb, fun hpc => ?_⟩
  have hpc' : (refRun t s.roots n (view t s.fields, th0.loc)).2.pc = (refRun t s.roots m (view t s.fields, th0.loc)).2.pc := by
    rw [← hxa, ← hxb]; exact hpc
  have := refRun_pc_inj t s.roots n m _ hpc'
  rw [← hxa, ← hxb] at this
  exact congrArg Prod.snd this

open Arimaa.Conc in
/-- **C18 (b2): the explanation.**  Under every schedule, (i) the local state of a thread and the part of
the immutable heap it can traverse are, at every moment, the result of running some number of its
instructions in the count-free, free-less *reference semantics* `refRun` (which never looks at a
count and in which nobody else exists), and (ii) no step ever changes `elem`, `next` or `len` of a node
that existed when the threads started: the only write to `fields` is the allocation of a fresh node
in the allocating thread's own arena. -/
theorem C18_frame (s : State) (t : Nat) (th0 : Thread) (h0 : s.threads[t]? = some th0) (sched : List Nat) :
    (∃ a n, (run s sched).threads[t]? = some a ∧
      (view t (run s sched).fields, a.loc) = refRun t s.roots n (view t s.fields, th0.loc)) ∧
    (∀ id, id.arena = 0 → (run s sched).fields id = s.fields id) ∧
    (∀ u id, id.arena ≠ u + 1 → (step s u).fields id = s.fields id) := by
  obtain ⟨a, n, ha, _, hxa⟩ := run_obs t sched s th0 h0
  exact ⟨⟨a, n, ha, hxa⟩, fun id h => run_fields_arena0 sched s id h, fun u id h => step_fields_other s u id h⟩

open Arimaa.Conc in
/-- **C18 (b3): the shared history is never freed under the threads' feet.**  If, when the threads start,
every node reachable from a shared root handle has its keeping reference counted (the root handle, or
its predecessor's `next`; `RootsSafe s s`), then under every schedule every such node is never freed and
its count stays positive — whatever the threads clone, append or drop. -/
theorem C18_roots_never_freed (s : State) (h : RootsSafe s s) (sched : List Nat) (id : NodeId) (tok : Owner)
    (hr : RootReach s id tok) :
    ((run s sched).arcs id).freed = false ∧ 0 < ((run s sched).arcs id).count := by
  have := (rootsSafe_run s sched s h).alive id tok hr
  exact ⟨this.2, List.length_pos_of_mem this.1⟩

open Arimaa.Conc in
/-- **C18 (b), what is proved of the intended `C18_interleaving`.**

Intended full statement: *for every schedule, every thread's sequence of read results equals the one it
gets running alone from the same initial heap, and no node reachable from a live handle is ever freed.*

Proved here: the first conjunct in full (`C18_interleaving_results`: for all heaps, programs, thread
counts and schedules), and the second conjunct for the handles that are shared between the threads —
the root handles of the shared state (`C18_roots_never_freed`).  **Not proved:** that a node reachable
from a handle a thread created itself (by `clone` or `append`) is not freed before that thread drops
the handle.  That needs the full count invariant (count = number of references) of the model; for
`Arc` itself this is the standard library's guarantee and is trusted, not modelled. -/
theorem C18_interleaving_partial (s : State) (t : Nat) (th0 : Thread) (h0 : s.threads[t]? = some th0)
    (hsafe : RootsSafe s s) (sched : List Nat) (k : Nat) :
    (∃ a b, (run s sched).threads[t]? = some a ∧ (run s (List.replicate k t)).threads[t]? = some b ∧
      (a.loc.pc = b.loc.pc → a.loc = b.loc)) ∧
    (∀ id tok, RootReach s id tok → ((run s sched).arcs id).freed = false ∧ 0 < ((run s sched).arcs id).count) :=
  ⟨C18_interleaving_results s t th0 h0 sched k, fun id tok hr => C18_roots_never_freed s hsafe sched id tok hr⟩

/-! ### Non-vacuity: two threads expanding one shared three-node history -/

namespace C18Example
open Arimaa.Conc Arimaa.Conc.Example

/-- both threads finish under both schedules with the trace they have alone; thread 0 read
`len 3`, got handle 0, read `100 9 8 7`, `None`, `len 4`, got handle 1 -/
example :
    traceOf (run init schedA) 0 = some [some 1, some 4, none, some 7, some 8, some 9, some 100, some 0, some 3] ∧
    traceOf (run init schedB) 0 = traceOf (run init schedA) 0 ∧
    traceOf (run init (List.replicate 16 0)) 0 = traceOf (run init schedA) 0 ∧
    traceOf (run init schedB) 1 = traceOf (run init schedA) 1 ∧
    traceOf (run init (List.replicate 16 1)) 1 = traceOf (run init schedA) 1 := by
  decide +kernel

/-- counts do change, and frees do happen: afterwards each thread's private node is freed, the shared
head is back to count 1 and nothing shared was freed -/
example :
    ((run init schedA).arcs ⟨1, 0⟩).freed = true ∧ ((run init schedA).arcs ⟨2, 0⟩).freed = true ∧
    ((run init schedA).arcs n2).count = 1 ∧ ((run init schedA).arcs n2).freed = false ∧
    ((run init schedA).arcs n1).freed = false ∧ ((run init schedA).arcs n0).freed = false ∧
    ((run init [0, 0, 1, 1]).arcs n2).count = 3 := by
  decide +kernel

/-- the hypothesis of `C18_roots_never_freed` / `C18_interleaving_partial` holds for the example -/
example : RootsSafe init init := init_rootsSafe

/-- and all three nodes of the shared history are root-reachable -/
example : RootReach init n0 (.node n1) :=
  .next n1 (.node n2) ⟨8, some n0, 2⟩ n0
    (.next n2 (.root 0) ⟨9, some n1, 3⟩ n1 (.head 0 n2 rfl rfl) (by decide) rfl rfl) (by decide) rfl rfl

end C18Example

end Arimaa.Props
