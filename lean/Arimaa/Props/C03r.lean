import Arimaa.Props.C03
import Arimaa.Lemmas.RsAgreeStep
import Arimaa.Gen.Bridge.GameState_take_action

/-!
# C03 — the property at the level of the REGENERATED code

`Gen/Rs.lean` is written by `tools/rs2lean2.py` from the current text of engine.rs / zobrist.rs on every
run.  `Gen/Bridge/<fn>.lean` (generated) proves `@Rs.fn = @RsBase.fn` — the current text against the
baseline text — and `Lemmas/RsAgree*.lean` prove that each baseline function equals
`Res.guard (hand panic guard) (hand total function)`.  This file puts both, for the functions C03 rests
on, into the property's proof closure and restates them as one named obligation (`C03_code_agrees`) about
the CURRENT functions, plus corollaries that speak about them directly.  A change of the Rust text of one
of these functions that alters behaviour breaks an obligation here without any test having to find the input.
(written by tools/mkrprops.py)
-/
namespace Arimaa
open Gen GameState Arimaa.Gen.Rs Arimaa.Rt Arimaa.Gen.Bridge

theorem C03_value_of_ok {α : Type} {x : Res α} {p : Bool} {v w : α} (h : x = Res.guard p v) (hx : x = .ok w) :
    p = false ∧ w = v := by
  rw [h] at hx
  obtain ⟨hp, hv⟩ := Res.guard_eq_ok.mp hx
  exact ⟨hp, hv.symm⟩

/-- the agreement theorems C03 rests on, about the CURRENT functions, as one obligation -/
theorem C03_code_agrees :
    (∀ (s : GameState) (a : Action), GameState_take_action s a = Res.guard (s.takeActionPanics a) (s.takeAction a)) :=
  (by simp only [bridge_GameState_take_action]; exact RsAgree.take_action_eq)

/-- **C03 for the code as it is now**: a step before the fourth, as the regenerated `take_action` computes it,
keeps the side and the move number and raises the step counter by one -/
theorem C03_code_step_after_move (s s' : GameState) (pp : PlayPhase) (sq : Nat) (d : Dir)
    (hph : s.phase = .play pp) (hlt : pp.step < 3) (h : GameState_take_action s (.move sq d) = .ok s') :
    s'.p1Turn = s.p1Turn ∧ s'.step = s.step + 1 ∧ s'.moveNo = s.moveNo := by
  simp only [bridge_GameState_take_action] at h
  have := (C03_value_of_ok (RsAgree.take_action_eq s _) h).2
  subst this
  obtain ⟨pp', _, h1, _, h3, h4, _⟩ := C03_step_after_move s pp sq d hph hlt
  exact ⟨h1, h3, h4⟩

end Arimaa
