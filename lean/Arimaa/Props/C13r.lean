import Arimaa.Props.C13
import Arimaa.Lemmas.RsAgreePreview
import Arimaa.Lemmas.RsAgreeStep
import Arimaa.Lemmas.RsAgreeGen
import Arimaa.Gen.Bridge.GameState_take_action
import Arimaa.Gen.Bridge.GameState_trapped_animal_for_action
import Arimaa.Gen.Bridge.GameState_valid_actions_no_rep
import Arimaa.Gen.Bridge.PieceBoardState_trapped_piece_bits

/-!
# C13 — the property at the level of the REGENERATED code

`Gen/Rs.lean` is written by `tools/rs2lean2.py` from the current text of engine.rs / zobrist.rs on every
run.  `Gen/Bridge/<fn>.lean` (generated) proves `@Rs.fn = @RsBase.fn` — the current text against the
baseline text — and `Lemmas/RsAgree*.lean` prove that each baseline function equals
`Res.guard (hand panic guard) (hand total function)`.  This file puts both, for the functions C13 rests
on, into the property's proof closure and restates them as one named obligation (`C13_code_agrees`) about
the CURRENT functions, plus corollaries that speak about them directly.  A change of the Rust text of one
of these functions that alters behaviour breaks an obligation here without any test having to find the input.
(written by tools/mkrprops.py)
-/
namespace Arimaa
open Gen GameState Arimaa.Gen.Rs Arimaa.Rt Arimaa.Gen.Bridge Spec

theorem C13_value_of_ok {α : Type} {x : Res α} {p : Bool} {v w : α} (h : x = Res.guard p v) (hx : x = .ok w) :
    p = false ∧ w = v := by
  rw [h] at hx
  obtain ⟨hp, hv⟩ := Res.guard_eq_ok.mp hx
  exact ⟨hp, hv.symm⟩

/-- the agreement theorems C13 rests on, about the CURRENT functions, as one obligation -/
theorem C13_code_agrees :
    (∀ (s : GameState) (a : Action), GameState_trapped_animal_for_action s a = Res.guard (s.trappedAnimalForActionPanics a) (s.trappedAnimalForAction a)) ∧
    (∀ (s : GameState) (a : Action), GameState_take_action s a = Res.guard (s.takeActionPanics a) (s.takeAction a)) ∧
    (∀ b : Board, PieceBoardState_trapped_piece_bits b = b.trappedPieceBits) :=
  ⟨(by simp only [bridge_GameState_trapped_animal_for_action]; exact RsAgree.trapped_animal_for_action_eq),
   (by simp only [bridge_GameState_take_action]; exact RsAgree.take_action_eq),
   (by simp only [bridge_PieceBoardState_trapped_piece_bits]; exact RsAgree.trapped_piece_bits)⟩

theorem C13_code_preview (s : GameState) (a : Action) (r : Option (Nat × Piece × Bool))
    (h : GameState_trapped_animal_for_action s a = .ok r) : r = s.trappedAnimalForAction a := by
  simp only [bridge_GameState_trapped_animal_for_action] at h
  exact (C13_value_of_ok (RsAgree.trapped_animal_for_action_eq s a) h).2

theorem C13_code_rule_only (s : GameState) (l : List Action) (hl : GameState_valid_actions_no_rep s = .ok l) :
    l = s.validActionsNoRep := by
  simp only [bridge_GameState_valid_actions_no_rep] at hl
  exact (C13_value_of_ok (RsAgree.valid_actions_no_rep_direct s) hl).2

/-- **C13 for the code as it is now**: for a step of the rule-only list of the regenerated code, what the
regenerated preview returns is `none` exactly when the step leaves no unsupported trap piece, and otherwise names
the one square, type and owner that hangs after the move -/
theorem C13_code_preview_exact (s : GameState) (pp : PlayPhase) (h : PlayInv s pp)
    (hno : NoHanging (absBoard s.board)) (l : List Action) (hl : GameState_valid_actions_no_rep s = .ok l)
    (i : Nat) (d : Dir) (ha : Action.move i d ∈ l) (r : Option (Nat × Piece × Bool))
    (hr : GameState_trapped_animal_for_action s (.move i d) = .ok r) :
    ∃ j, nbr i (dirSpec d) = some j ∧
      (r = none ↔ ∀ k, k < 64 → hanging (move (absBoard s.board) i j) k = false) ∧
      (∀ k p g, r = some (k, p, g) →
        k < 64 ∧ move (absBoard s.board) i j k = some ⟨g, toSpec p⟩ ∧
          hanging (move (absBoard s.board) i j) k = true ∧
          ∀ k', k' < 64 → hanging (move (absBoard s.board) i j) k' = true → k' = k) := by
  have h1 := C13_code_rule_only s l hl
  have h2 := C13_code_preview s _ r hr
  subst h1 h2
  exact C13_preview_exact s pp h hno i d ha

end Arimaa
