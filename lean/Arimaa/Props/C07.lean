import Arimaa.Lemmas.ListLogic
import Arimaa.Lemmas.Turn

/-!
# C07 — unfinished states always have an action; summary queries match the action list

Property text: whenever no result is reported the offered action list is non-empty, in setup and
in play, so a driver that asks for the result before asking for actions can never get stuck.  In
the middle of a turn a result is reported exactly when the offered list is empty, and it is a loss
for the player on move; the can-pass query (with and without repetition checking) and the has-move
query answer true exactly when a pass, respectively any action, is in the corresponding list.

Quantifier: all reachable states.  The play-phase theorems about `hasMove`/`isTerminal` carry the
hypothesis `pp.step ≤ 3`, which every reachable state satisfies (`C03_step_range`:
`TurnInv` holds along every action list from `initial` and from every parsed position); the
`_reachable` corollaries below are stated with `TurnInv` on the start state and an arbitrary action
list.  The hypothesis is needed: the code's filter tests `step == 3` while its mirror in `has_move`
tests `step < 3`, and these are complementary only for `step ≤ 3`.

Setup phase: `isTerminal = none` and `hasMove = none` are proved; non-emptiness of the placement
list needs the setup count invariant of C09 and is stated with that explicit hypothesis
(`C07_setup_partial`).
-/
namespace Arimaa
open GameState Gen

/-- **Can-pass query.**  In every state and for both values of the repetition flag `r`,
`canPass r` is true exactly when the pass is in the list `validActions_ r` (`r = true`: the offered
list `validActions`; `r = false`: the rule-only list `validActionsNoRep`). -/
theorem C07_can_pass_iff (s : GameState) (r : Bool) :
    s.canPass r = (s.validActions_ r).contains .pass := by
  cases h : s.canPass r
  · have : Action.pass ∉ s.validActions_ r := fun hm => by
      have := (pass_mem_validActions__iff s r).1 hm
      rw [h] at this; cases this
    simp [this]
  · have := (pass_mem_validActions__iff s r).2 h
    simp [this]

/-- The two instances of `C07_can_pass_iff` in the words of the API. -/
theorem C07_can_pass_iff_api (s : GameState) :
    (s.canPass true = true ↔ Action.pass ∈ s.validActions) ∧
    (s.canPass false = true ↔ Action.pass ∈ s.validActionsNoRep) :=
  ⟨(pass_mem_validActions__iff s true).symm, (pass_mem_validActions__iff s false).symm⟩

/-- **Has-move query.**  In a play-phase state with `step ≤ 3`, `hasMove` (asked, as at every call
site of the crate, about the state's own board) reports no result exactly when the offered list
is non-empty. -/
theorem C07_has_move_iff (s : GameState) (pp : PlayPhase) (hph : s.phase = .play pp)
    (h3 : pp.step ≤ 3) :
    s.hasMove s.board = none ↔ s.validActions ≠ [] :=
  (validActions_ne_nil_iff s pp hph h3).symm

/-- When `hasMove` does report a result it is a loss for the player on move (any state, any
board). -/
theorem C07_has_move_result (s : GameState) (b : Board) (h : s.hasMove b ≠ none) :
    s.hasMove b = some (if s.p1Turn then .silverWin else .goldWin) :=
  hasMove_eq_some s b h

/-- **Mid-turn result.**  In the middle of a turn (`0 < step ≤ 3`) a result is reported exactly
when the offered list is empty, and then it is a loss for the player on move: Silver wins if Gold
(`p1Turn`) is on move, Gold wins otherwise. -/
theorem C07_mid_turn_result (s : GameState) (pp : PlayPhase) (hph : s.phase = .play pp)
    (hpos : pp.step > 0) (h3 : pp.step ≤ 3) :
    (s.isTerminal ≠ none ↔ s.validActions = []) ∧
    (s.validActions = [] →
      s.isTerminal = some (if s.p1Turn then .silverWin else .goldWin)) := by
  rw [isTerminal_mid_turn s pp hph hpos]
  have h := C07_has_move_iff s pp hph h3
  constructor
  · rw [Ne, h]; simp
  · intro he
    apply hasMove_eq_some
    rw [Ne, h]; simp [he]

/-- **No result ⇒ some action (play phase, any step).**  In a play-phase state with `step ≤ 3`, if
`isTerminal` reports no result then the offered list is non-empty. -/
theorem C07_no_result_nonempty (s : GameState) (pp : PlayPhase) (hph : s.phase = .play pp)
    (h3 : pp.step ≤ 3) (hnone : s.isTerminal = none) : s.validActions ≠ [] :=
  (C07_has_move_iff s pp hph h3).1 (hasMove_none_of_isTerminal_none s pp hph hnone)

/-- `C07_no_result_nonempty` over the property's quantifier: for every state reached by any action
list from a state satisfying `TurnInv` (the initial state, any parsed position), if it is in the
play phase and reports no result, its offered list is non-empty. -/
theorem C07_no_result_nonempty_reachable (s0 : GameState) (hinv : TurnInv s0) (as : List Action)
    (pp : PlayPhase) (hph : (s0.run as).phase = .play pp)
    (hnone : (s0.run as).isTerminal = none) : (s0.run as).validActions ≠ [] := by
  have hi := turnInv_run s0 as hinv
  unfold TurnInv at hi
  rw [hph] at hi
  exact C07_no_result_nonempty _ pp hph hi.1 hnone

/-- `C07_mid_turn_result` and `C07_has_move_iff` over the property's quantifier. -/
theorem C07_queries_reachable (s0 : GameState) (hinv : TurnInv s0) (as : List Action)
    (pp : PlayPhase) (hph : (s0.run as).phase = .play pp) :
    ((s0.run as).hasMove (s0.run as).board = none ↔ (s0.run as).validActions ≠ []) ∧
    (pp.step > 0 → ((s0.run as).isTerminal ≠ none ↔ (s0.run as).validActions = [])) := by
  have hi := turnInv_run s0 as hinv
  unfold TurnInv at hi
  rw [hph] at hi
  exact ⟨C07_has_move_iff _ pp hph hi.1, fun hpos => (C07_mid_turn_result _ pp hph hpos hi.1).1⟩

/-- **Setup phase (partial).**  In the place phase no result is ever reported and `hasMove` says
"has a move".  The full statement also claims `validActions ≠ []` for every reachable setup state;
what is proved here adds the explicit hypothesis that some piece type is still below its limit for
the player on move (some row `(f, lim, p)` of the placement table has fewer than `lim` pieces of
type `f` of the current player on the board) — this is the setup count invariant of C09 ("fewer
than 16 pieces placed by the player on move"), proved in that package. -/
theorem C07_setup_partial (s : GameState) (hph : s.phase = .place) :
    s.isTerminal = none ∧ (∀ b, s.hasMove b = none) ∧
    ((∃ e ∈ placementTable,
        popcount (s.board.typeBits e.1 &&& s.currPlayerPieceMask s.board) < e.2.1) →
      s.validActions ≠ []) := by
  refine ⟨by simp [isTerminal, hph], fun b => by simp [hasMove, hph], ?_⟩
  rintro ⟨⟨f, lim, p⟩, hmem, hlt⟩
  unfold validActions
  rw [validActions__place s hph]
  intro hnil
  have : Action.place p ∈ s.validPlacement := by
    unfold validPlacement
    simp only [List.mem_filterMap]
    exact ⟨(f, lim, p), hmem, by simp only at hlt ⊢; rw [if_pos hlt]⟩
  rw [hnil] at this
  cases this

/-! ## Non-vacuity -/

/-- Gold elephant alone on e4. -/
private def exB_C07 : Board := Board.new (sqBit 36) (sqBit 36) 0 0 0 0 0

/-- mid-turn state (one step made) with actions: no result, list non-empty, pass offered -/
private def ex1_C07 : GameState :=
  { p1Turn := true, moveNo := 2
    phase := .play { prev := [exB_C07], pps := .none, initHash := 1, hist := [], trapped := false }
    board := exB_C07, hash := 5 }

example : ex1_C07.isTerminal = none ∧ ex1_C07.validActions ≠ [] ∧ ex1_C07.canPass true = true ∧
    Action.pass ∈ ex1_C07.validActions := by decide +kernel

/-- mid-turn state where everything is withheld: empty board (no steps at all) and the pass would
restore the turn-start position.  The offered list is empty, the rule-only list is not, and the
result is a loss for Gold, who is on move. -/
private def ex2 : GameState :=
  { p1Turn := true, moveNo := 2
    phase := .play { prev := [Board.empty], pps := .none, initHash := zExcludeStep 5 1, hist := [],
                     trapped := false }
    board := Board.empty, hash := 5 }

example : ex2.validActions = [] ∧ ex2.validActionsNoRep = [.pass] ∧
    ex2.isTerminal = some .silverWin ∧ ex2.canPass false = true ∧ ex2.canPass true = false := by
  decide +kernel

/-- The hypothesis `step ≤ 3` of `C07_has_move_iff` cannot be dropped (model-level remark about an
unreachable state): with FOUR recorded boards, no capture, the pass refused by the repetition check
and every step leading to a hash that occurs twice in the history, `hasMove` reports a loss (its
mirror tests `step < 3`) although the offered list is not empty (the filter tests `step == 3`). -/
private def ex4 : GameState :=
  { p1Turn := true, moveNo := 2
    phase := .play
      { prev := [exB_C07, exB_C07, exB_C07, exB_C07], pps := .none, initHash := zExcludeStep 5 4
        hist := Dir_ALL.flatMap fun d =>
          let h := zMovePiece 5 true exB_C07 4 (exB_C07.takeMove 36 d).1 0 false
          [h, h]
        trapped := false }
    board := exB_C07, hash := 5 }

example : ex4.hasMove ex4.board = some .silverWin ∧ ex4.validActions ≠ [] := by decide +kernel

/-- the hypothesis of `C07_setup_partial` holds in the initial state -/
example : GameState.initial.phase = .place ∧
    ∃ e ∈ placementTable, popcount (GameState.initial.board.typeBits e.1 &&&
      GameState.initial.currPlayerPieceMask GameState.initial.board) < e.2.1 :=
  ⟨rfl, (.elephant, 1, .elephant), by decide, by decide +kernel⟩

end Arimaa
