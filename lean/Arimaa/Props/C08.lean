import Arimaa.Lemmas.HashPlace

/-!
C08 — the position hash depends only on board, side to move, step and push/pull status.

`HashOk s` (`Lemmas/HashInv.lean`) says: if `s` is in the play phase with play-phase record `pp`, then
`s.hash = Zobrist::from_piece_board(s.board, s.p1Turn, pp.step)` (`zFromPieceBoard`, the from-scratch
hash).  The proofs are XOR algebra over arbitrary boards: no legality or well-formedness of the
position is used for steps and passes.
-/
namespace Arimaa
open Gen

/-- Incremental = from scratch, one step.  For EVERY play-phase state whose hash is the from-scratch
hash, every square and every direction (legal or not, with or without capture, including the step
that ends the turn), the state after `move_piece` is a play-phase state whose hash is the
from-scratch hash of its own board, side and step. -/
theorem C08_move (s : GameState) (hplay : s.isPlay = true) (h : HashOk s) (sq : Nat) (d : Dir) :
    ∃ pp', (s.movePiece sq d).phase = .play pp' ∧
      (s.movePiece sq d).hash =
        zFromPieceBoard (s.movePiece sq d).board (s.movePiece sq d).p1Turn pp'.step := by
  obtain ⟨pp', hp'⟩ := (isPlay_iff _).mp (isPlay_movePiece s hplay sq d)
  exact ⟨pp', hp', (HashOk_play _ pp' hp').mp (HashOk_movePiece s h sq d)⟩

/-- Incremental = from scratch, pass.  Same for `pass` (turn change by pass). -/
theorem C08_pass (s : GameState) (hplay : s.isPlay = true) (h : HashOk s) :
    ∃ pp', s.pass.phase = .play pp' ∧
      s.pass.hash = zFromPieceBoard s.pass.board s.pass.p1Turn pp'.step := by
  obtain ⟨pp', hp'⟩ := (isPlay_iff _).mp (isPlay_pass s hplay)
  exact ⟨pp', hp', (HashOk_play _ pp' hp').mp (HashOk_pass s h)⟩

/-- A position parsed from text is a play-phase state at step 0 whose hash, `initHash` and single
history entry are the from-scratch hash of the parsed board and side. -/
theorem C08_parse (t : List Char) (s : GameState) (h : parseState t = .ok s) :
    HashOk s ∧ s.isPlay = true ∧ s.hash = zFromPieceBoard s.board s.p1Turn 0 ∧
      s.phase = .play (PlayPhase.initial s.hash [s.hash]) := by
  obtain ⟨h1, h2⟩ := parseState_ok t s h
  refine ⟨(HashOk_play s _ h2).mpr h1, (isPlay_iff s).mpr ⟨_, h2⟩, h1, h2⟩

/-- Incremental = from scratch, all paths.  From a play-phase state whose hash is the from-scratch
hash, after ANY list of step/pass actions (any squares and directions, captures, turn changes by
pass or by fourth step), every state along the way is a play-phase state whose hash equals the
from-scratch hash of its own board, side to move and step. -/
theorem C08_incremental_eq_scratch (s : GameState) (hplay : s.isPlay = true) (h : HashOk s)
    (as : List Action) (has : ∀ a ∈ as, a.isPlace = false) (k : Nat) :
    ∃ pp', ((as.take k).foldl GameState.takeAction s).phase = .play pp' ∧
      ((as.take k).foldl GameState.takeAction s).hash =
        zFromPieceBoard ((as.take k).foldl GameState.takeAction s).board
          ((as.take k).foldl GameState.takeAction s).p1Turn pp'.step := by
  obtain ⟨h', hp'⟩ := HashOk_run s h hplay (as.take k) (fun a ha => has a (List.mem_of_mem_take ha))
  obtain ⟨pp', hpp⟩ := (isPlay_iff _).mp hp'
  exact ⟨pp', hpp, (HashOk_play _ pp' hpp).mp h'⟩

/-- The same from any position that parses from text (no side condition on the diagram). -/
theorem C08_incremental_from_parse (t : List Char) (s : GameState) (hparse : parseState t = .ok s)
    (as : List Action) (has : ∀ a ∈ as, a.isPlace = false) (k : Nat) :
    ∃ pp', ((as.take k).foldl GameState.takeAction s).phase = .play pp' ∧
      ((as.take k).foldl GameState.takeAction s).hash =
        zFromPieceBoard ((as.take k).foldl GameState.takeAction s).board
          ((as.take k).foldl GameState.takeAction s).p1Turn pp'.step :=
  C08_incremental_eq_scratch s (C08_parse t s hparse).2.1 (C08_parse t s hparse).1 as has k

/-- The transposition hash of a play-phase state satisfying the invariant is the from-scratch hash of
board, side and step combined with the table value of the pending push/pull
(`board_state_hash_with_push_pull_state`). -/
theorem C08_transposition (s : GameState) (pp : PlayPhase) (hp : s.phase = .play pp) (h : HashOk s) :
    s.transpositionHash = zWithPPS (zFromPieceBoard s.board s.p1Turn pp.step) pp.pps := by
  unfold GameState.transpositionHash
  rw [hp]
  simp only
  rw [(HashOk_play s pp hp).mp h]

/-- Start-of-turn hashes.  After a turn ends — by `pass`, or by `move_piece` as the fourth step
(`pp.step ≥ 3`) — the new play-phase record is at step 0, its `initHash` and the head of its
`hist` are the new state's hash, which (under the invariant) is the from-scratch hash of the new
board and side at step 0; the tail of `hist` is the old history (emptied by a capture during the
turn).  A step that does not end the turn keeps `initHash`, and keeps the history or empties it
(capture). -/
theorem C08_history_head (s : GameState) (pp : PlayPhase) (hp : s.phase = .play pp) (h : HashOk s) :
    (∃ pp', s.pass.phase = .play pp' ∧ pp'.step = 0 ∧ pp'.initHash = s.pass.hash ∧
        pp'.hist = s.pass.hash :: (if pp.trapped then [] else pp.hist) ∧
        s.pass.hash = zFromPieceBoard s.pass.board s.pass.p1Turn 0) ∧
    (∀ sq d, pp.step ≥ 3 →
      ∃ pp', (s.movePiece sq d).phase = .play pp' ∧ pp'.step = 0 ∧
        pp'.initHash = (s.movePiece sq d).hash ∧
        pp'.hist = (s.movePiece sq d).hash :: (if (s.board.takeMove sq d).2 then [] else pp.hist) ∧
        (s.movePiece sq d).hash =
          zFromPieceBoard (s.movePiece sq d).board (s.movePiece sq d).p1Turn 0) ∧
    (∀ sq d, pp.step < 3 →
      ∃ pp', (s.movePiece sq d).phase = .play pp' ∧ pp'.initHash = pp.initHash ∧
        pp'.hist = (if (s.board.takeMove sq d).2 then [] else pp.hist)) := by
  refine ⟨?_, ?_, ?_⟩
  · obtain ⟨_, _, hh, hph⟩ := pass_play s pp hp
    refine ⟨_, hph, rfl, hh.symm, by rw [hh]; rfl, ?_⟩
    exact (HashOk_play _ _ hph).mp (HashOk_pass s h)
  · intro sq d hlast
    obtain ⟨_, _, hh, pp', hph, hstep, hinit⟩ := movePiece_play s pp hp sq d
    have hl : decide (pp.step ≥ 3) = true := by simpa using hlast
    have hpp' := hinit hl
    have hs0 : pp'.step = 0 := by rw [hpp']; rfl
    refine ⟨pp', hph, hs0, by rw [hpp', hh]; rfl, by rw [hpp', hh]; rfl, ?_⟩
    have := (HashOk_play _ pp' hph).mp (HashOk_movePiece s h sq d)
    rwa [hs0] at this
  · intro sq d hmid
    obtain ⟨pp', hph, hi, hhist, _⟩ := movePiece_play_mid s pp hp sq d hmid
    exact ⟨pp', hph, hi, hhist⟩

/-- Two play-phase states satisfying the invariant with the same board, side to move and step have
equal `hash` fields — which is what both `GameState == GameState` and `Hash for GameState` of the
crate look at — and, with the same pending push/pull, equal transposition hashes. -/
theorem C08_eq_of_same (s s' : GameState) (pp pp' : PlayPhase) (hp : s.phase = .play pp)
    (hp' : s'.phase = .play pp') (h : HashOk s) (h' : HashOk s') (hb : s.board = s'.board)
    (hside : s.p1Turn = s'.p1Turn) (hstep : pp.step = pp'.step) :
    s.hash = s'.hash ∧ (pp.pps = pp'.pps → s.transpositionHash = s'.transpositionHash) := by
  have e : s.hash = s'.hash := by
    rw [(HashOk_play s pp hp).mp h, (HashOk_play s' pp' hp').mp h', hb, hside, hstep]
  refine ⟨e, fun hpps => ?_⟩
  unfold GameState.transpositionHash
  rw [hp, hp']
  simp only
  rw [e, hpps]

/-- One placement (setup).  `SetupHashOk s` is the setup-phase form of the invariant:
`s.hash = INITIAL ^^^ (side constant) ^^^ (piece values of the board)`, no step constant.  Under the
explicit hypothesis `PlaceReady s` on `s.board.placementBit` — it is a single on-board bit, not in
`board.all`; type boards and gold board lie inside `all`; the side to move owns the home rows being
filled (all of these are setup invariants, to be discharged by the C09/C10 package) — a placement
either keeps the setup invariant (setup continues), or (last Silver placement) yields a play-phase
state, Gold to move, step 0, whose hash, `initHash` and only history entry are the from-scratch hash
of its board. -/
theorem C08_place (s : GameState) (hs : SetupHashOk s) (hr : PlaceReady s) (p : Piece) :
    (s.board.placementBit ≠ LAST_P2_PLACEMENT_MASK →
      (s.place p).phase = .place ∧ SetupHashOk (s.place p)) ∧
    (s.board.placementBit = LAST_P2_PLACEMENT_MASK →
      (s.place p).p1Turn = true ∧
      (s.place p).hash = zFromPieceBoard (s.place p).board true 0 ∧
      (s.place p).phase = .play (PlayPhase.initial (s.place p).hash [(s.place p).hash])) :=
  SetupHashOk_place s hs hr p

/-- A finished setup hashes like the same position parsed from text.  If `ps` is a non-empty list of
placements from `GameState::initial()` such that `PlaceReady` holds before each placement and
exactly the last one fills the last Silver home square, then the final state is a play-phase state
with the from-scratch hash; and any text that parses to the same board with Gold to move gives a
state with the same hash and the same play-phase record (`initHash`, history, step, status). -/
theorem C08_setup_eq_parse (ps : List Piece) (hne : ps ≠ [])
    (hready : ∀ k, k < ps.length → PlaceReady ((ps.take k).foldl GameState.place GameState.initial))
    (hlast : ∀ k, k < ps.length →
      (((ps.take k).foldl GameState.place GameState.initial).board.placementBit =
        LAST_P2_PLACEMENT_MASK ↔ k + 1 = ps.length)) :
    HashOk (ps.foldl GameState.place GameState.initial) ∧
    (ps.foldl GameState.place GameState.initial).isPlay = true ∧
    ∀ (t : List Char) (s' : GameState), parseState t = .ok s' →
      s'.board = (ps.foldl GameState.place GameState.initial).board → s'.p1Turn = true →
      s'.hash = (ps.foldl GameState.place GameState.initial).hash ∧
      s'.phase = (ps.foldl GameState.place GameState.initial).phase := by
  obtain ⟨ht, hh, hph⟩ := setup_run ps GameState.initial SetupHashOk_initial hne hready hlast
  refine ⟨(HashOk_play _ _ hph).mpr (by rw [ht]; exact hh), (isPlay_iff _).mpr ⟨_, hph⟩, ?_⟩
  intro t s' hparse hb hside
  obtain ⟨_, _, h1, h2⟩ := C08_parse t s' hparse
  have e : s'.hash = (ps.foldl GameState.place GameState.initial).hash := by
    rw [h1, hh, hb, hside]
  exact ⟨e, by rw [h2, hph, e]⟩

/-! ### non-vacuity -/

section Examples

/-- the setup of both sides, in the code's placement order (a2..h2, a1..h1, then a7..h7, a8..h8) -/
private def exSetup : List Piece :=
  [.rabbit, .rabbit, .rabbit, .rabbit, .rabbit, .rabbit, .rabbit, .rabbit,
   .cat, .dog, .horse, .camel, .elephant, .horse, .dog, .cat,
   .cat, .dog, .horse, .camel, .elephant, .horse, .dog, .cat,
   .rabbit, .rabbit, .rabbit, .rabbit, .rabbit, .rabbit, .rabbit, .rabbit]

set_option maxRecDepth 100000 in
/-- the hypotheses of `C08_setup_eq_parse` hold for a concrete full setup -/
example : exSetup ≠ [] ∧
    (∀ k, k < exSetup.length →
      PlaceReady ((exSetup.take k).foldl GameState.place GameState.initial)) ∧
    (∀ k, k < exSetup.length →
      (((exSetup.take k).foldl GameState.place GameState.initial).board.placementBit =
        LAST_P2_PLACEMENT_MASK ↔ k + 1 = exSetup.length)) := by
  decide +kernel

set_option maxRecDepth 100000 in
/-- so the finished concrete setup satisfies the invariant and is in the play phase -/
example : HashOk (exSetup.foldl GameState.place GameState.initial) ∧
    (exSetup.foldl GameState.place GameState.initial).isPlay = true := by
  have h := C08_setup_eq_parse exSetup (by decide) (by decide +kernel) (by decide +kernel)
  exact ⟨h.1, h.2.1⟩

private def exText : List Char :=
  "7s\n +-----------------+\n8| r r r r r r r r |\n7| d h c e m c h d |\n6|     x     x     |\n5|                 |\n4|         E       |\n3|     x     x     |\n2| D H C   M C H D |\n1| R R R R R R R R |\n +-----------------+\n   a b c d e f g h\n".toList

set_option maxRecDepth 100000 in
/-- a concrete text parses, so `C08_parse` / `C08_incremental_from_parse` are not vacuous -/
example : (match parseState exText with
    | .ok s => !s.p1Turn && s.moveNo == 7 && s.board.elephants == (sqBit 36 ||| sqBit 11)
    | _ => false) = true := by
  decide +kernel

/-- moves (including an illegal one and a capture-free fourth step) and a pass from the start of play
after the concrete setup stay within `C08_incremental_eq_scratch`'s hypotheses -/
example : ∀ a ∈ [Action.move 51 .up, .move 43 .up, .pass, .move 12 .down, .move 0 .left,
    .move 20 .down, .move 28 .down], a.isPlace = false := by decide

set_option maxRecDepth 100000 in
/-- kernel evaluation of one concrete path (setup, three Gold steps, pass, four Silver steps incl. the
turn-ending fourth): incremental hash = from-scratch hash at the end -/
example :
    let s := [Action.move 51 .up, .move 43 .up, .move 35 .up, .pass, .move 12 .down, .move 20 .down,
      .move 11 .down, .move 19 .down].foldl GameState.takeAction
        (exSetup.foldl GameState.place GameState.initial)
    s.hash = zFromPieceBoard s.board s.p1Turn s.step ∧ s.p1Turn = true ∧ s.step = 0 := by
  decide +kernel

end Examples

end Arimaa
