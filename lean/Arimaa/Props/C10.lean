import Arimaa.Props.C13
import Arimaa.Props.C15

/-!
C10 — All views of the board describe one consistent legal position.

`WF b`: per square at most one of the six type boards has the bit, `all` is their union, `p1 ⊆ all`.
`absBoard b k` is the (owner, piece) read from the type boards and `p1`; all other views are
characterised against it.  Bit `k` is file `k % 8`, rank `8 - k / 8` (C16_square_conversions).
-/
namespace Arimaa
open Gen Spec GameState

/-- **Well-formed in setup**: after any offered placements from the initial state. -/
theorem C10_wf_setup {ps : List Piece} {s : GameState} (hr : SetupRun ps s) : WF s.board := by
  obtain ⟨hall, hp1, hu, hd, _⟩ := C09_board_shape hr
  apply wf_of_union_disjoint _ hu hd
  intro i hi h
  exact (hall i hi).mpr (Or.inl ((hp1 i hi).mp h))

/-- **Well-formed after parsing** any text that parses. -/
theorem C10_wf_parsed (t : List Char) (s : GameState) (h : parseState t = .ok s) : WF s.board :=
  parseState_wf t s h

/-- **Well-formed in play**: preserved by every action of the rule-only list, hence at every state of
every offered run from a finished setup or a parsed position. -/
theorem C10_wf_play (s : GameState) (pp : PlayPhase) (h : PlayInv s pp) (as : List Action)
    (ho : OfferedNR s as) : WF (s.run as).board := by
  obtain ⟨pp', h'⟩ := playInv_run s pp h as ho
  exact h'.wf

/-- a parsed position satisfies the play invariant -/
theorem C10_playInv_parsed (t : List Char) (s : GameState) (h : parseState t = .ok s) :
    ∃ pp, PlayInv s pp ∧ pp.step = 0 := by
  obtain ⟨hw, _, hph, _⟩ := C15_parse_wf t s h
  exact ⟨_, ⟨hph, hw, trivial, by simp [PlayPhase.step]⟩, rfl⟩

/-- **All views agree** with the abstract board on every square `k < 64` of a well-formed board:
per-piece-per-side bits, per-side masks, per-type bits, the all-pieces board, the square lookup and
the character printed in the diagram. -/
theorem C10_views_agree (b : Board) (hw : WF b) (k : Nat) (hk : k < 64) :
    (∀ p g, bit (b.bitsForPiece p g) k = (absBoard b k == some ⟨g, toSpec p⟩)) ∧
    (∀ g, bit (b.playerPieceMask g) k = ownedBy (absBoard b) g k) ∧
    (∀ p, bit (b.bitsByPieceType p) k = (typeAt b k == some p)) ∧
    bit b.all k = (absBoard b k).isSome ∧
    b.pieceTypeAtSquare k = typeAt b k ∧
    absBoard b k = (typeAt b k).map (fun t => ⟨bit b.p1 k, toSpec t⟩) ∧
    cellChar b k =
      (match typeAt b k with
       | some t => pieceToLetter t (bit b.p1 k)
       | none => if Spec.isTrap k then 'x' else ' ') := by
  refine ⟨fun p g => bitsForPiece_bit b hw p g k hk, fun g => ?_, fun p => ?_, (abs_isSome b hw k hk).symm,
    pieceTypeAtSquare_eq b hw k hk, ?_, ?_⟩
  · rw [playerPieceMask_eq, ownedBy_abs b hw g k hk]
  · rw [bitsByPieceType_eq]
    cases ht : typeAt b k with
    | none => simp [typeAt_none_bits b k ht p]
    | some t =>
      rw [typeAt_some_bits b hw k hk t ht p]
      by_cases e : p = t
      · simp [e]
      · have : ¬ t = p := fun h => e h.symm
        simp [e, this]
  · unfold absBoard; cases typeAt b k <;> rfl
  · unfold cellChar
    rw [pieceTypeAtSquare_eq b hw k hk]
    cases ht : typeAt b k with
    | some t =>
      simp only
      congr 1
      unfold isP1Piece
      rw [sqBit_and_ne_zero _ k hk, playerPieceMask_eq]
      rfl
    | none =>
      simp only
      have : displayTrapIdx.contains k = Spec.isTrap k := by
        have : ∀ j : Fin 64, displayTrapIdx.contains j.1 = Spec.isTrap j.1 := by decide
        exact this ⟨k, hk⟩
      rw [this]

/-- **No unsupported trap piece once any step has been applied** (and a pass keeps it; a finished
setup has none). -/
theorem C10_no_hanging_after_action (s : GameState) (pp : PlayPhase) (h : PlayInv s pp) (i : Nat) (d : Dir)
    (ha : Action.move i d ∈ s.validActionsNoRep) :
    NoHanging (absBoard (s.takeAction (.move i d)).board) :=
  C13_no_hanging_after_step s pp h i d ha

/-- number of pieces of one colour and type on the board -/
def countCells (b : Spec.Board) (c : Cell) : Nat := ((List.range 64).filter (fun k => b k == some c)).length

/-! ### non-vacuity -/
example : WF (Board.new (sqBit 42 ||| sqBit 50) 0 0 0 0 (sqBit 42) (sqBit 50 ||| sqBit 9)) := by
  apply wf_of_union_disjoint
  · rfl
  · intro t u _; cases t <;> cases u <;> first | contradiction | decide +kernel
  · intro i hi
    have : ∀ j : Fin 64, bit (Board.new (sqBit 42 ||| sqBit 50) 0 0 0 0 (sqBit 42) (sqBit 50 ||| sqBit 9)).p1 j.1 = true →
        bit (Board.new (sqBit 42 ||| sqBit 50) 0 0 0 0 (sqBit 42) (sqBit 50 ||| sqBit 9)).all j.1 = true := by
      decide +kernel
    exact this ⟨i, hi⟩

end Arimaa
