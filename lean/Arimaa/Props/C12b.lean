import Arimaa.Lemmas.Pusher

/-!
C12 (continued) — while a push is pending there is at least one way to complete it.

`PlayInvP s pp` (Lemmas/Pusher.lean) = the play invariant `PlayInv s pp`, no unsupported trap piece
(`NoHanging`), and `PusherOk`: if the status is "push off `q` of a piece `v` pending" then an
unfrozen piece of the mover, strictly stronger than `v`, stands next to `q`.
-/
namespace Arimaa
open Gen Spec GameState

/-- **The pusher survives the first half of a push** (specification level).  On a board without
unsupported trap pieces, let an enemy piece `c` on `i` be displaced to the empty neighbour `j`, and
let an unfrozen piece of the mover stronger than `s` stand next to `i`.  After the displacement and
the captures it causes, an unfrozen piece of the mover stronger than `s` still stands next to `i`. -/
theorem C12_pusher_survives (b : Spec.Board) (gold : Bool) (i j : Nat) (c : Cell) (hb : NoHanging b)
    (hc : b i = some c) (hg : c.gold ≠ gold) (d : Spec.Dir) (hn : nbr i d = some j) (hej : b j = none)
    (s : Nat) (hp : hasPusher b gold i s = true) :
    hasPusher (capture (move b i j)) gold i s = true :=
  pusher_survives b gold i j c hb hc hg d hn hej s hp

/-- **The pusher invariant is inductive**: it is kept by every action of the rule-only list. -/
theorem C12_pusher_invariant_step (s : GameState) (pp : PlayPhase) (h : PlayInvP s pp) (a : Action)
    (ha : a ∈ s.validActionsNoRep) : ∃ pp', PlayInvP (s.takeAction a) pp' :=
  playInvP_step s pp h a ha

/-- The pusher invariant holds along every run of actions each taken from the rule-only list. -/
theorem C12_pusher_invariant_run (s : GameState) (pp : PlayPhase) (h : PlayInvP s pp) (as : List Action)
    (ho : OfferedNR s as) : ∃ pp', PlayInvP (s.run as) pp' :=
  playInvP_run s pp h as ho

/-- The pusher invariant holds after every finished setup, hence (with the previous theorem) in
every state reachable from the initial state by offered actions. -/
theorem C12_pusher_invariant_after_setup {ps : List Piece} {s : GameState} (hr : SetupRun ps s)
    (h32 : ps.length = 32) : ∃ pp, PlayInvP s pp ∧ pp.step = 0 :=
  playInvP_of_setup hr h32

/-- **Every reachable play state satisfies the pusher invariant**: any finished setup followed by
any run of actions each taken from the rule-only list of the state where it is made. -/
theorem C12_pusher_invariant_reachable {ps : List Piece} {s0 : GameState} (hr : SetupRun ps s0)
    (h32 : ps.length = 32) (as : List Action) (ho : OfferedNR s0 as) : ∃ pp, PlayInvP (s0.run as) pp := by
  obtain ⟨pp0, h0, _⟩ := playInvP_of_setup hr h32
  exact playInvP_run s0 pp0 h0 as ho

/-- **While a push is pending there is at least one offered action**, namely a step of an unfrozen,
strictly stronger piece of the mover into the vacated square `q`.  (With `C12_push_pending_actions`:
the list consists exactly of such steps, and is not empty.) -/
theorem C12_push_pending_nonempty (s : GameState) (pp : PlayPhase) (h : PlayInvP s pp) (q : Nat) (v : Piece)
    (hp : pp.pps = .mustCompletePush q v) :
    (∃ x d, x < 64 ∧ pushEnd (absBoard s.board) s.p1Turn (.push q (toSpec v)) x (dirSpec d) = true ∧
      Action.move x d ∈ s.validActionsNoRep) ∧ s.validActionsNoRep ≠ [] := by
  obtain ⟨hinv, _, hpo⟩ := h
  have hpend := hinv.pend
  rw [hp] at hpend hpo
  obtain ⟨hq, hqe⟩ := hpend
  have hqn := (abs_none_iff s.board hinv.wf q hq).mpr hqe
  obtain ⟨x, d', hx, hpe⟩ := pushEnd_of_pusher _ _ q (toSpec v) hq hqn hpo
  obtain ⟨d, rfl⟩ := dirSpec_surjective d'
  have hmem := ((C12_push_pending_actions s pp hinv q v hp).1 x d).mpr ⟨hx, hpe⟩
  refine ⟨⟨x, d, hx, hpe, hmem⟩, ?_⟩
  intro e; rw [e] at hmem; cases hmem

/-! ### non-vacuity -/

/-- Gold to move at the start of a turn: Gold elephant d4 (35), Silver rabbit d5 (27), Gold rabbit
e1 (60), Silver rabbit b7 (9). -/
def exC12b : GameState :=
  { p1Turn := true, moveNo := 5, hash := 0
    board := Board.new (sqBit 35 ||| sqBit 60) (sqBit 35) 0 0 0 0 (sqBit 27 ||| sqBit 60 ||| sqBit 9)
    phase := .play (PlayPhase.initial 0 [0]) }

theorem exC12b_inv : PlayInvP exC12b (PlayPhase.initial 0 [0]) := by
  apply playInvP_of_none _ _ _ _ rfl
  · refine ⟨rfl, ?_, trivial, by decide⟩
    apply wf_of_union_disjoint
    · rfl
    · intro t u _; cases t <;> cases u <;> first | contradiction | decide +kernel
    · intro i hi
      have : ∀ j : Fin 64, bit exC12b.board.p1 j.1 = true → bit exC12b.board.all j.1 = true := by
        decide +kernel
      exact this ⟨i, hi⟩
  · intro k c hk hc ht
    exfalso
    have h4 : ∀ j : Fin 64, isTrap j.1 = true → absBoard exC12b.board j.1 = none := by decide +kernel
    rw [h4 ⟨k, hk⟩ ht] at hc
    cases hc

/-- the push start "Silver rabbit d5 north" is offered … -/
example : Action.move 27 .up ∈ exC12b.validActionsNoRep := by decide +kernel

/-- … it leads to a state with a pending push satisfying the invariant … -/
example : ∃ pp', PlayInvP (exC12b.takeAction (.move 27 .up)) pp' ∧
    pp'.pps = .mustCompletePush 27 .rabbit := by
  obtain ⟨pp', h'⟩ := playInvP_step _ _ exC12b_inv (.move 27 .up) (by decide +kernel)
  refine ⟨pp', h', ?_⟩
  have hph := congrArg GameState.phase
    (movePiece_lt3 exC12b (PlayPhase.initial 0 [0]) 27 .up rfl (by decide))
  rw [play_inj h'.1.phase hph]
  decide +kernel

/-- … in which the elephant's step into d5 is offered. -/
example : Action.move 35 .up ∈ (exC12b.takeAction (.move 27 .up)).validActionsNoRep := by decide +kernel

end Arimaa
