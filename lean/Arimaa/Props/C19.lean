import Arimaa.Lemmas.NoPanic

/-!
C19 — No public query or offered action panics on a reachable state.

Property text: "On every reachable state, listing actions (with or without repetition rules), asking
for the result, the pass and move availability, the hash, the printed form, the capture preview of
any offered action, the boards of earlier steps of the turn, and applying any offered action all
return normally, also when integer-overflow and shift-overflow checks are enabled."

`Impl/Panics.lean` puts an executable guard next to every model function whose Rust original can
panic (`panics_q s = true` exactly when the code panics; validated against the crate under
`catch_unwind` on crafted unreachable states).  The theorems below say that every guard is `false`
on reachable states.

* reachable (`NoPanic.Reach`): closure of `GameState::initial()` and of every parsed position under
  the rule-only list `valid_actions_no_rep()`, which contains the offered list `valid_actions()`;
* "offered action" is taken at its largest: every action of `valid_actions_no_rep()`;
* `current_step` and `piece_board_for_step` are play-phase queries: in setup they panic by design
  (`C19_setup_step_queries_panic_by_design`, DESIGN section 5);
* finding F4: `move_number + 1` overflows at `usize::MAX`; the theorems carry `moveNo < usizeMax`
  and `C19_overflow_point` shows the excluded point does panic.
-/
namespace Arimaa
open Gen Spec GameState NoPanic

/-- **Play phase.**  On a play-phase state with the invariants of reachable states — `PlayInv`:
well-formed board, the push/pull status names an on-board empty square, `step ≤ 3`; a hashable status
(no pulling rabbit, no pushed elephant); move number below `usize::MAX` — none of the queries
`valid_actions`, `valid_actions_no_rep`, `is_terminal`, `has_move`, `can_pass(false/true)`,
`transposition_hash`, `Display`, `current_step` panics; for every action of the rule-only list the
capture preview, `take_action` and printing the action do not panic; `piece_board_for_step(i)` does
not panic for `i ≤ step` (and does, by an out-of-range index, for every `i > step`). -/
theorem C19_no_panic_play (s : GameState) (pp : PlayPhase) (h : PlayInv s pp)
    (hh : StatusHashable pp.pps) (hm : s.moveNo < usizeMax) :
    (panics_valid_actions s = false ∧ panics_valid_actions_no_rep s = false ∧
      panics_is_terminal s = false ∧ panics_has_move s = false ∧
      panics_can_pass s false = false ∧ panics_can_pass s true = false ∧
      panics_transposition_hash s = false ∧ panics_display s = false ∧
      panics_current_step s = false) ∧
    (∀ a ∈ s.validActionsNoRep,
      panics_preview s a = false ∧ panics_take s a = false ∧ showActionPanics a = false) ∧
    (∀ i, i ≤ pp.step → panics_pbs s i = false) ∧
    (∀ i, pp.step < i → panics_pbs s i = true) := by
  refine ⟨⟨validActions_Panics_false s pp h true, validActions_Panics_false s pp h false,
    isTerminalPanics_false s pp h, hasMovePanics_false s pp h, canPassPanics_false s pp h false,
    canPassPanics_false s pp h true, transpositionHashPanics_false s pp ⟨h, hh⟩,
    showStatePanics_false s, stepPanics_false s pp h.phase⟩, ?_,
    pieceBoardForStepPanics_false s pp h.phase, pieceBoardForStepPanics_true s pp h.phase⟩
  intro a ha
  cases a with
  | place p => exact (validActions_play_notPlace s pp h.phase false _ ha).elim
  | pass =>
    exact ⟨rfl, passPanics_false s pp h hm, rfl⟩
  | move i d =>
    obtain ⟨hi, _⟩ := offered_step_facts s pp h i d ha
    refine ⟨?_, movePiecePanics_false s pp h i d hi hm, ?_⟩
    · show s.trappedAnimalForActionPanics (.move i d) = false
      rw [trappedAnimalForActionPanics_eq]
      exact sqBitPanics_false hi
    · simp only [showActionPanics, showSquarePanics, sqRowPanics, decide_eq_false_iff_not]
      have h8 : BOARD_WIDTH = 8 := by decide
      have h8' : BOARD_HEIGHT = 8 := by decide
      rw [h8, h8']; omega

/-- every entry of the driver's `panicReport` is `false` under the same hypotheses -/
theorem C19_panicReport_clean (s : GameState) (pp : PlayPhase) (h : PlayInv s pp)
    (hh : StatusHashable pp.pps) (hm : s.moveNo < usizeMax) :
    ∀ q ∈ panicReport s, q.2 = false := by
  obtain ⟨⟨h1, h2, h3, h4, h5, h6, h7, h8, h9⟩, _⟩ := C19_no_panic_play s pp h hh hm
  intro q hq
  simp only [panicReport, List.mem_cons, List.not_mem_nil, or_false] at hq
  rcases hq with rfl | rfl | rfl | rfl | rfl | rfl | rfl | rfl | rfl <;> assumption

/-- **Setup phase.**  After fewer than 32 offered placements from the initial state, the queries
`valid_actions`, `valid_actions_no_rep`, `is_terminal`, `has_move`, `can_pass`,
`transposition_hash` and `Display` do not panic, and neither do `take_action`, the capture preview
and printing for any offered placement (`placement_bit` finds a free square, so `first_set_bit`
never shifts by 64). -/
theorem C19_no_panic_setup {ps : List Piece} {s : GameState} (hr : SetupRun ps s) (hlt : ps.length < 32) :
    (panics_valid_actions s = false ∧ panics_valid_actions_no_rep s = false ∧
      panics_is_terminal s = false ∧ panics_has_move s = false ∧
      panics_can_pass s false = false ∧ panics_can_pass s true = false ∧
      panics_transposition_hash s = false ∧ panics_display s = false) ∧
    (∀ a ∈ s.validActionsNoRep,
      panics_preview s a = false ∧ panics_take s a = false ∧ showActionPanics a = false) := by
  have hs := (setupRun_shape hr hlt).1
  obtain ⟨h1, h2, h3, h4, h5, h6⟩ := place_queries_no_panic s hs.phase
  refine ⟨⟨h1, h2, h3, h4 _, h5 _, h5 _, h6, showStatePanics_false s⟩, ?_⟩
  intro a ha
  unfold validActionsNoRep at ha
  rw [validActions__place s hs.phase] at ha
  obtain ⟨p, hp⟩ := isMove_of_mem_validPlacement_false s a ha
  subst hp
  exact ⟨rfl, placePanics_false_setup hs p, rfl⟩

/-- **Setup has no turn steps.**  `current_step` and `piece_board_for_step(i)` (every `i`) DO panic
in the place phase ("Expected phase to be PlayPhase"): the property's "boards of earlier steps of
the turn" is a play-phase query. -/
theorem C19_setup_step_queries_panic_by_design {ps : List Piece} {s : GameState} (hr : SetupRun ps s)
    (hlt : ps.length < 32) : panics_current_step s = true ∧ ∀ i, panics_pbs s i = true :=
  place_step_queries_panic s (setupRun_shape hr hlt).1.phase

/-- **The invariants are those of reachable states**: a reachable state is a setup state after fewer
than 32 offered placements or a play-phase state satisfying `PlayInv` with a hashable status; the
bundle holds after the last placement and after parsing, and every action of the rule-only list
preserves it (the hashable part is `C12_status_hashable`). -/
theorem C19_reachable_invariants :
    (∀ s, Reach s → (∃ ps, SetupRun ps s ∧ ps.length < 32) ∨ (∃ pp, PlayInv s pp ∧ StatusHashable pp.pps)) ∧
    (∀ ps s, SetupRun ps s → ps.length = 32 → ∃ pp, PlayInv s pp ∧ StatusHashable pp.pps) ∧
    (∀ t s, parseState t = .ok s → ∃ pp, PlayInv s pp ∧ StatusHashable pp.pps) ∧
    (∀ s pp a, PlayInv s pp → StatusHashable pp.pps → a ∈ s.validActionsNoRep →
      ∃ pp', PlayInv (s.takeAction a) pp' ∧ StatusHashable pp'.pps) := by
  refine ⟨?_, ?_, ?_, ?_⟩
  · intro s hr
    rcases reach_cases hr with h | ⟨pp, h⟩
    · exact Or.inl h
    · exact Or.inr ⟨pp, h.play, h.hashable⟩
  · intro ps s hr h32
    obtain ⟨pp, h⟩ := panicInv_of_setup hr h32
    exact ⟨pp, h.play, h.hashable⟩
  · intro t s hp
    obtain ⟨pp, h⟩ := panicInv_parsed t s hp
    exact ⟨pp, h.play, h.hashable⟩
  · intro s pp a h hh ha
    obtain ⟨pp', h'⟩ := panicInv_step s pp ⟨h, hh⟩ a ha
    exact ⟨pp', h'.play, h'.hashable⟩

/-- **C19.**  On every reachable state whose move number is below `usize::MAX` (finding F4), in
setup and in play: listing actions with or without repetition rules, `is_terminal`, `has_move`,
`can_pass`, `transposition_hash` and `Display` do not panic; for every action of the rule-only list
(hence for every offered action) the capture preview and `take_action` do not panic (nor does
printing the action); in the play phase `current_step` and `piece_board_for_step(i)` for every
`i ≤ current_step` do not panic. -/
theorem C19_no_panic (s : GameState) (hr : Reach s) (hm : s.moveNo < usizeMax) :
    (panics_valid_actions s = false ∧ panics_valid_actions_no_rep s = false ∧
      panics_is_terminal s = false ∧ panics_has_move s = false ∧
      panics_can_pass s false = false ∧ panics_can_pass s true = false ∧
      panics_transposition_hash s = false ∧ panics_display s = false) ∧
    (∀ a ∈ s.validActionsNoRep,
      panics_preview s a = false ∧ panics_take s a = false ∧ showActionPanics a = false) ∧
    (∀ a ∈ s.validActions, panics_preview s a = false ∧ panics_take s a = false) ∧
    (∀ pp, s.phase = .play pp →
      panics_current_step s = false ∧ ∀ i, i ≤ pp.step → panics_pbs s i = false) := by
  have main : (panics_valid_actions s = false ∧ panics_valid_actions_no_rep s = false ∧
      panics_is_terminal s = false ∧ panics_has_move s = false ∧
      panics_can_pass s false = false ∧ panics_can_pass s true = false ∧
      panics_transposition_hash s = false ∧ panics_display s = false) ∧
    (∀ a ∈ s.validActionsNoRep,
      panics_preview s a = false ∧ panics_take s a = false ∧ showActionPanics a = false) ∧
    (∀ pp, s.phase = .play pp →
      panics_current_step s = false ∧ ∀ i, i ≤ pp.step → panics_pbs s i = false) := by
    rcases reach_cases hr with ⟨ps, hsr, hlt⟩ | ⟨pp, hpi⟩
    · obtain ⟨hq, ha⟩ := C19_no_panic_setup hsr hlt
      refine ⟨hq, ha, ?_⟩
      intro pp hph
      rw [(setupRun_shape hsr hlt).1.phase] at hph
      cases hph
    · obtain ⟨⟨h1, h2, h3, h4, h5, h6, h7, h8, h9⟩, ha, hb, _⟩ :=
        C19_no_panic_play s pp hpi.play hpi.hashable hm
      refine ⟨⟨h1, h2, h3, h4, h5, h6, h7, h8⟩, ha, ?_⟩
      intro pp' hph
      have : pp' = pp := by rw [hpi.play.phase] at hph; injection hph with e; exact e.symm
      subst this
      exact ⟨h9, hb⟩
  obtain ⟨hq, ha, hp⟩ := main
  refine ⟨hq, ha, ?_, hp⟩
  intro a hv
  obtain ⟨h1, h2, _⟩ := ha a (mem_validActions_noRep s a hv)
  exact ⟨h1, h2⟩

/-- the successor of a reachable state by an offered action is reachable (so `C19_no_panic` applies
along every game) -/
theorem C19_reach_closed (s : GameState) (hr : Reach s) (a : Action) (ha : a ∈ s.validActions) :
    Reach (s.takeAction a) := hr.step_offered ha

/-- **Finding F4 (the excluded point).**  At `moveNo = usize::MAX` with Silver to move the guard of
`take_action` is TRUE for a pass and for a fourth step (`move_number + 1` overflows); the pass is in
the rule-only list as soon as one step was made and no push is pending. -/
theorem C19_overflow_point (s : GameState) (pp : PlayPhase) (hph : s.phase = .play pp)
    (hmax : s.moveNo = usizeMax) (hsilver : s.p1Turn = false) :
    panics_take s .pass = true ∧
    (pp.step ≥ 3 → ∀ sq d, panics_take s (.move sq d) = true) ∧
    (pp.step ≥ 1 → pp.pps.isMustCompletePush = false → Action.pass ∈ s.validActionsNoRep) := by
  refine ⟨?_, ?_, ?_⟩
  · simp [panics_take, takeActionPanics, passPanics, hph, hsilver, hmax, usizeAddPanics]
  · intro h3 sq d
    have h3' : decide (pp.step ≥ 3) = true := by simpa using h3
    simp [panics_take, takeActionPanics, movePiecePanics, hph, hsilver, hmax, usizeAddPanics, h3']
  · intro h1 hm
    rw [validActionsNoRep, pass_mem_validActions__iff, canPass_play s pp hph, hm]
    simpa using h1

/-- **The capture preview panics only for an off-board source square** — on EVERY state, reachable
or not: the `unwrap` in `trapped_animal_for_action` cannot fail (a trapped bit is a bit of
`all_pieces`), so no trap-related hypothesis (`NoHanging`) is needed. -/
theorem C19_preview_sites (s : GameState) (a : Action) :
    panics_preview s a = (match a with | .move sq _ => decide (sq ≥ 64) | _ => false) :=
  trappedAnimalForActionPanics_eq s a

/-- **Printing a state never panics**, on any state. -/
theorem C19_display_total (s : GameState) : panics_display s = false := showStatePanics_false s

/-- **The guards do fire off the invariants** (each invariant clause is needed): a pushed elephant
or a pulling rabbit in the status panics the hash; a status square `≥ 64` panics the listing; five
recorded boards (`step = 4`) panic `can_pass(true)`; a step from square `≥ 64` panics preview and
`take_action`; a placement on a board without a free home square panics. -/
theorem C19_guards_fire (s : GameState) (pp : PlayPhase) (hph : s.phase = .play pp) :
    (∀ q, pp.pps = .mustCompletePush q .elephant → panics_transposition_hash s = true) ∧
    (∀ q, pp.pps = .possiblePull q .rabbit → panics_transposition_hash s = true) ∧
    (∀ q x, 64 ≤ q → pp.pps = .possiblePull q x →
      panics_valid_actions s = true ∧ panics_valid_actions_no_rep s = true) ∧
    (∀ q v, 64 ≤ q → pp.pps = .mustCompletePush q v →
      panics_valid_actions s = true ∧ panics_valid_actions_no_rep s = true) ∧
    (4 ≤ pp.step → pp.pps.isMustCompletePush = false → panics_can_pass s true = true) ∧
    (∀ sq d, 64 ≤ sq → panics_preview s (.move sq d) = true ∧ panics_take s (.move sq d) = true) := by
  refine ⟨?_, ?_, ?_, ?_, ?_, ?_⟩
  · intro q hq
    simp [panics_transposition_hash, transpositionHashPanics, hph, hq, zWithPPSPanics,
      pushPieceValuePanics, pushValueIdx]
  · intro q hq
    simp [panics_transposition_hash, transpositionHashPanics, hph, hq, zWithPPSPanics,
      pullPieceValuePanics, pullValueIdx]
  · intro q x h64 hq
    simp [panics_valid_actions, panics_valid_actions_no_rep, validActionsPanics, validActionsNoRepPanics,
      validActions_Panics, hph, hq, PPS.isMustCompletePush, pullExtendPanics, sqBitPanics_true h64]
  · intro q v h64 hq
    simp [panics_valid_actions, panics_valid_actions_no_rep, validActionsPanics, validActionsNoRepPanics,
      validActions_Panics, hph, hq, PPS.isMustCompletePush, mustCompletePushActionsPanics,
      sqBitPanics_true h64]
  · intro h4 hm
    have h1 : decide (pp.step ≥ 1) = true := by simp; omega
    simp [panics_can_pass, canPassPanics, hph, hm, h1, zExcludeStepPanics, stepValuePanics_true h4]
  · intro sq d h64
    constructor
    · rw [C19_preview_sites]; simpa using h64
    · simp [panics_take, takeActionPanics, movePiecePanics, hph, Board.takeActionPanics,
        Board.movePiecePanics, sqBitPanics_true h64]

/-- **The repetition-filter guard ranges over the right list**: `rawActions` of `Impl/Panics.lean`
is exactly the vector `valid_actions_` holds before `remove_passing_like_actions`. -/
theorem C19_guard_list (s : GameState) (pp : PlayPhase) (hph : s.phase = .play pp) (r : Bool) :
    s.validActions_ r =
      if r then s.removePassingLikeActions pp (s.rawActions pp r) else s.rawActions pp r :=
  validActions__eq_raw s pp hph r

/-! ### non-vacuity -/

/-- Gold elephant just stepped d4→d5 (bit 35 → 27); Silver rabbit on d3 (bit 43) can be pulled to d4;
one rabbit each at home; one step made, Gold to move -/
def exBoardC19 : Board :=
  Board.new (sqBit 27 ||| sqBit 60) (sqBit 27) 0 0 0 0 (sqBit 43 ||| sqBit 60 ||| sqBit 3)

def exPlayC19 : PlayPhase :=
  { prev := [exBoardC19], pps := .possiblePull 35 .elephant, initHash := 0, hist := [0], trapped := false }

def exC19 : GameState :=
  { p1Turn := true, moveNo := 2, hash := 1, board := exBoardC19, phase := .play exPlayC19 }

theorem exBoardC19_wf : WF exBoardC19 := by
  constructor
  · intro i hi
    have : ∀ j : Fin 64,
        (bit exBoardC19.elephants j.1).toNat + (bit exBoardC19.camels j.1).toNat +
          (bit exBoardC19.horses j.1).toNat + (bit exBoardC19.dogs j.1).toNat +
          (bit exBoardC19.cats j.1).toNat + (bit exBoardC19.rabbits j.1).toNat ≤ 1 := by decide +kernel
    exact this ⟨i, hi⟩
  · intro i hi
    have : ∀ j : Fin 64, bit exBoardC19.all j.1 =
        (bit exBoardC19.elephants j.1 || bit exBoardC19.camels j.1 || bit exBoardC19.horses j.1 ||
          bit exBoardC19.dogs j.1 || bit exBoardC19.cats j.1 || bit exBoardC19.rabbits j.1) := by
      decide +kernel
    exact this ⟨i, hi⟩
  · intro i hi
    have : ∀ j : Fin 64, bit exBoardC19.p1 j.1 = true → bit exBoardC19.all j.1 = true := by decide +kernel
    exact this ⟨i, hi⟩

/-- the hypotheses of `C19_no_panic_play` are satisfiable, with a pending status and `step > 0` -/
example : PlayInv exC19 exPlayC19 ∧ StatusHashable exPlayC19.pps ∧ exC19.moveNo < usizeMax ∧
    exPlayC19.step = 1 :=
  ⟨⟨rfl, exBoardC19_wf, ⟨by decide, by decide +kernel⟩, by decide⟩, by simp [exPlayC19, StatusHashable],
    by decide, rfl⟩

/-- … and on that state every guard evaluates to `false`, for every listed action too (the list
contains the pull `d3n`, the pass, and own steps) -/
example : (panicReport exC19).all (fun q => !q.2) = true := by decide +kernel
example : exC19.validActionsNoRep.all (fun a => !panics_preview exC19 a && !panics_take exC19 a) = true := by
  decide +kernel
example : Action.move 43 .up ∈ exC19.validActionsNoRep ∧ Action.pass ∈ exC19.validActionsNoRep := by
  decide +kernel
example : panics_pbs exC19 0 = false ∧ panics_pbs exC19 1 = false ∧ panics_pbs exC19 2 = true := by
  decide

/-- the initial state is reachable and in setup; a parsed position is reachable -/
example : Reach GameState.initial := Reach.initial
example : ∃ s, Reach s ∧ ∃ pp, s.phase = .play pp := ⟨_, Reach.parsed "2g".toList _ rfl, _, rfl⟩
example : SetupRun [] GameState.initial ∧ ([] : List Piece).length < 32 := ⟨SetupRun.init, by decide⟩
example : (GameState.initial.validActionsNoRep.all
    (fun a => !panics_take GameState.initial a)) = true := by decide +kernel
example : panics_current_step GameState.initial = true := rfl

/-- unreachable states on which single guards are `true` -/
example : panics_transposition_hash
    { exC19 with phase := .play { exPlayC19 with pps := .mustCompletePush 35 .elephant } } = true := by
  decide +kernel
example : panics_transposition_hash
    { exC19 with phase := .play { exPlayC19 with pps := .possiblePull 35 .rabbit } } = true := by
  decide +kernel
example : panics_valid_actions
    { exC19 with phase := .play { exPlayC19 with pps := .possiblePull 64 .elephant } } = true := by
  decide +kernel
example : panics_can_pass
    { exC19 with phase := .play { exPlayC19 with prev := List.replicate 4 exBoardC19 } } true = true := by
  decide +kernel
/-- four recorded boards and no capture: `has_move` reaches `is_passing_like_action` → `STEP_VALUES[4]` -/
example : panics_is_terminal
    { exC19 with phase := .play { exPlayC19 with prev := List.replicate 4 exBoardC19, pps := .none } } = true := by
  decide +kernel
example : panics_take exC19 (.move 64 .up) = true ∧ panics_preview exC19 (.move 64 .up) = true := by
  decide +kernel
/-- a placement in the play phase on a board whose home squares are all taken: `first_set_bit(0)` -/
example : panics_take { exC19 with board := Board.new 0xffff000000000000#64 0 0 0 0 0 0xffff00000000ffff#64 }
    (.place .cat) = true := by decide +kernel
/-- F4: Silver passes at `usize::MAX` -/
example : panics_take { exC19 with p1Turn := false, moveNo := usizeMax } .pass = true := by decide +kernel
example : panics_take { exC19 with p1Turn := false, moveNo := usizeMax - 1 } .pass = false := by decide +kernel
/-- a step of an enemy piece while the status names square 200: `move_can_be_counted_as_pull` shifts by 200 -/
example : panics_take { exC19 with phase := .play { exPlayC19 with pps := .possiblePull 200 .elephant } }
    (.move 43 .up) = true := by decide +kernel
/-- `Square::row` / `Square::new` (notation; not reachable from `GameState` queries) -/
example : sqRowPanics 71 = false ∧ sqRowPanics 72 = true ∧ sqNewPanics '`' 1 = true ∧
    sqNewPanics 'a' 9 = true ∧ sqNewPanics 'h' 8 = false := by decide

end Arimaa
