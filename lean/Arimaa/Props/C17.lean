import Arimaa.Lemmas.HashDelta

/-!
C17 — changing one hashed feature always changes the transposition hash.

States are the play-phase records `mkPlay b side n pp` (`Lemmas/HashDelta.lean`): board `b`, side to
move `side` (`true` = Gold), move number `n`, play-phase record `pp` (step = `pp.step`, pending
push/pull = `pp.pps`), and `hash := Zobrist::from_piece_board(b, side, pp.step)` — what
`GameState::new` + `PlayPhase::new` build.  All theorems quantify over ALL boards / backgrounds.
-/
namespace Arimaa
open Gen

/-! ### table obligations (checked by kernel evaluation against the generated tables) -/

/-- T1: the side-to-move constant is not zero. -/
theorem C17_T1 : Z_PLAYER_TO_MOVE ≠ 0 := playerToMove_ne_zero

/-- T2: the four step constants are pairwise distinct (raw table, and as looked up by the model
for steps 0..3). -/
theorem C17_T2 : Z_STEP_VALUES.length = 4 ∧ Z_STEP_VALUES.Nodup ∧
    ∀ i j, i < 4 → j < 4 → i ≠ j → stepValueAt i ≠ stepValueAt j :=
  ⟨stepValues_length, stepValues_nodup, stepValueAt_inj⟩

/-- T3: for each of the 64 squares, `0` and the twelve `SQUARE_VALUES[row][sq]` are pairwise
distinct (raw table), and the thirteen values the model's `piece_value` attaches to the thirteen
possible contents of the square (empty = 0) are pairwise distinct. -/
theorem C17_T3 (sq : Nat) (hsq : sq < 64) :
    (0 :: Z_SQUARE_VALUES.map (fun row => row.getD sq 0)).Nodup ∧
    ∀ c c' : Option (Bool × Piece), c ≠ c' → contentValue sq c ≠ contentValue sq c' :=
  ⟨squareValues_columns_nodup sq hsq, contentValue_inj sq hsq⟩

/-- T4: `SQUARE_VALUES` has twelve rows of 64 pairwise distinct entries each (raw table), and the
model's `piece_value` of one (owner, piece) on two different squares differs. -/
theorem C17_T4 : Z_SQUARE_VALUES.length = 12 ∧
    (∀ row ∈ Z_SQUARE_VALUES, row.length = 64 ∧ row.Nodup) ∧
    ∀ (o : Bool) (p : Piece) (i j : Nat), i < 64 → j < 64 → i ≠ j →
      pieceValue i p o ≠ pieceValue j p o :=
  ⟨squareValues_length, squareValues_rows_nodup, pieceValue_sq_inj⟩

/-- T5: the 641 values `0 :: PUSH_VALUES (all) ++ POSSIBLE_PULL_VALUES (all)` are pairwise distinct
(raw tables), they are exactly the values the model's `push_piece_value` / `pull_piece_value`
attach to the 641 valid statuses, and so different valid statuses have different values. -/
theorem C17_T5 : pushPullValues.length = 641 ∧ pushPullValues.Nodup ∧
    allStatuses.map ppsValue = pushPullValues ∧
    ∀ a b : PPS, a.Valid → b.Valid → a ≠ b → ppsValue a ≠ ppsValue b :=
  ⟨pushPullValues_length, pushPullValues_nodup, allStatuses_values, ppsValue_inj⟩

/-! ### by how much the hash changes (independent of the table values) -/

/-- If two boards have the same `bits_for_piece` plane for every (owner, piece) except `(o, p)`, and
that plane differs exactly in bit `q` (a piece added or removed), the from-scratch hashes differ by
exactly `piece_value(q, p, o)`.  No well-formedness is needed. -/
theorem C17_delta_plane (b b' : Board) (o : Bool) (p : Piece) (q : Nat) (hq : q < 64)
    (hsame : ∀ op : Bool × Piece, op ≠ (o, p) →
      b'.bitsForPiece op.2 op.1 = b.bitsForPiece op.2 op.1)
    (hdiff : b'.bitsForPiece p o = b.bitsForPiece p o ^^^ sqBit q) (side : Bool) (step : Nat) :
    zFromPieceBoard b' side step = zFromPieceBoard b side step ^^^ pieceValue q p o := by
  rw [zFromPieceBoard_eq, zFromPieceBoard_eq, boardPart_plane_delta b b' o p q hq hsame hdiff]
  simp only [BitVec.xor_assoc]

/-- Two boards with at most one piece per square that have the same content on every square except
`q`: the from-scratch hashes differ by the XOR of the two table entries of square `q`
(entry 0 for an empty square). -/
theorem C17_delta_content (b b' : Board) (hb : b.AtMostOne) (hb' : b'.AtMostOne) (q : Nat)
    (hq : q < 64) (hsame : ∀ i, i < 64 → i ≠ q → b.contentAt i = b'.contentAt i)
    (side : Bool) (step : Nat) :
    zFromPieceBoard b side step ^^^ zFromPieceBoard b' side step =
      contentValue q (b.contentAt q) ^^^ contentValue q (b'.contentAt q) := by
  rw [zFromPieceBoard_xor, boardPart_xor_one b b' q hq, sqPart_eq_content b hb q hq,
    sqPart_eq_content b' hb' q hq]
  intro i hi hne
  rw [sqPart_eq_content b hb i hi, sqPart_eq_content b' hb' i hi, hsame i hi hne]

/-- Two boards with at most one piece per square, equal except that the piece `op` stands on `q₁`
(and `q₂` is empty) in the first and on `q₂` (and `q₁` is empty) in the second: the hashes differ by
`piece_value(q₁, op) ^^^ piece_value(q₂, op)`. -/
theorem C17_delta_moved (b b' : Board) (hb : b.AtMostOne) (hb' : b'.AtMostOne) (q₁ q₂ : Nat)
    (h1 : q₁ < 64) (h2 : q₂ < 64) (hne : q₁ ≠ q₂) (op : Bool × Piece)
    (hb1 : b.contentAt q₁ = some op) (hb2 : b.contentAt q₂ = none)
    (hb'1 : b'.contentAt q₁ = none) (hb'2 : b'.contentAt q₂ = some op)
    (hsame : ∀ i, i < 64 → i ≠ q₁ → i ≠ q₂ → b.contentAt i = b'.contentAt i)
    (side : Bool) (step : Nat) :
    zFromPieceBoard b side step ^^^ zFromPieceBoard b' side step =
      pieceValue q₁ op.2 op.1 ^^^ pieceValue q₂ op.2 op.1 := by
  rw [zFromPieceBoard_xor, boardPart_xor_two b b' q₁ q₂ h1 h2 hne]
  · rw [sqPart_eq_content b hb q₁ h1, sqPart_eq_content b' hb' q₁ h1, sqPart_eq_content b hb q₂ h2,
      sqPart_eq_content b' hb' q₂ h2, hb1, hb2, hb'1, hb'2]
    simp [contentValue]
  · intro i hi hn1 hn2
    rw [sqPart_eq_content b hb i hi, sqPart_eq_content b' hb' i hi, hsame i hi hn1 hn2]

/-- Changing only the side to move changes the from-scratch hash by `PLAYER_TO_MOVE`. -/
theorem C17_delta_side (b : Board) (step : Nat) :
    zFromPieceBoard b true step ^^^ zFromPieceBoard b false step = Z_PLAYER_TO_MOVE := by
  rw [zFromPieceBoard_eq, zFromPieceBoard_eq]
  simp only [if_true, Bool.false_eq_true, if_false, bb_xor_zero]
  generalize Z_INITIAL = a; generalize stepValueAt step = c; generalize boardPart b = d
  generalize Z_PLAYER_TO_MOVE = m
  have : a ^^^ c ^^^ d ^^^ (a ^^^ m ^^^ c ^^^ d) = (a ^^^ a) ^^^ (c ^^^ c) ^^^ (d ^^^ d) ^^^ m := by
    ac_rfl
  rw [this]; simp

/-- Changing only the step number changes the from-scratch hash by the XOR of the two step
constants. -/
theorem C17_delta_step (b : Board) (side : Bool) (i j : Nat) :
    zFromPieceBoard b side i ^^^ zFromPieceBoard b side j = stepValueAt i ^^^ stepValueAt j := by
  rw [zFromPieceBoard_eq, zFromPieceBoard_eq]
  generalize Z_INITIAL ^^^ (if side then 0 else Z_PLAYER_TO_MOVE) = a
  generalize stepValueAt i = c; generalize stepValueAt j = c'; generalize boardPart b = d
  have : a ^^^ c ^^^ d ^^^ (a ^^^ c' ^^^ d) = (a ^^^ a) ^^^ (d ^^^ d) ^^^ (c ^^^ c') := by ac_rfl
  rw [this]; simp

/-- Changing only the pending push/pull changes the transposition hash by the XOR of the two status
entries (entry 0 for "none"). -/
theorem C17_delta_status (b : Board) (side : Bool) (n : Nat) (pp pp' : PlayPhase)
    (hstep : pp.step = pp'.step) :
    (mkPlay b side n pp).transpositionHash ^^^ (mkPlay b side n pp').transpositionHash =
      ppsValue pp.pps ^^^ ppsValue pp'.pps := by
  rw [transpositionHash_mkPlay, transpositionHash_mkPlay, hstep]
  generalize zFromPieceBoard b side pp'.step = z
  generalize ppsValue pp.pps = v; generalize ppsValue pp'.pps = v'
  have : z ^^^ v ^^^ (z ^^^ v') = (z ^^^ z) ^^^ (v ^^^ v') := by ac_rfl
  rw [this]; simp

/-! ### the property: one changed feature, different transposition hash -/

/-- Content of one square.  Two play-phase states with the same side, step, pending status and the
same content on every square but `q`, whose boards (at most one piece per square) have different
content on `q` — any two of the 13 possibilities: empty or one of 12 (owner, piece) — have
different transposition hashes. -/
theorem C17_content (b b' : Board) (hb : b.AtMostOne) (hb' : b'.AtMostOne) (q : Nat) (hq : q < 64)
    (hsame : ∀ i, i < 64 → i ≠ q → b.contentAt i = b'.contentAt i)
    (hdiff : b.contentAt q ≠ b'.contentAt q) (side : Bool) (n : Nat) (pp : PlayPhase) :
    (mkPlay b side n pp).transpositionHash ≠ (mkPlay b' side n pp).transpositionHash := by
  rw [transpositionHash_mkPlay, transpositionHash_mkPlay]
  intro h
  rw [xor_right_inj, ← xor_eq_zero_iff, C17_delta_content b b' hb hb' q hq hsame, xor_eq_zero_iff] at h
  exact contentValue_inj q hq _ _ hdiff h

/-- Side to move.  Two play-phase states equal except for the side to move have different
transposition hashes (any board, step, status). -/
theorem C17_side (b : Board) (n : Nat) (pp : PlayPhase) :
    (mkPlay b true n pp).transpositionHash ≠ (mkPlay b false n pp).transpositionHash := by
  rw [transpositionHash_mkPlay, transpositionHash_mkPlay]
  intro h
  rw [xor_right_inj, ← xor_eq_zero_iff, C17_delta_side] at h
  exact playerToMove_ne_zero h

/-- Step number.  Two play-phase states with the same board, side and pending status but different
step numbers in 0..3 have different transposition hashes.  (The other fields of the two play-phase
records are unconstrained.) -/
theorem C17_step (b : Board) (side : Bool) (n : Nat) (pp pp' : PlayPhase) (hpps : pp.pps = pp'.pps)
    (h3 : pp.step ≤ 3) (h3' : pp'.step ≤ 3) (hne : pp.step ≠ pp'.step) :
    (mkPlay b side n pp).transpositionHash ≠ (mkPlay b side n pp').transpositionHash := by
  rw [transpositionHash_mkPlay, transpositionHash_mkPlay, hpps]
  intro h
  rw [xor_right_inj, ← xor_eq_zero_iff, C17_delta_step, xor_eq_zero_iff] at h
  exact stepValueAt_inj _ _ (by omega) (by omega) hne h

/-- Pending push/pull.  Two play-phase states with the same board, side and step whose statuses are
different valid statuses — none / possible pull (square < 64, piece ≠ rabbit) / must complete push
(square < 64, piece ≠ elephant); different kind, square or piece type — have different
transposition hashes. -/
theorem C17_status (b : Board) (side : Bool) (n : Nat) (pp pp' : PlayPhase)
    (hstep : pp.step = pp'.step) (hv : pp.pps.Valid) (hv' : pp'.pps.Valid)
    (hne : pp.pps ≠ pp'.pps) :
    (mkPlay b side n pp).transpositionHash ≠ (mkPlay b side n pp').transpositionHash := by
  intro h
  rw [← xor_eq_zero_iff, C17_delta_status b side n pp pp' hstep, xor_eq_zero_iff] at h
  exact ppsValue_inj _ _ hv hv' hne h

/-- One piece on a different square.  Two play-phase states with the same side, step and status
whose boards (at most one piece per square) are equal except that piece `op` stands on `q₁` in one
and on `q₂ ≠ q₁` in the other have different transposition hashes. -/
theorem C17_piece_moved (b b' : Board) (hb : b.AtMostOne) (hb' : b'.AtMostOne) (q₁ q₂ : Nat)
    (h1 : q₁ < 64) (h2 : q₂ < 64) (hne : q₁ ≠ q₂) (op : Bool × Piece)
    (hb1 : b.contentAt q₁ = some op) (hb2 : b.contentAt q₂ = none)
    (hb'1 : b'.contentAt q₁ = none) (hb'2 : b'.contentAt q₂ = some op)
    (hsame : ∀ i, i < 64 → i ≠ q₁ → i ≠ q₂ → b.contentAt i = b'.contentAt i)
    (side : Bool) (n : Nat) (pp : PlayPhase) :
    (mkPlay b side n pp).transpositionHash ≠ (mkPlay b' side n pp).transpositionHash := by
  rw [transpositionHash_mkPlay, transpositionHash_mkPlay]
  intro h
  rw [xor_right_inj, ← xor_eq_zero_iff,
    C17_delta_moved b b' hb hb' q₁ q₂ h1 h2 hne op hb1 hb2 hb'1 hb'2 hsame, xor_eq_zero_iff] at h
  exact pieceValue_sq_inj op.1 op.2 q₁ q₂ h1 h2 hne h

/-! ### non-vacuity: the hypotheses are satisfiable on concrete boards -/

section Examples

/-- gold elephant d2 (51), silver rabbit a8 (0), gold cat e4 (36) -/
private def exA : Board := Board.new (sqBit 51 ||| sqBit 36) (sqBit 51) 0 0 0 (sqBit 36) (sqBit 0)
/-- the same with the cat replaced by a silver dog -/
private def exB_C17 : Board := Board.new (sqBit 51) (sqBit 51) 0 0 (sqBit 36) 0 (sqBit 0)
/-- `exA` with the cat on e5 (28) instead of e4 -/
private def exC : Board := Board.new (sqBit 51 ||| sqBit 28) (sqBit 51) 0 0 0 (sqBit 28) (sqBit 0)

example : exA.AtMostOne ∧ exB_C17.AtMostOne ∧ exC.AtMostOne := by decide +kernel

example (side : Bool) (n : Nat) (pp : PlayPhase) :
    (mkPlay exA side n pp).transpositionHash ≠ (mkPlay exB_C17 side n pp).transpositionHash :=
  C17_content exA exB_C17 (by decide +kernel) (by decide +kernel) 36 (by decide) (by decide +kernel)
    (by decide +kernel) side n pp

example (side : Bool) (n : Nat) (pp : PlayPhase) :
    (mkPlay exA side n pp).transpositionHash ≠ (mkPlay exC side n pp).transpositionHash :=
  C17_piece_moved exA exC (by decide +kernel) (by decide +kernel) 36 28 (by decide) (by decide)
    (by decide) (true, .cat) (by decide +kernel) (by decide +kernel) (by decide +kernel)
    (by decide +kernel) (by decide +kernel) side n pp

example : (PPS.possiblePull 12 .cat).Valid ∧ (PPS.mustCompletePush 12 .cat).Valid ∧
    PPS.none.Valid ∧ PPS.possiblePull 12 .cat ≠ PPS.mustCompletePush 12 .cat :=
  ⟨⟨by decide, by decide⟩, ⟨by decide, by decide⟩, trivial, by decide⟩

example : (mkPlay exA true 5 { (default : PlayPhase) with prev := [exB_C17], pps := .possiblePull 12 .cat }).transpositionHash
    ≠ (mkPlay exA true 5 { (default : PlayPhase) with prev := [exC], pps := .mustCompletePush 12 .cat }).transpositionHash :=
  C17_status _ _ _ _ _ rfl ⟨by decide, by decide⟩ ⟨by decide, by decide⟩ (by decide)

example : (mkPlay exA true 5 { (default : PlayPhase) with prev := [exB_C17] }).transpositionHash
    ≠ (mkPlay exA true 5 { (default : PlayPhase) with prev := [exB_C17, exC, exA] }).transpositionHash :=
  C17_step _ _ _ _ _ rfl (by decide) (by decide) (by decide)

end Examples

end Arimaa
