import Arimaa.Lemmas.ListLogic
import Arimaa.Lemmas.Turn

/-!
# C06 — repetition rules withhold only what they must (unconditional shape part)

Property text: the offered action list equals, in the same order, the rule-only list minus exactly
those turn-ending actions (pass, or a fourth step) whose result would equal the turn's starting
board or would be the third start-of-turn occurrence of that board with that side to move; actions
that do not end the turn are never withheld.  Forgetting the history at a capture never changes
which actions are offered.

This file proves the part that holds unconditionally (no hash-collision hypothesis):
`validActions` is `validActionsNoRep` filtered, in order, by a predicate `withheld` that is false
for every action that does not end the turn.  `withheld s pp a` (defined in `Lemmas/ListLogic.lean`)
is the code's own hash-level test:

* for `a = pass`: passing is allowed by the rules (`canPass false`) but not by the repetition check
  (`¬ canPass true`);
* for a step: `step = 3`, no capture this turn, and `isPassingLikeAction` (the hash of the result
  with the side not switched equals the turn-start hash, or the hash of the result occurs twice in
  the hash history).

NOT proved here (other work package; needs `CollisionFree`, and finding F8 shows that the
unconditional version is false): that the hash-level test coincides with the board-level one
("result equals the turn-start board / third occurrence"), and the capture clause.
-/
namespace Arimaa
open GameState

/-- **Filter shape.**  In a play-phase state the offered list is the rule-only list with exactly
the `withheld` actions removed, relative order kept. -/
theorem C06_filter_shape (s : GameState) (pp : PlayPhase) (hph : s.phase = .play pp) :
    s.validActions = s.validActionsNoRep.filter (fun a => !s.withheld pp a) :=
  validActions_filter_shape s pp hph

/-- Membership form of `C06_filter_shape`. -/
theorem C06_mem_iff (s : GameState) (pp : PlayPhase) (hph : s.phase = .play pp) (a : Action) :
    a ∈ s.validActions ↔ a ∈ s.validActionsNoRep ∧ s.withheld pp a = false := by
  rw [C06_filter_shape s pp hph, List.mem_filter]; simp

/-- **Same order.**  In every state (setup or play) the offered list is a sublist of the rule-only
list: same elements in the same relative order, some possibly missing. -/
theorem C06_sublist (s : GameState) : List.Sublist s.validActions s.validActionsNoRep := by
  cases hph : s.phase with
  | place =>
    unfold validActions validActionsNoRep
    rw [validActions__place s hph, validActions__place s hph]
    exact List.Sublist.refl _
  | play pp =>
    rw [C06_filter_shape s pp hph]
    exact List.filter_sublist

/-- Hash-level meaning of `withheld` for a step at `step = 3`: no capture this turn, and the hash
the resulting state would have if the side did not switch equals the turn-start hash, or the hash
of the state the step really leads to occurs at least twice in the hash history. -/
theorem C06_withheld_step_meaning (s : GameState) (pp : PlayPhase) (hph : s.phase = .play pp)
    (h3 : pp.step = 3) (sq : Nat) (d : Dir) :
    s.withheld pp (.move sq d) = true ↔
      pp.trapped = false ∧
      (zMovePiece s.hash s.p1Turn s.board pp.step (s.board.takeMove sq d).1 0 s.p1Turn =
          pp.initHash ∨
        histContainsTwice pp.hist (s.takeAction (.move sq d)).hash = true) := by
  have hh : (s.takeAction (.move sq d)).hash =
      zMovePiece s.hash s.p1Turn s.board pp.step (s.board.takeMove sq d).1 0 (!s.p1Turn) := by
    show (s.movePiece sq d).hash = _
    rw [movePiece_ge3 s pp sq d hph (by omega)]
  rw [hh]
  simp [withheld, isPassingLikeAction, h3]

/-- Hash-level meaning of `withheld` for the pass: a pass is possible by the rules (at least one
step made, no push pending) and the hash of the position with the step counter reset equals the
turn-start hash, or the hash of the state the pass leads to occurs at least twice in the hash
history. -/
theorem C06_withheld_pass_meaning (s : GameState) (pp : PlayPhase) (hph : s.phase = .play pp) :
    s.withheld pp .pass = true ↔
      (pp.step ≥ 1 ∧ pp.pps.isMustCompletePush = false) ∧
      (pp.initHash = zExcludeStep s.hash pp.step ∨
        histContainsTwice pp.hist (s.takeAction .pass).hash = true) := by
  have hh : (s.takeAction .pass).hash = zPass s.hash pp.step := by
    show s.pass.hash = _
    rw [pass_play s pp hph]
  rw [hh, withheld_pass, canPass_play s pp hph, canPass_play s pp hph]
  cases pp.pps.isMustCompletePush <;>
    cases histContainsTwice pp.hist (zPass s.hash pp.step) <;>
    by_cases h1 : pp.step ≥ 1 <;>
    by_cases h2 : pp.initHash = zExcludeStep s.hash pp.step <;> simp [h1, h2]

/-- **Only turn-ending actions are withheld.**  An action of the rule-only list that is not
offered is either the pass (allowed by the rules, refused by the repetition check) or a step made
at `step = 3` of a turn without capture that is passing-like; in both cases it ends the turn. -/
theorem C06_only_turn_ending_withheld (s : GameState) (pp : PlayPhase) (hph : s.phase = .play pp)
    (a : Action) (hin : a ∈ s.validActionsNoRep) (hout : a ∉ s.validActions) :
    ((a = .pass ∧ s.canPass false = true ∧ s.canPass true = false) ∨
      (pp.step = 3 ∧ pp.trapped = false ∧ (∃ sq d, a = .move sq d) ∧
        s.isPassingLikeAction pp a = true)) ∧
    endsTurn pp a = true := by
  have hw : s.withheld pp a = true := by
    cases h : s.withheld pp a
    · exact absurd ((C06_mem_iff s pp hph a).2 ⟨hin, h⟩) hout
    · rfl
  cases a with
  | pass =>
    rw [withheld_pass] at hw
    simp only [Bool.and_eq_true, Bool.not_eq_true'] at hw
    exact ⟨Or.inl ⟨rfl, hw.1, hw.2⟩, rfl⟩
  | place p => simp [withheld, isPassingLikeAction] at hw
  | move sq d =>
    simp only [withheld, Bool.or_eq_true, Bool.and_eq_true, beq_iff_eq, Bool.not_eq_true',
      reduceCtorEq, false_and, false_or] at hw
    refine ⟨Or.inr ⟨hw.1.1, hw.1.2, ⟨sq, d, rfl⟩, hw.2⟩, ?_⟩
    simp [endsTurn, hw.1.1]

/-- **Actions that do not end the turn are never withheld**: every step of the rule-only list made
before the fourth step of the turn is offered. -/
theorem C06_non_turn_ending_never_withheld (s : GameState) (pp : PlayPhase)
    (hph : s.phase = .play pp) (a : Action) (hin : a ∈ s.validActionsNoRep)
    (hne : endsTurn pp a = false) : a ∈ s.validActions := by
  apply Classical.byContradiction
  intro hout
  have := (C06_only_turn_ending_withheld s pp hph a hin hout).2
  rw [hne] at this
  cases this

/-- After a capture in the current turn no step is withheld (the code switches the filter off):
only the pass can then be missing. -/
theorem C06_after_capture_only_pass_withheld (s : GameState) (pp : PlayPhase)
    (hph : s.phase = .play pp) (ht : pp.trapped = true) (a : Action)
    (hin : a ∈ s.validActionsNoRep) (hout : a ∉ s.validActions) : a = .pass := by
  rcases (C06_only_turn_ending_withheld s pp hph a hin hout).1 with h | h
  · exact h.1
  · rw [ht] at h; cases h.2.1

/-! ## Non-vacuity -/

/-- Gold elephant alone on e4. -/
private def exB_C06 : Board := Board.new (sqBit 36) (sqBit 36) 0 0 0 0 0
/-- One step made; the turn-start hash is chosen so that a pass would restore the turn-start
position: the pass is in the rule-only list and is withheld. -/
private def ex1_C06 : GameState :=
  { p1Turn := true, moveNo := 2
    phase := .play { prev := [exB_C06], pps := .none, initHash := zExcludeStep 5 1, hist := [],
                     trapped := false }
    board := exB_C06, hash := 5 }

example : ex1_C06.validActionsNoRep =
    [.move 36 .up, .move 36 .right, .move 36 .down, .move 36 .left, .pass] ∧
    ex1_C06.validActions = [.move 36 .up, .move 36 .right, .move 36 .down, .move 36 .left] := by
  decide +kernel

example : Action.pass ∈ ex1_C06.validActionsNoRep ∧ Action.pass ∉ ex1_C06.validActions := by
  decide +kernel

end Arimaa
