import Arimaa.Props.C14
import Arimaa.Lemmas.RsAgreePrevBoards
import Arimaa.Lemmas.RsAgreeStep

/-!
# C14 — the property at the level of the REGENERATED code

`Gen/Rs.lean` is written by `tools/rs2lean2.py` from the current text of engine.rs / zobrist.rs on every
run; `Lemmas/RsAgree*.lean` prove that each regenerated function equals
`Res.guard (hand panic guard) (hand total function)`.  This file puts the agreement theorems of the
functions C14 rests on into the property's proof closure and restates them as one named obligation
(`C14_code_agrees`), plus corollaries that speak about the regenerated functions directly.  A change of
the Rust text of one of these functions breaks an obligation here without any test having to find the input.
-/
namespace Arimaa
open Gen GameState Arimaa.Gen.Rs Arimaa.Rt

theorem C14_value_of_ok {α : Type} {x : Res α} {p : Bool} {v w : α} (h : x = Res.guard p v) (hx : x = .ok w) :
    p = false ∧ w = v := by
  rw [h] at hx
  obtain ⟨hp, hv⟩ := Res.guard_eq_ok.mp hx
  exact ⟨hp, hv.symm⟩

/-- the agreement theorems C14 rests on, as one obligation -/
theorem C14_code_agrees :
    (∀ (s : GameState) (i : Nat), GameState_piece_board_for_step s i = Res.guard (s.pieceBoardForStepPanics i) (s.pieceBoardForStep i)) ∧
    (∀ (s : GameState) (a : Action), GameState_take_action s a = Res.guard (s.takeActionPanics a) (s.takeAction a)) :=
  ⟨RsAgree.piece_board_for_step_eq, RsAgree.take_action_eq⟩

theorem C14_code_board_for_step (s : GameState) (i : Nat) (b : Board)
    (h : GameState_piece_board_for_step s i = .ok b) : b = s.pieceBoardForStep i :=
  (C14_value_of_ok (RsAgree.piece_board_for_step_eq s i) h).2

end Arimaa
