import Arimaa.Props.C14
import Arimaa.Lemmas.RsAgreePrevBoards
import Arimaa.Lemmas.RsAgreeStep
import Arimaa.Gen.Bridge.GameState_piece_board_for_step
import Arimaa.Gen.Bridge.GameState_take_action

/-!
# C14 — the property at the level of the REGENERATED code

`Gen/Rs.lean` is written by `tools/rs2lean2.py` from the current text of engine.rs / zobrist.rs on every
run.  `Gen/Bridge/<fn>.lean` (generated) proves `@Rs.fn = @RsBase.fn` — the current text against the
baseline text — and `Lemmas/RsAgree*.lean` prove that each baseline function equals
`Res.guard (hand panic guard) (hand total function)`.  This file puts both, for the functions C14 rests
on, into the property's proof closure and restates them as one named obligation (`C14_code_agrees`) about
the CURRENT functions, plus corollaries that speak about them directly.  A change of the Rust text of one
of these functions that alters behaviour breaks an obligation here without any test having to find the input.
(written by tools/mkrprops.py)
-/
namespace Arimaa
open Gen GameState Arimaa.Gen.Rs Arimaa.Rt Arimaa.Gen.Bridge

theorem C14_value_of_ok {α : Type} {x : Res α} {p : Bool} {v w : α} (h : x = Res.guard p v) (hx : x = .ok w) :
    p = false ∧ w = v := by
  rw [h] at hx
  obtain ⟨hp, hv⟩ := Res.guard_eq_ok.mp hx
  exact ⟨hp, hv.symm⟩

/-- the agreement theorems C14 rests on, about the CURRENT functions, as one obligation -/
theorem C14_code_agrees :
    (∀ (s : GameState) (i : Nat), GameState_piece_board_for_step s i = Res.guard (s.pieceBoardForStepPanics i) (s.pieceBoardForStep i)) ∧
    (∀ (s : GameState) (a : Action), GameState_take_action s a = Res.guard (s.takeActionPanics a) (s.takeAction a)) :=
  ⟨(by simp only [bridge_GameState_piece_board_for_step]; exact RsAgree.piece_board_for_step_eq),
   (by simp only [bridge_GameState_take_action]; exact RsAgree.take_action_eq)⟩

theorem C14_code_board_for_step (s : GameState) (i : Nat) (r : Board)
    (h : GameState_piece_board_for_step s i = .ok r) : r = s.pieceBoardForStep i := by
  simp only [bridge_GameState_piece_board_for_step] at h
  exact (C14_value_of_ok (RsAgree.piece_board_for_step_eq s i) h).2

end Arimaa
