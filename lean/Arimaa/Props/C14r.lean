import Arimaa.Props.C14
import Arimaa.Lemmas.RsAgreePrevBoards
import Arimaa.Lemmas.RsAgreeStep
import Arimaa.Gen.Bridge.GameState_piece_board_for_step
import Arimaa.Gen.Bridge.GameState_take_action

/-!
# C14 — the property at the level of the REGENERATED code

`Gen/Rs.lean` is written by `tools/rs2lean2.py` from the current text of engine.rs / zobrist.rs on every
run.  `Gen/Bridge/<fn>.lean` (generated) proves `@Rs.fn = @RsBase.fn` — the current text against the
baseline text — and `Lemmas/RsAgree*.lean` prove that each baseline function equals
`Res.guard (hand panic guard) (hand total function)`.  This file puts both, for the functions C14 rests
on, into the property's proof closure and restates them as one named obligation (`C14_code_agrees`) about
the CURRENT functions, plus corollaries that speak about them directly.  A change of the Rust text of one
of these functions that alters behaviour breaks an obligation here without any test having to find the input.
(written by tools/mkrprops.py)
-/
namespace Arimaa
open Gen GameState Arimaa.Gen.Rs Arimaa.Rt Arimaa.Gen.Bridge

theorem C14_value_of_ok {α : Type} {x : Res α} {p : Bool} {v w : α} (h : x = Res.guard p v) (hx : x = .ok w) :
    p = false ∧ w = v := by
  rw [h] at hx
  obtain ⟨hp, hv⟩ := Res.guard_eq_ok.mp hx
  exact ⟨hp, hv.symm⟩

/-- the agreement theorems C14 rests on, about the CURRENT functions, as one obligation -/
theorem C14_code_agrees :
    (∀ (s : GameState) (i : Nat), GameState_piece_board_for_step s i = Res.guard (s.pieceBoardForStepPanics i) (s.pieceBoardForStep i)) ∧
    (∀ (s : GameState) (a : Action), GameState_take_action s a = Res.guard (s.takeActionPanics a) (s.takeAction a)) :=
  ⟨(by simp only [bridge_GameState_piece_board_for_step]; exact RsAgree.piece_board_for_step_eq),
   (by simp only [bridge_GameState_take_action]; exact RsAgree.take_action_eq)⟩

theorem C14_code_board_for_step (s : GameState) (i : Nat) (r : Board)
    (h : GameState_piece_board_for_step s i = .ok r) : r = s.pieceBoardForStep i := by
  simp only [bridge_GameState_piece_board_for_step] at h
  exact (C14_value_of_ok (RsAgree.piece_board_for_step_eq s i) h).2

/-- steps applied one after the other by the regenerated `take_action`, none of which panicked -/
inductive CodeSteps : GameState → List (Nat × Dir) → GameState → Prop where
  | nil (s : GameState) : CodeSteps s [] s
  | cons {s s' t : GameState} {m : Nat × Dir} {ms : List (Nat × Dir)} :
      GameState_take_action s (.move m.1 m.2) = .ok s' → CodeSteps s' ms t → CodeSteps s (m :: ms) t

theorem C14_code_steps_are_model_steps {s t : GameState} {ms : List (Nat × Dir)} (h : CodeSteps s ms t) :
    t = s.runMoves ms := by
  induction h with
  | nil s => rfl
  | cons ht _ ih =>
    simp only [bridge_GameState_take_action] at ht
    have h2 := (C14_value_of_ok (RsAgree.take_action_eq _ _) ht).2
    subst h2
    rw [ih]; rfl

/-- **C14 for the code as it is now**: after `k ≤ 3` steps of a turn applied by the regenerated `take_action`, the
regenerated `piece_board_for_step i` returns (never panics), for every `i ≤ k`, exactly the board as it stood
after `i` steps of this turn -/
theorem C14_code_boards_of_turn (s0 t : GameState) (pp0 : PlayPhase) (hph : s0.phase = .play pp0)
    (hstart : pp0.step = 0) (ms : List (Nat × Dir)) (hk : ms.length ≤ 3) (hg : CodeSteps s0 ms t)
    (i : Nat) (hi : i ≤ ms.length) :
    GameState_piece_board_for_step t i = .ok (s0.stateAfter ms i).board := by
  have ht := C14_code_steps_are_model_steps hg
  subst ht
  obtain ⟨ppk, hpk, hstep, _, hprev, hall⟩ := C14_boards_of_turn s0 pp0 hph hstart ms hk
  simp only [bridge_GameState_piece_board_for_step, RsAgree.piece_board_for_step_eq]
  have hp : (s0.runMoves ms).pieceBoardForStepPanics i = false := by
    unfold pieceBoardForStepPanics
    rw [hpk]
    have hlen : ppk.prev.length = ms.length := by rw [hprev]; simp
    by_cases he : i = ppk.step
    · simp [he]
    · have : i < ppk.prev.length := by rw [hlen]; omega
      have h2 : ¬ i ≥ ppk.prev.length := by omega
      simp [he, h2]
  rw [hp, hall i hi]; rfl

end Arimaa
