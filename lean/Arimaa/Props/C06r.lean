import Arimaa.Props.C06
import Arimaa.Lemmas.RsAgreeOffered
import Arimaa.Lemmas.RsAgreeStep

/-!
# C06 — the property at the level of the REGENERATED code

`Gen/Rs.lean` is written by `tools/rs2lean2.py` from the current text of engine.rs / zobrist.rs on every
run; `Lemmas/RsAgree*.lean` prove that each regenerated function equals
`Res.guard (hand panic guard) (hand total function)`.  This file puts the agreement theorems of the
functions C06 rests on into the property's proof closure and restates them as one named obligation
(`C06_code_agrees`), plus corollaries that speak about the regenerated functions directly.  A change of
the Rust text of one of these functions breaks an obligation here without any test having to find the input.
-/
namespace Arimaa
open Gen GameState Arimaa.Gen.Rs Arimaa.Rt

theorem C06_value_of_ok {α : Type} {x : Res α} {p : Bool} {v w : α} (h : x = Res.guard p v) (hx : x = .ok w) :
    p = false ∧ w = v := by
  rw [h] at hx
  obtain ⟨hp, hv⟩ := Res.guard_eq_ok.mp hx
  exact ⟨hp, hv.symm⟩

/-- the agreement theorems C06 rests on, as one obligation -/
theorem C06_code_agrees :
    (∀ (s : GameState) (cr : Bool), GameState_valid_actions_ s cr = Res.guard (s.validActions_Panics cr) (s.validActions_ cr)) ∧
    (∀ (s : GameState) (a : Action), GameState_take_action s a = Res.guard (s.takeActionPanics a) (s.takeAction a)) ∧
    (∀ (s : GameState) (pp : PlayPhase), s.phase = .play pp → ∀ a : Action, GameState_is_passing_like_action s a = Res.guard (s.isPassingLikeActionPanics pp a) (s.isPassingLikeAction pp a)) ∧
    (∀ (s : GameState) (cr : Bool), GameState_can_pass s cr = Res.guard (s.canPassPanics cr) (s.canPass cr)) :=
  ⟨RsAgree.valid_actions__eq, RsAgree.take_action_eq, RsAgree.is_passing_like_action_eq, RsAgree.can_pass_eq⟩

theorem C06_code_offered (s : GameState) (l : List Action) (h : GameState_valid_actions s = .ok l) :
    l = s.validActions := (C06_value_of_ok (RsAgree.valid_actions_eq s) h).2

end Arimaa
