import Arimaa.Props.C06
import Arimaa.Lemmas.RsAgreeOffered
import Arimaa.Lemmas.RsAgreeStep
import Arimaa.Gen.Bridge.GameState_can_pass
import Arimaa.Gen.Bridge.GameState_is_passing_like_action
import Arimaa.Gen.Bridge.GameState_take_action
import Arimaa.Gen.Bridge.GameState_valid_actions
import Arimaa.Gen.Bridge.GameState_valid_actions_
import Arimaa.Gen.Bridge.GameState_valid_actions_no_rep

/-!
# C06 — the property at the level of the REGENERATED code

`Gen/Rs.lean` is written by `tools/rs2lean2.py` from the current text of engine.rs / zobrist.rs on every
run.  `Gen/Bridge/<fn>.lean` (generated) proves `@Rs.fn = @RsBase.fn` — the current text against the
baseline text — and `Lemmas/RsAgree*.lean` prove that each baseline function equals
`Res.guard (hand panic guard) (hand total function)`.  This file puts both, for the functions C06 rests
on, into the property's proof closure and restates them as one named obligation (`C06_code_agrees`) about
the CURRENT functions, plus corollaries that speak about them directly.  A change of the Rust text of one
of these functions that alters behaviour breaks an obligation here without any test having to find the input.
(written by tools/mkrprops.py)
-/
namespace Arimaa
open Gen GameState Arimaa.Gen.Rs Arimaa.Rt Arimaa.Gen.Bridge

theorem C06_value_of_ok {α : Type} {x : Res α} {p : Bool} {v w : α} (h : x = Res.guard p v) (hx : x = .ok w) :
    p = false ∧ w = v := by
  rw [h] at hx
  obtain ⟨hp, hv⟩ := Res.guard_eq_ok.mp hx
  exact ⟨hp, hv.symm⟩

/-- the agreement theorems C06 rests on, about the CURRENT functions, as one obligation -/
theorem C06_code_agrees :
    (∀ (s : GameState) (cr : Bool), GameState_valid_actions_ s cr = Res.guard (s.validActions_Panics cr) (s.validActions_ cr)) ∧
    (∀ (s : GameState) (a : Action), GameState_take_action s a = Res.guard (s.takeActionPanics a) (s.takeAction a)) ∧
    (∀ (s : GameState) (pp : PlayPhase), s.phase = .play pp → ∀ a : Action, GameState_is_passing_like_action s a = Res.guard (s.isPassingLikeActionPanics pp a) (s.isPassingLikeAction pp a)) ∧
    (∀ (s : GameState) (cr : Bool), GameState_can_pass s cr = Res.guard (s.canPassPanics cr) (s.canPass cr)) :=
  ⟨(by simp only [bridge_GameState_valid_actions_]; exact RsAgree.valid_actions__eq),
   (by simp only [bridge_GameState_take_action]; exact RsAgree.take_action_eq),
   (by simp only [bridge_GameState_is_passing_like_action]; exact RsAgree.is_passing_like_action_eq),
   (by simp only [bridge_GameState_can_pass]; exact RsAgree.can_pass_eq)⟩

theorem C06_code_offered (s : GameState) (r : List Action)
    (h : GameState_valid_actions s = .ok r) : r = s.validActions := by
  simp only [bridge_GameState_valid_actions] at h
  exact (C06_value_of_ok (RsAgree.valid_actions_eq s) h).2

theorem C06_code_rule_only (s : GameState) (l : List Action) (hl : GameState_valid_actions_no_rep s = .ok l) :
    l = s.validActionsNoRep := by
  simp only [bridge_GameState_valid_actions_no_rep] at hl
  exact (C06_value_of_ok (RsAgree.valid_actions_no_rep_direct s) hl).2

/-- **C06 for the code as it is now**: the list of the regenerated `valid_actions` is a sublist, in the same
order, of the list of the regenerated `valid_actions_no_rep`, and every action withheld ends the turn -/
theorem C06_code_sublist_and_withheld (s : GameState) (pp : PlayPhase) (hph : s.phase = .play pp)
    (l l' : List Action) (hl : GameState_valid_actions s = .ok l) (hl' : GameState_valid_actions_no_rep s = .ok l') :
    List.Sublist l l' ∧ ∀ a ∈ l', a ∉ l → endsTurn pp a = true := by
  have h1 := C06_code_offered s l hl
  have h2 := C06_code_rule_only s l' hl'
  subst h1 h2
  exact ⟨C06_sublist s, fun a hin hout => (C06_only_turn_ending_withheld s pp hph a hin hout).2⟩

end Arimaa
