import Arimaa.Props.C08
import Arimaa.Lemmas.RsAgreeStep
import Arimaa.Lemmas.RsAgreeTHash

/-!
# C08 — the property at the level of the REGENERATED code

`Gen/Rs.lean` is written by `tools/rs2lean2.py` from the current text of engine.rs / zobrist.rs on every
run; `Lemmas/RsAgree*.lean` prove that each regenerated function equals
`Res.guard (hand panic guard) (hand total function)`.  This file puts the agreement theorems of the
functions C08 rests on into the property's proof closure and restates them as one named obligation
(`C08_code_agrees`), plus corollaries that speak about the regenerated functions directly.  A change of
the Rust text of one of these functions breaks an obligation here without any test having to find the input.
-/
namespace Arimaa
open Gen GameState Arimaa.Gen.Rs Arimaa.Rt

theorem C08_value_of_ok {α : Type} {x : Res α} {p : Bool} {v w : α} (h : x = Res.guard p v) (hx : x = .ok w) :
    p = false ∧ w = v := by
  rw [h] at hx
  obtain ⟨hp, hv⟩ := Res.guard_eq_ok.mp hx
  exact ⟨hp, hv.symm⟩

/-- the agreement theorems C08 rests on, as one obligation -/
theorem C08_code_agrees :
    (∀ (s : GameState) (a : Action), GameState_take_action s a = Res.guard (s.takeActionPanics a) (s.takeAction a)) ∧
    (∀ (b : Board) (p1 : Bool) (step : Nat), Zobrist_from_piece_board b p1 step = Res.guard (zFromPieceBoardPanics b step) (zFromPieceBoard b p1 step)) ∧
    (∀ prev new : Board, piece_board_value prev new = Res.guard (pieceBoardValuePanics prev new) (pieceBoardValue prev new)) ∧
    (∀ s : GameState, GameState_transposition_hash s = Res.guard s.transpositionHashPanics s.transpositionHash) ∧
    (∀ a b : GameState, GameState_eq a b = (a.hash == b.hash)) :=
  ⟨RsAgree.take_action_eq, RsAgree.from_piece_board_eq, RsAgree.piece_board_value_eq, RsAgree.transposition_hash_eq, RsAgree.game_state_eq⟩


end Arimaa
