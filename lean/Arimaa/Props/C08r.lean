import Arimaa.Props.C08
import Arimaa.Lemmas.RsAgreeStep
import Arimaa.Lemmas.RsAgreeTHash
import Arimaa.Gen.Bridge.GameState_eq
import Arimaa.Gen.Bridge.GameState_hash
import Arimaa.Gen.Bridge.GameState_take_action
import Arimaa.Gen.Bridge.GameState_transposition_hash
import Arimaa.Gen.Bridge.Zobrist_from_piece_board
import Arimaa.Gen.Bridge.piece_board_value

/-!
# C08 — the property at the level of the REGENERATED code

`Gen/Rs.lean` is written by `tools/rs2lean2.py` from the current text of engine.rs / zobrist.rs on every
run.  `Gen/Bridge/<fn>.lean` (generated) proves `@Rs.fn = @RsBase.fn` — the current text against the
baseline text — and `Lemmas/RsAgree*.lean` prove that each baseline function equals
`Res.guard (hand panic guard) (hand total function)`.  This file puts both, for the functions C08 rests
on, into the property's proof closure and restates them as one named obligation (`C08_code_agrees`) about
the CURRENT functions, plus corollaries that speak about them directly.  A change of the Rust text of one
of these functions that alters behaviour breaks an obligation here without any test having to find the input.
(written by tools/mkrprops.py)
-/
namespace Arimaa
open Gen GameState Arimaa.Gen.Rs Arimaa.Rt Arimaa.Gen.Bridge

theorem C08_value_of_ok {α : Type} {x : Res α} {p : Bool} {v w : α} (h : x = Res.guard p v) (hx : x = .ok w) :
    p = false ∧ w = v := by
  rw [h] at hx
  obtain ⟨hp, hv⟩ := Res.guard_eq_ok.mp hx
  exact ⟨hp, hv.symm⟩

/-- the agreement theorems C08 rests on, about the CURRENT functions, as one obligation -/
theorem C08_code_agrees :
    (∀ (s : GameState) (a : Action), GameState_take_action s a = Res.guard (s.takeActionPanics a) (s.takeAction a)) ∧
    (∀ (b : Board) (p1 : Bool) (step : Nat), Zobrist_from_piece_board b p1 step = Res.guard (zFromPieceBoardPanics b step) (zFromPieceBoard b p1 step)) ∧
    (∀ prev new : Board, piece_board_value prev new = Res.guard (pieceBoardValuePanics prev new) (pieceBoardValue prev new)) ∧
    (∀ s : GameState, GameState_transposition_hash s = Res.guard s.transpositionHashPanics s.transpositionHash) ∧
    (∀ a b : GameState, GameState_eq a b = (a.hash == b.hash)) ∧
    (∀ (s : GameState) (st : List BB), GameState_hash s st = st ++ [s.hash]) :=
  ⟨(by simp only [bridge_GameState_take_action]; exact RsAgree.take_action_eq),
   (by simp only [bridge_Zobrist_from_piece_board]; exact RsAgree.from_piece_board_eq),
   (by simp only [bridge_piece_board_value]; exact RsAgree.piece_board_value_eq),
   (by simp only [bridge_GameState_transposition_hash]; exact RsAgree.transposition_hash_eq),
   (by simp only [bridge_GameState_eq]; exact RsAgree.game_state_eq),
   (by simp only [bridge_GameState_hash]; exact RsAgree.game_state_hash)⟩


/-- **`Hash` is consistent with `==` in the code as it is now**: two states the regenerated `eq` calls equal feed
the same word to any hasher (the word both compare: the board-state hash) -/
theorem C08_code_hash_consistent_with_eq (a b : GameState) (st : List BB) (h : GameState_eq a b = true) :
    GameState_hash a st = GameState_hash b st := by
  simp only [bridge_GameState_eq, bridge_GameState_hash, RsAgree.game_state_eq, RsAgree.game_state_hash] at h ⊢
  have : a.hash = b.hash := by simpa using h
  rw [this]

/-- **C08 for the code as it is now**: if the incremental hash of a play state equals the from-scratch hash, then
after a step or pass computed by the regenerated `take_action` it still does — and the regenerated
`Zobrist::from_piece_board` of the new board, side and step returns exactly the stored hash -/
theorem C08_code_incremental_eq_scratch (s s' : GameState) (hplay : s.isPlay = true) (h : HashOk s) (a : Action)
    (hna : a.isPlace = false) (ht : GameState_take_action s a = .ok s') :
    ∃ pp', s'.phase = .play pp' ∧ s'.hash = zFromPieceBoard s'.board s'.p1Turn pp'.step ∧
      ∀ x, Zobrist_from_piece_board s'.board s'.p1Turn pp'.step = .ok x → x = s'.hash := by
  simp only [bridge_GameState_take_action] at ht
  have h2 := (C08_value_of_ok (RsAgree.take_action_eq s a) ht).2
  subst h2
  obtain ⟨pp', hp, hh⟩ := C08_incremental_eq_scratch s hplay h [a] (by simpa using hna) 1
  simp only [List.take_succ_cons, List.take_zero, List.foldl_cons, List.foldl_nil] at hp hh
  refine ⟨pp', hp, hh, ?_⟩
  intro x hx
  simp only [bridge_Zobrist_from_piece_board] at hx
  rw [(C08_value_of_ok (RsAgree.from_piece_board_eq _ _ _) hx).2, hh]

end Arimaa
