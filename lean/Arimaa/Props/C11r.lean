import Arimaa.Props.C11
import Arimaa.Lemmas.RsAgreeGen
import Arimaa.Lemmas.RsAgreeStep
import Arimaa.Lemmas.RsAgreeResult

/-!
# C11 — the property at the level of the REGENERATED code

`Gen/Rs.lean` is written by `tools/rs2lean2.py` from the current text of engine.rs / zobrist.rs on every
run; `Lemmas/RsAgree*.lean` prove that each regenerated function equals
`Res.guard (hand panic guard) (hand total function)`.  This file puts the agreement theorems of the
functions C11 rests on into the property's proof closure and restates them as one named obligation
(`C11_code_agrees`), plus corollaries that speak about the regenerated functions directly.  A change of
the Rust text of one of these functions breaks an obligation here without any test having to find the input.
-/
namespace Arimaa
open Gen GameState Arimaa.Gen.Rs Arimaa.Rt

theorem C11_value_of_ok {α : Type} {x : Res α} {p : Bool} {v w : α} (h : x = Res.guard p v) (hx : x = .ok w) :
    p = false ∧ w = v := by
  rw [h] at hx
  obtain ⟨hp, hv⟩ := Res.guard_eq_ok.mp hx
  exact ⟨hp, hv.symm⟩

/-- the agreement theorems C11 rests on, as one obligation -/
theorem C11_code_agrees :
    (∀ s : GameState, GameState_valid_actions_no_rep s = Res.guard s.validActionsNoRepPanics s.validActionsNoRep) ∧
    (∀ (s : GameState) (a : Action), GameState_take_action s a = Res.guard (s.takeActionPanics a) (s.takeAction a)) ∧
    (∀ s : GameState, GameState_is_terminal s = Res.guard s.isTerminalPanics s.isTerminal) :=
  ⟨RsAgree.valid_actions_no_rep_direct, RsAgree.take_action_eq, RsAgree.is_terminal_eq⟩


end Arimaa
