import Arimaa.Props.C11
import Arimaa.Lemmas.RsAgreeGen
import Arimaa.Lemmas.RsAgreeStep
import Arimaa.Lemmas.RsAgreeResult
import Arimaa.Gen.Bridge.GameState_is_terminal
import Arimaa.Gen.Bridge.GameState_take_action
import Arimaa.Gen.Bridge.GameState_valid_actions_no_rep

/-!
# C11 — the property at the level of the REGENERATED code

`Gen/Rs.lean` is written by `tools/rs2lean2.py` from the current text of engine.rs / zobrist.rs on every
run.  `Gen/Bridge/<fn>.lean` (generated) proves `@Rs.fn = @RsBase.fn` — the current text against the
baseline text — and `Lemmas/RsAgree*.lean` prove that each baseline function equals
`Res.guard (hand panic guard) (hand total function)`.  This file puts both, for the functions C11 rests
on, into the property's proof closure and restates them as one named obligation (`C11_code_agrees`) about
the CURRENT functions, plus corollaries that speak about them directly.  A change of the Rust text of one
of these functions that alters behaviour breaks an obligation here without any test having to find the input.
(written by tools/mkrprops.py)
-/
namespace Arimaa
open Gen GameState Arimaa.Gen.Rs Arimaa.Rt Arimaa.Gen.Bridge Spec

theorem C11_value_of_ok {α : Type} {x : Res α} {p : Bool} {v w : α} (h : x = Res.guard p v) (hx : x = .ok w) :
    p = false ∧ w = v := by
  rw [h] at hx
  obtain ⟨hp, hv⟩ := Res.guard_eq_ok.mp hx
  exact ⟨hp, hv.symm⟩

/-- the agreement theorems C11 rests on, about the CURRENT functions, as one obligation -/
theorem C11_code_agrees :
    (∀ s : GameState, GameState_valid_actions_no_rep s = Res.guard s.validActionsNoRepPanics s.validActionsNoRep) ∧
    (∀ (s : GameState) (a : Action), GameState_take_action s a = Res.guard (s.takeActionPanics a) (s.takeAction a)) ∧
    (∀ s : GameState, GameState_is_terminal s = Res.guard s.isTerminalPanics s.isTerminal) :=
  ⟨(by simp only [bridge_GameState_valid_actions_no_rep]; exact RsAgree.valid_actions_no_rep_direct),
   (by simp only [bridge_GameState_take_action]; exact RsAgree.take_action_eq),
   (by simp only [bridge_GameState_is_terminal]; exact RsAgree.is_terminal_eq)⟩


theorem C11_code_rule_only (s : GameState) (l : List Action) (hl : GameState_valid_actions_no_rep s = .ok l) :
    l = s.validActionsNoRep := by
  simp only [bridge_GameState_valid_actions_no_rep] at hl
  exact (C11_value_of_ok (RsAgree.valid_actions_no_rep_direct s) hl).2
theorem C11_code_result_value (s : GameState) (r : Option Terminal)
    (h : GameState_is_terminal s = .ok r) : r = s.isTerminal := by
  simp only [bridge_GameState_is_terminal] at h
  exact (C11_value_of_ok (RsAgree.is_terminal_eq s) h).2

/-- **C11 for the code as it is now**: for two states that are images of each other under a file mirror and / or a
colour swap with rank flip, the rule-only lists the regenerated code returns correspond action by action, and at
the start of a turn the results it returns are the swapped results -/
theorem C11_code_offered_and_result (σ : Sym) (s s' : GameState) (pp pp' : PlayPhase)
    (h : PlayInv s pp) (h' : PlayInv s' pp') (hr : SymRel σ s pp s' pp') (l l' : List Action)
    (hl : GameState_valid_actions_no_rep s = .ok l) (hl' : GameState_valid_actions_no_rep s' = .ok l') :
    (∀ a, σ.iact a ∈ l' ↔ a ∈ l) ∧
    (pp.step = 0 → pp.pps = .none → ∀ r r', GameState_is_terminal s = .ok r → GameState_is_terminal s' = .ok r' →
      r' = r.map σ.ires) := by
  have h1 := C11_code_rule_only s l hl
  have h2 := C11_code_rule_only s' l' hl'
  subst h1 h2
  refine ⟨fun a => (C11_impl_offered_all σ s s' pp pp' h h' hr a).1, ?_⟩
  intro h0 hpps r r' hrr hrr'
  rw [C11_code_result_value s r hrr, C11_code_result_value s' r' hrr']
  exact C11_impl_result σ s s' pp pp' h h' hr h0 hpps

end Arimaa
