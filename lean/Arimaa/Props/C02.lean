import Arimaa.Lemmas.Preview

/-!
C02 — A step moves one piece one square and captures exactly unsupported trap pieces.

`absBoard : Board → Spec.Board` reads the eight bitboards as "square ↦ optional (owner, piece)".
`Spec.applyStep b i d = capture (move b i j)` with `j` the `d`-neighbour of `i` (Spec/Rules.lean).
-/
namespace Arimaa
open Gen Spec GameState

/-- **Refinement.**  Applying an offered step `(i, d)` in a state satisfying the play invariant:
the source square is occupied, the destination `j` is the `d`-neighbour of `i`, on the board and
empty, and the new board is exactly `capture (move board i j)` - the piece of `i` now stands on `j`
with its type and owner, every other square is as before, and then every piece on a trap square
without a friendly neighbour (and nothing else) is removed.  The new board is well-formed. -/
theorem C02_refines (s : GameState) (pp : PlayPhase) (h : PlayInv s pp) (i : Nat) (d : Dir)
    (ha : Action.move i d ∈ s.validActionsNoRep) :
    ∃ c j, absBoard s.board i = some c ∧ nbr i (dirSpec d) = some j ∧ absBoard s.board j = none ∧
      absBoard (s.takeAction (.move i d)).board = capture (move (absBoard s.board) i j) ∧
      absBoard (s.takeAction (.move i d)).board = applyStep (absBoard s.board) i (dirSpec d) ∧
      WF (s.takeAction (.move i d)).board := by
  obtain ⟨hi, j, hn, hj, hej, hall⟩ := offered_step_facts s pp h i d ha
  obtain ⟨habs, hw'⟩ := abs_takeMove s.board h.wf i d j hi hn hej
  have hboard : (s.takeAction (.move i d)).board = (s.board.takeMove i d).1 := by
    simp only [takeAction]
    by_cases hlt : pp.step < 3
    · rw [movePiece_lt3 s pp i d h.phase hlt]
    · rw [movePiece_ge3 s pp i d h.phase (by omega)]
  obtain ⟨c, hc⟩ : ∃ c, absBoard s.board i = some c := by
    have := abs_isSome s.board h.wf i hi; rw [hall] at this
    cases hh : absBoard s.board i <;> simp_all
  refine ⟨c, j, hc, hn, (abs_none_iff s.board h.wf j hj).mpr hej, ?_, ?_, ?_⟩
  · rw [hboard, habs]; unfold applyStep; rw [hn]
  · rw [hboard, habs]
  · rw [hboard]; exact hw'

/-- **Frame of a move** (specification level): only the two squares change; the moved piece keeps
its type and owner. -/
theorem C02_move_frame (b : Spec.Board) (i j : Nat) (hne : j ≠ i) :
    move b i j j = b i ∧ move b i j i = none ∧ ∀ k, k ≠ i → k ≠ j → move b i j k = b k := by
  refine ⟨by simp [move], ?_, ?_⟩
  · have : ¬ i = j := fun e => hne e.symm
    simp [move, this]
  · intro k h1 h2; simp [move, h1, h2]

/-- **Captures are exact** (specification level): `capture` removes precisely the pieces that stand
on a trap square (c3, f3, c6, f6 = squares 42, 45, 18, 21) with no friendly orthogonal neighbour,
and leaves every other cell untouched. -/
theorem C02_capture_exact (b : Spec.Board) (k : Nat) :
    (capture b k = none ↔ b k = none ∨ ∃ c, b k = some c ∧ isTrap k = true ∧ hasFriend b k c.gold = false) ∧
    (∀ c, capture b k = some c → b k = some c) := by
  constructor
  · rw [capture_apply]
    cases hh : hanging b k
    · simp only [Bool.false_eq_true, if_false]
      constructor
      · intro h; exact Or.inl h
      · rintro (h | ⟨c, hc, ht, hf⟩)
        · exact h
        · have : hanging b k = true := (hanging_iff b k).mpr ⟨c, hc, ht, hf⟩
          rw [hh] at this; cases this
    · simp only [if_true, true_iff]
      exact Or.inr ((hanging_iff b k).mp hh)
  · intro c hc; exact (capture_some b k c hc).1

/-- the four trap squares are c6, f6, c3, f3 -/
theorem C02_trap_squares (k : Nat) : isTrap k = true ↔ k = 18 ∨ k = 21 ∨ k = 42 ∨ k = 45 := by
  simp [isTrap, or_assoc]

/-- **No piece changes type or colour, nothing appears.**  After an offered step every cell of the
new board is either the same cell as before on the same square, or - on the destination square -
the cell that stood on the source square. -/
theorem C02_no_type_or_colour_change (s : GameState) (pp : PlayPhase) (h : PlayInv s pp) (i : Nat) (d : Dir)
    (ha : Action.move i d ∈ s.validActionsNoRep) (k : Nat) (c : Cell)
    (hk : absBoard (s.takeAction (.move i d)).board k = some c) :
    absBoard s.board k = some c ∨ (nbr i (dirSpec d) = some k ∧ absBoard s.board i = some c) := by
  obtain ⟨c0, j, hc0, hn, _, hcap, _, _⟩ := C02_refines s pp h i d ha
  rw [hcap] at hk
  have hm := (capture_some _ k c hk).1
  unfold move at hm
  by_cases ekj : k = j
  · subst ekj; right; simp at hm; exact ⟨hn, hm⟩
  · by_cases eki : k = i
    · subst eki
      exfalso
      have hne := nbr_ne k _ j hn
      have : ¬ k = j := fun e => hne e.symm
      simp [this] at hm
    · left; simpa [ekj, eki] using hm

/-- number of pieces on the board -/
def pieceCount (b : Spec.Board) : Nat := ((List.range 64).filter (fun k => (b k).isSome)).length

/-- **A pass leaves the board unchanged.** -/
theorem C02_pass_board (s : GameState) (pp : PlayPhase) (hph : s.phase = .play pp) :
    (s.takeAction .pass).board = s.board := by
  simp only [takeAction]; rw [pass_play s pp hph]

/-! ### non-vacuity -/

/-- Gold cat on c3 (trap, square 42) supported only by the Gold rabbit on c2 (square 50); the rabbit
steps to d2 and the cat is captured. -/
def exC02 : GameState :=
  { p1Turn := true, moveNo := 5, hash := 0
    board := Board.new (sqBit 42 ||| sqBit 50) 0 0 0 0 (sqBit 42) (sqBit 50 ||| sqBit 9)
    phase := .play (PlayPhase.initial 0 [0]) }

example : Action.move 50 .right ∈ exC02.validActionsNoRep := by decide +kernel
example : (exC02.takeAction (.move 50 .right)).board.cats = 0 := by decide +kernel

end Arimaa
