import Arimaa.Props.C10
import Arimaa.Props.C02b

/-!
C10 (continued) — "Each side has at most 1 elephant, 1 camel, 2 horses, 2 dogs, 2 cats and
8 rabbits".

`cellCount b ⟨g, p⟩` (Lemmas/Material; the same number as `countCells` of Props/C10) is the number of
squares `0..63` of the square-indexed board `b` that hold a piece of colour `g` (`true` = Gold) and
type `p`.  `MaterialOk b` (Lemmas/Material) is by definition: for both colours `g`,
`cellCount b ⟨g, .elephant⟩ ≤ 1 ∧ … ⟨g, .camel⟩ ≤ 1 ∧ … ⟨g, .horse⟩ ≤ 2 ∧ … ⟨g, .dog⟩ ≤ 2 ∧
… ⟨g, .cat⟩ ≤ 2 ∧ … ⟨g, .rabbit⟩ ≤ 8`.  `complement` is the function 1, 1, 2, 2, 2, 8 of Lemmas/Setup.
All statements are about `absBoard s.board`, which by `C10_views_agree` is what every view of the
board shows.
-/
namespace Arimaa
open Gen Spec GameState

/-- `cellCount` is the counting function introduced in Props/C10 -/
theorem C10_cellCount_eq_countCells (b : Spec.Board) (c : Cell) : cellCount b c = countCells b c := rfl

/-- **Material during setup.**  After any offered placements `ps` from the initial state, the board
holds, of each type `t`, exactly as many Gold pieces as `t` occurs among the first sixteen
placements and as many Silver pieces as `t` occurs among the later ones; both numbers are within
the complement, so each side has at most 1 elephant, 1 camel, 2 horses, 2 dogs, 2 cats, 8 rabbits
in every setup state. -/
theorem C10_material_setup {ps : List Piece} {s : GameState} (hr : SetupRun ps s) :
    (∀ t, cellCount (absBoard s.board) ⟨true, toSpec t⟩ = (ps.take 16).count t ∧
      cellCount (absBoard s.board) ⟨false, toSpec t⟩ = (ps.drop 16).count t) ∧
    MaterialOk (absBoard s.board) := by
  have hw := C10_wf_setup hr
  refine ⟨fun t => setup_cellCount hr hw t, ?_⟩
  rw [materialOk_iff]
  intro g t
  obtain ⟨h1, h2⟩ := setup_cellCount hr hw t
  obtain ⟨h3, h4⟩ := setup_count_le hr t
  cases g
  · rw [h2]; exact h4
  · rw [h1]; exact h3

/-- **Material after a finished setup.**  After the thirty-second offered placement each side has
exactly 1 elephant, 1 camel, 2 horses, 2 dogs, 2 cats and 8 rabbits on the board. -/
theorem C10_material_after_setup {ps : List Piece} {s : GameState} (hr : SetupRun ps s) (h32 : ps.length = 32)
    (g : Bool) :
    (∀ t, cellCount (absBoard s.board) ⟨g, toSpec t⟩ = complement t) ∧
    cellCount (absBoard s.board) ⟨g, .elephant⟩ = 1 ∧ cellCount (absBoard s.board) ⟨g, .camel⟩ = 1 ∧
    cellCount (absBoard s.board) ⟨g, .horse⟩ = 2 ∧ cellCount (absBoard s.board) ⟨g, .dog⟩ = 2 ∧
    cellCount (absBoard s.board) ⟨g, .cat⟩ = 2 ∧ cellCount (absBoard s.board) ⟨g, .rabbit⟩ = 8 := by
  have key : ∀ t, cellCount (absBoard s.board) ⟨g, toSpec t⟩ = complement t := by
    intro t
    obtain ⟨h1, h2⟩ := setup_cellCount hr (C10_wf_setup hr) t
    obtain ⟨_, _, _, hg, hs⟩ := C09_reachable_play hr h32
    cases g
    · rw [h2]; exact hs t
    · rw [h1]; exact hg t
  exact ⟨key, key .elephant, key .camel, key .horse, key .dog, key .cat, key .rabbit⟩

/-- **The bound is preserved in play.**  From any state satisfying the play invariant whose board is
within the bound, every state reached by actions each taken from the rule-only list (hence every
state reached by offered actions) is within the bound. -/
theorem C10_material_preserved (s : GameState) (pp : PlayPhase) (h : PlayInv s pp)
    (hm : MaterialOk (absBoard s.board)) (as : List Action) (ho : OfferedNR s as) :
    MaterialOk (absBoard (s.run as).board) :=
  materialOk_of_le _ _ (fun c => (C02_material_antitone_from_start s pp h as ho c).1) hm

/-- **Material in every game from the initial state.**  In every state reached from
`GameState::initial()` by a complete offered setup (`SetupRun ps s`, 32 placements) followed by any
list of actions each taken from the rule-only list of the state where it is applied, each side has
at most 1 elephant, 1 camel, 2 horses, 2 dogs, 2 cats and 8 rabbits.  (States during setup:
`C10_material_setup`.) -/
theorem C10_material {ps : List Piece} {s : GameState} (hr : SetupRun ps s) (h32 : ps.length = 32)
    (as : List Action) (ho : OfferedNR s as) :
    MaterialOk (absBoard (s.run as).board) ∧
    ∀ (g : Bool) (t : Piece), cellCount (absBoard (s.run as).board) ⟨g, toSpec t⟩ ≤ complement t := by
  obtain ⟨pp, h, _⟩ := playInv_of_setup hr h32
  have := C10_material_preserved s pp h (C10_material_setup hr).2 as ho
  exact ⟨this, (materialOk_iff _).mp this⟩

/-- **Material in every game from a parsed position** that is within the bound (the material part of
a legal start; a text may describe nine Gold rabbits, and then they stay): every state reached from
it by actions each taken from the rule-only list of the state where it is applied is within the
bound. -/
theorem C10_material_parsed (t : List Char) (s : GameState) (hp : parseState t = .ok s)
    (hm : MaterialOk (absBoard s.board)) (as : List Action) (ho : OfferedNR s as) :
    MaterialOk (absBoard (s.run as).board) := by
  obtain ⟨pp, h, _⟩ := C10_playInv_parsed t s hp
  exact C10_material_preserved s pp h hm as ho

/-! ### non-vacuity -/

/-- a complete offered setup exists (`exampleOrder_run`), so `C10_material_after_setup` and
`C10_material` apply to a real state: it has one Gold elephant and eight Silver rabbits -/
example : ∃ s : GameState, cellCount (absBoard s.board) ⟨true, .elephant⟩ = 1 ∧
    cellCount (absBoard s.board) ⟨false, .rabbit⟩ = 8 ∧ MaterialOk (absBoard (s.run []).board) := by
  obtain ⟨s, hr, h32⟩ := exampleOrder_run
  exact ⟨s, (C10_material_after_setup hr h32 true).2.1, (C10_material_after_setup hr h32 false).2.2.2.2.2.2,
    (C10_material hr h32 [] trivial).1⟩

/-- the board of `exState` (Props/C15: both armies on their home ranks) is within the bound, and it
is the board of a text that parses, so the hypotheses of `C10_material_parsed` are satisfiable -/
example : ∃ t s, parseState t = .ok s ∧ MaterialOk (absBoard s.board) := by
  have hm : MaterialOk (absBoard exBoard) := by intro g; cases g <;> decide +kernel
  have h : (match parseState (showState exState) with
      | .ok s' => decide (s'.board = exBoard)
      | _ => false) = true := by decide +kernel
  cases hp : parseState (showState exState) with
  | ok s' =>
    rw [hp] at h
    have hb : s'.board = exBoard := by simpa using h
    exact ⟨_, s', hp, by rw [hb]; exact hm⟩
  | err => rw [hp] at h; cases h
  | panic => rw [hp] at h; cases h

/-- the bound is a real restriction: a board with two Gold elephants violates it -/
example : ¬ MaterialOk (absBoard (Board.new (sqBit 0 ||| sqBit 1) (sqBit 0 ||| sqBit 1) 0 0 0 0 0)) := by
  intro h
  have := (h true).1
  revert this
  decide +kernel

end Arimaa
