import Arimaa.Lemmas.RsAgreeList

/-!
# C05 — the history container is the real `linked_list.rs`

`C05_code_*` (Props/C05r.lean) speak about the regenerated engine functions with the history as a Lean list.  This
file closes the remaining gap for values: the list type those functions use is `linked_list.rs`, regenerated on
every run, and it refines Lean lists on everything the API can build.
-/

namespace Arimaa.Props
open Arimaa Arimaa.Rt Arimaa.Gen.RsList Arimaa.RsAgree.ListAgree

/-- **C05, code level (container).**  Recording a position (`append`) puts exactly that entry in front of the entries
already recorded and keeps all of them, in order; a new game starts with no entry. -/
theorem C05_code_history_container {T : Type} {l : Link T} (h : Built l) (x : T) (hb : (toList l).length + 1 ≤ usizeMax) :
    toList (List_new : Link T) = [] ∧
    ∃ l', List_append l x = .ok l' ∧ toList l' = x :: toList l ∧ Built l' ∧ List_len l' = (toList l).length + 1 := by
  obtain ⟨l', h1, h2, h3⟩ := (list_api_refines h).2.2.2.2.2.2 x hb
  exact ⟨new_spec.1, l', h1, h2, h3, by rw [built_len h3, h2]; simp⟩

end Arimaa.Props
