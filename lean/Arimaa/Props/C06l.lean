import Arimaa.Lemmas.RsAgreeList

/-!
# C06 — counting earlier occurrences walks the real `linked_list.rs`

The repetition test is `hash_history.iter().filter(|h| *h == hash).count() >= 2`.  `C06_code_*` (Props/C06r.lean)
treat `iter()` as the Lean list of entries; here: the iterator of `linked_list.rs` (regenerated on every run) yields
exactly the recorded entries, each once, newest first, and then ends.
-/

namespace Arimaa.Props
open Arimaa Arimaa.Rt Arimaa.Gen.RsList Arimaa.RsAgree.ListAgree

/-- **C06, code level (iteration).**  Draining `iter()` of a list the API can build yields its entries, all of them
and nothing else; so a count over the iterator is a count over the recorded positions. -/
theorem C06_code_history_iteration {T : Type} [BEq T] {l : Link T} (h : Built l) (x : T) (fuel : Nat)
    (hf : (toList l).length ≤ fuel) :
    drain fuel (List_iter l) = toList l ∧
    ((drain fuel (List_iter l)).filter (· == x)).length = ((toList l).filter (· == x)).length := by
  have := (list_api_refines h).2.2.2.2.2.1 fuel hf
  exact ⟨this, by rw [this]⟩

end Arimaa.Props
