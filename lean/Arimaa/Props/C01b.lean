import Arimaa.Props.C12b

/-!
C01 (continued) — every offered step can be continued to a complete legal turn.

Uses the pusher invariant `PlayInvP` (Lemmas/Pusher.lean, `C12_pusher_invariant_*`): play invariant,
no unsupported trap piece, and a pending push always has its pusher.  All statements are about the
rule-only list `validActionsNoRep` (position repetition is not considered here).
-/
namespace Arimaa
open Gen Spec GameState

/-- **A push is never started on the last step of a turn.**  On the fourth step (`step ≥ 3`) every
offered step either moves a piece of the mover or completes a pull; in particular the state after it
never has a pending push (`C12_turn_start_none`). -/
theorem C01_no_push_start_on_last_step (s : GameState) (pp : PlayPhase) (h : PlayInv s pp) (i : Nat) (d : Dir)
    (ha : Action.move i d ∈ s.validActionsNoRep) (hge : pp.step ≥ 3) :
    pushStart (absBoard s.board) s.p1Turn pp.step i (dirSpec d) = false ∧
    ∃ c, absBoard s.board i = some c ∧
      (c.gold = s.p1Turn ∨ pullEnd (absBoard s.board) s.p1Turn (absPend pp.pps) i (dirSpec d) = true) := by
  have hps : pushStart (absBoard s.board) s.p1Turn pp.step i (dirSpec d) = false := by
    cases hh : pushStart (absBoard s.board) s.p1Turn pp.step i (dirSpec d)
    · rfl
    · have := pushStart_step_lt _ _ _ _ _ hh; omega
  refine ⟨hps, ?_⟩
  obtain ⟨_, he⟩ := (C01_enabled_iff s pp h i d).mp ha
  obtain ⟨c, j, hc, hn, _⟩ := enabled_shape _ _ _ _ _ _ he
  refine ⟨c, hc, ?_⟩
  by_cases hg : c.gold = s.p1Turn
  · exact Or.inl hg
  · right
    cases hpe : pullEnd (absBoard s.board) s.p1Turn (absPend pp.pps) i (dirSpec d)
    · have := enemy_step_is_pushStart _ _ _ _ i j _ c he hc hn hg hpe
      rw [hps] at this; cases this
    · rfl

/-- **A pending push has room and its completion ends it.**  If a push is pending in a state
satisfying the invariant then a step is still available in this turn (`step ≤ 3`, the list is not
empty), no pass is offered, and after every offered action nothing is pending any more. -/
theorem C01_push_has_room (s : GameState) (pp : PlayPhase) (h : PlayInvP s pp) (q : Nat) (v : Piece)
    (hp : pp.pps = .mustCompletePush q v) :
    pp.step ≤ 3 ∧ s.validActionsNoRep ≠ [] ∧ Action.pass ∉ s.validActionsNoRep ∧
    ∀ a, a ∈ s.validActionsNoRep →
      ∃ pp', (s.takeAction a).phase = .play pp' ∧ pp'.pps = .none := by
  refine ⟨h.1.step_le, (C12_push_pending_nonempty s pp h q v hp).2,
    (C12_push_pending_actions s pp h.1 q v hp).2, ?_⟩
  intro a ha
  rcases C01_only_steps_and_pass s pp h.1 a ha with rfl | ⟨i, d, rfl⟩
  · exact absurd ha (C12_push_pending_actions s pp h.1 q v hp).2
  · by_cases hlt : pp.step < 3
    · obtain ⟨pp', hph', hst⟩ := C12_status_after_step s pp h.1 i d ha hlt
      refine ⟨pp', hph', ?_⟩
      have hpe := (((C12_push_pending_actions s pp h.1 q v hp).1 i d).mp ha).2
      rw [hp] at hst
      simp only [absPend] at hst
      rw [nextPending_pushEnd _ _ _ _ _ _ hpe] at hst
      cases hpps : pp'.pps with
      | none => rfl
      | possiblePull q' x' => rw [hpps] at hst; cases hst
      | mustCompletePush q' v' => rw [hpps] at hst; cases hst
    · obtain ⟨pp', hph', hp', _⟩ := (C12_turn_start_none s pp h.1.phase).1 i d (by omega)
      exact ⟨pp', hph', hp'⟩

/-- **Every offered step that does not end the turn leaves the mover an action.**  After an offered
step with `step < 3`, in the successor state (same mover, one more step made, invariant kept) either a
pass is offered, or a push is pending and a completion of it is offered (and no pass).  In both cases
the rule-only list is not empty. -/
theorem C01_completable (s : GameState) (pp : PlayPhase) (h : PlayInvP s pp) (i : Nat) (d : Dir)
    (ha : Action.move i d ∈ s.validActionsNoRep) (hlt : pp.step < 3) :
    ∃ pp', PlayInvP (s.takeAction (.move i d)) pp' ∧ pp'.step = pp.step + 1 ∧
      (s.takeAction (.move i d)).p1Turn = s.p1Turn ∧
      (Action.pass ∈ (s.takeAction (.move i d)).validActionsNoRep ∨
        ∃ q v, pp'.pps = .mustCompletePush q v ∧
          ∃ x d', x < 64 ∧ nbr x (dirSpec d') = some q ∧
            Action.move x d' ∈ (s.takeAction (.move i d)).validActionsNoRep) ∧
      (s.takeAction (.move i d)).validActionsNoRep ≠ [] := by
  obtain ⟨pp', h'⟩ := playInvP_step s pp h _ ha
  obtain ⟨hstep, hturn⟩ := step_after_lt3 s pp pp' i d h.1.phase hlt h'.1.phase
  have key : Action.pass ∈ (s.takeAction (.move i d)).validActionsNoRep ∨
        ∃ q v, pp'.pps = .mustCompletePush q v ∧
          ∃ x d', x < 64 ∧ nbr x (dirSpec d') = some q ∧
            Action.move x d' ∈ (s.takeAction (.move i d)).validActionsNoRep := by
    cases hpps : pp'.pps with
    | none =>
      left; rw [C01_pass_iff _ pp' h'.1.phase, hpps]
      simp [passEnabled, absPend, Pending.isPush, hstep]
    | possiblePull q x =>
      left; rw [C01_pass_iff _ pp' h'.1.phase, hpps]
      simp [passEnabled, absPend, Pending.isPush, hstep]
    | mustCompletePush q v =>
      right
      obtain ⟨⟨x, d', hx, hpe, hmem⟩, _⟩ := C12_push_pending_nonempty _ pp' h' q v hpps
      obtain ⟨_, _, hnq, _⟩ := (C12_push_end_meaning _ _ _ _ _ _).mp hpe
      exact ⟨q, v, rfl, x, d', hx, hnq, hmem⟩
  refine ⟨pp', h', hstep, hturn, key, ?_⟩
  rcases key with hm | ⟨_, _, _, _, _, _, _, hm⟩ <;> (intro e; rw [e] at hm; cases hm)

/-- **Every offered step can be continued to a complete turn.**  After any offered step, at most two
further actions, each taken from the rule-only list of the state where it is made, end the turn:
nothing (the step was the fourth), a pass, the completion of the push (as fourth step), or the
completion of the push followed by a pass.  The run ends at the first state of the opponent's turn. -/
theorem C01_turn_completable (s : GameState) (pp : PlayPhase) (h : PlayInvP s pp) (i : Nat) (d : Dir)
    (ha : Action.move i d ∈ s.validActionsNoRep) :
    ∃ as, as.length ≤ 2 ∧ OfferedNR (s.takeAction (.move i d)) as ∧
      AtTurnStart ((s.takeAction (.move i d)).run as) ∧
      ((s.takeAction (.move i d)).run as).p1Turn = !s.p1Turn := by
  by_cases hlt : pp.step < 3
  · obtain ⟨pp', h', hstep, hturn, key, _⟩ := C01_completable s pp h i d ha hlt
    rcases key with hpass | ⟨q, v, hpps, x, d', _, _, hmem⟩
    · obtain ⟨h1, h2⟩ := pass_turnStart _ pp' h'.1.phase
      exact ⟨[.pass], by simp, ⟨hpass, trivial⟩, h1, by rw [run_cons, run_nil, h2, hturn]⟩
    · by_cases hlt' : pp'.step < 3
      · obtain ⟨pp'', h'', hstep', hturn', _, _⟩ := C01_completable _ pp' h' x d' hmem hlt'
        obtain ⟨_, _, _, hnone⟩ := C01_push_has_room _ pp' h' q v hpps
        obtain ⟨pp3, hph3, hp3⟩ := hnone _ hmem
        have hp'' : pp''.pps = .none := by rw [play_inj h''.1.phase hph3, hp3]
        have hpass : Action.pass ∈ ((s.takeAction (.move i d)).takeAction (.move x d')).validActionsNoRep := by
          rw [C01_pass_iff _ pp'' h''.1.phase, hp'']
          simp [passEnabled, absPend, Pending.isPush, hstep']
        obtain ⟨h1, h2⟩ := pass_turnStart _ pp'' h''.1.phase
        refine ⟨[.move x d', .pass], by simp, ⟨hmem, hpass, trivial⟩, h1, ?_⟩
        rw [run_cons, run_cons, run_nil, h2, hturn', hturn]
      · obtain ⟨h1, h2⟩ := lastStep_turnStart _ pp' h'.1.phase x d' (by omega)
        exact ⟨[.move x d'], by simp, ⟨hmem, trivial⟩, h1, by rw [run_cons, run_nil, h2, hturn]⟩
  · obtain ⟨h1, h2⟩ := lastStep_turnStart s pp h.1.phase i d (by omega)
    exact ⟨[], by simp, trivial, h1, h2⟩

/-! ### non-vacuity (the states of `exC12b`: a push start offered at a turn start) -/

example : ∃ pp', PlayInvP (exC12b.takeAction (.move 27 .up)) pp' ∧ pp'.step = 1 :=
  let ⟨pp', h', hs, _⟩ := C01_completable _ _ exC12b_inv 27 .up (by decide +kernel) (by decide)
  ⟨pp', h', hs⟩

/-- after the push start no pass is offered, but the completion is -/
example : Action.pass ∉ (exC12b.takeAction (.move 27 .up)).validActionsNoRep ∧
    Action.move 35 .up ∈ (exC12b.takeAction (.move 27 .up)).validActionsNoRep := by decide +kernel

/-- after an ordinary step a pass is offered -/
example : Action.pass ∈ (exC12b.takeAction (.move 35 .left)).validActionsNoRep := by decide +kernel

end Arimaa
