import Arimaa.Props.C05
import Arimaa.Props.C05c
import Arimaa.Lemmas.RsAgreeOffered
import Arimaa.Lemmas.RsAgreeStep
import Arimaa.Gen.Bridge.GameState_can_pass
import Arimaa.Gen.Bridge.GameState_is_passing_like_action
import Arimaa.Gen.Bridge.GameState_take_action
import Arimaa.Gen.Bridge.GameState_valid_actions
import Arimaa.Gen.Bridge.GameState_valid_actions_

/-!
# C05 — the property at the level of the REGENERATED code

`Gen/Rs.lean` is written by `tools/rs2lean2.py` from the current text of engine.rs / zobrist.rs on every
run.  `Gen/Bridge/<fn>.lean` (generated) proves `@Rs.fn = @RsBase.fn` — the current text against the
baseline text — and `Lemmas/RsAgree*.lean` prove that each baseline function equals
`Res.guard (hand panic guard) (hand total function)`.  This file puts both, for the functions C05 rests
on, into the property's proof closure and restates them as one named obligation (`C05_code_agrees`) about
the CURRENT functions, plus corollaries that speak about them directly.  A change of the Rust text of one
of these functions that alters behaviour breaks an obligation here without any test having to find the input.
(written by tools/mkrprops.py)
-/
namespace Arimaa
open Gen GameState Arimaa.Gen.Rs Arimaa.Rt Arimaa.Gen.Bridge

theorem C05_value_of_ok {α : Type} {x : Res α} {p : Bool} {v w : α} (h : x = Res.guard p v) (hx : x = .ok w) :
    p = false ∧ w = v := by
  rw [h] at hx
  obtain ⟨hp, hv⟩ := Res.guard_eq_ok.mp hx
  exact ⟨hp, hv.symm⟩

/-- the agreement theorems C05 rests on, about the CURRENT functions, as one obligation -/
theorem C05_code_agrees :
    (∀ (s : GameState) (cr : Bool), GameState_valid_actions_ s cr = Res.guard (s.validActions_Panics cr) (s.validActions_ cr)) ∧
    (∀ (s : GameState) (a : Action), GameState_take_action s a = Res.guard (s.takeActionPanics a) (s.takeAction a)) ∧
    (∀ (s : GameState) (pp : PlayPhase), s.phase = .play pp → ∀ a : Action, GameState_is_passing_like_action s a = Res.guard (s.isPassingLikeActionPanics pp a) (s.isPassingLikeAction pp a)) ∧
    (∀ (s : GameState) (cr : Bool), GameState_can_pass s cr = Res.guard (s.canPassPanics cr) (s.canPass cr)) :=
  ⟨(by simp only [bridge_GameState_valid_actions_]; exact RsAgree.valid_actions__eq),
   (by simp only [bridge_GameState_take_action]; exact RsAgree.take_action_eq),
   (by simp only [bridge_GameState_is_passing_like_action]; exact RsAgree.is_passing_like_action_eq),
   (by simp only [bridge_GameState_can_pass]; exact RsAgree.can_pass_eq)⟩

theorem C05_code_offered (s : GameState) (r : List Action)
    (h : GameState_valid_actions s = .ok r) : r = s.validActions := by
  simp only [bridge_GameState_valid_actions] at h
  exact (C05_value_of_ok (RsAgree.valid_actions_eq s) h).2

/-- a game played THROUGH THE REGENERATED CODE: every action is taken from the list the regenerated
`valid_actions` returned, every successor is the one the regenerated `take_action` returned, no call panicked -/
inductive CodeGame : GameState → List Action → GameState → Prop where
  | nil (s : GameState) : CodeGame s [] s
  | cons {s s' t : GameState} {l : List Action} {a : Action} {as : List Action} :
      GameState_valid_actions s = .ok l → a ∈ l → GameState_take_action s a = .ok s' → CodeGame s' as t →
      CodeGame s (a :: as) t

/-- such a game is an offered run of the model, ending in the model's state -/
theorem C05_code_game_is_offered_run {s t : GameState} {as : List Action} (h : CodeGame s as t) :
    Offered s as ∧ t = s.run as := by
  induction h with
  | nil s => exact ⟨trivial, rfl⟩
  | cons hl ha ht _ ih =>
    simp only [bridge_GameState_valid_actions] at hl
    simp only [bridge_GameState_take_action] at ht
    have h1 := (C05_value_of_ok (RsAgree.valid_actions_eq _) hl).2
    have h2 := (C05_value_of_ok (RsAgree.take_action_eq _ _) ht).2
    subst h1 h2
    exact ⟨⟨ha, ih.1⟩, by rw [run_cons]; exact ih.2⟩

/-- **C05 for the code as it is now, whole games**: in every game played through the regenerated code from a
well-formed start of the play phase, no (board, side to move) combination occurs more than twice among the
starts of turn (exact boards) -/
theorem C05_code_no_third_occurrence (s0 t : GameState) (h0 : StartOk s0) (as : List Action)
    (hg : CodeGame s0 as t) (p : Board × Bool) : (turnStarts s0 as).count p ≤ 2 :=
  C05_no_third_occurrence s0 h0 as (C05_code_game_is_offered_run hg).1 p

/-- the engine side of C20 for the code as it is now: one step or pass of the regenerated `take_action` makes the
hash history at most one node longer (so its length is bounded by the number of turns, and the list operations of
`linked_list.rs`, each of constant stack depth, are applied a bounded number of times per action) -/
theorem C05_code_history_step (s s' : GameState) (pp : PlayPhase) (hph : s.phase = .play pp) (a : Action)
    (hmv : a = .pass ∨ ∃ i d, a = .move i d) (ht : GameState_take_action s a = .ok s') :
    ∃ pp', s'.phase = .play pp' ∧ pp'.hist.length ≤ pp.hist.length + 1 := by
  simp only [bridge_GameState_take_action] at ht
  have h2 := (C05_value_of_ok (RsAgree.take_action_eq s a) ht).2
  subst h2
  exact C05_history_step s pp hph a hmv

/-- ... and every turn completed in such a game changes the board -/
theorem C05_code_turn_changes_board (s0 t : GameState) (h0 : StartOk s0) (as : List Action) (a : Action)
    (hg : CodeGame s0 (as ++ [a]) t) (hend : endsTurnAt (s0.run as) a = true) :
    t.board ≠ turnStartBoard s0 as := by
  obtain ⟨ho, ht⟩ := C05_code_game_is_offered_run hg
  subst ht
  exact C05_turn_changes_board s0 h0 as a ho hend

end Arimaa
