import Arimaa.Lemmas.Preview

/-!
C12 — The reported push/pull status always describes the previous step.

`absPend` reads the model's status as the specification's `Pending`; `Spec.nextPending` is the
three-way split of the property (Spec/Rules.lean):
* an enemy piece was displaced and the step did not complete a pull  ⇒ `push (vacated square) (its type)`;
* a non-rabbit friendly piece stepped and no push was pending        ⇒ `pull (square it left) (its type)`;
* otherwise                                                          ⇒ nothing pending.
-/
namespace Arimaa
open Gen Spec GameState

/-- **Status after a step.**  After an offered step `(i, d)` that does not end the turn
(`step < 3`), the new state's status is exactly `nextPending` of the old position, status and step. -/
theorem C12_status_after_step (s : GameState) (pp : PlayPhase) (h : PlayInv s pp) (i : Nat) (d : Dir)
    (ha : Action.move i d ∈ s.validActionsNoRep) (hlt : pp.step < 3) :
    ∃ pp', (s.takeAction (.move i d)).phase = .play pp' ∧
      absPend pp'.pps = nextPending (absBoard s.board) s.p1Turn (absPend pp.pps) i (dirSpec d) := by
  simp only [takeAction]
  rw [movePiece_lt3 s pp i d h.phase hlt]
  exact ⟨_, rfl, nextStatus_eq s pp h i d ha⟩

/-- The three-way split in the words of the property (specification level). -/
theorem C12_three_way (b : Spec.Board) (gold : Bool) (pend : Pending) (i : Nat) (d : Spec.Dir) (c : Cell)
    (hc : b i = some c) :
    (c.gold ≠ gold → pullEnd b gold pend i d = false → nextPending b gold pend i d = .push i c.piece) ∧
    (c.gold ≠ gold → pullEnd b gold pend i d = true → nextPending b gold pend i d = .none) ∧
    (c.gold = gold → pend.isPush = false → c.piece ≠ .rabbit → nextPending b gold pend i d = .pull i c.piece) ∧
    (c.gold = gold → (pend.isPush = true ∨ c.piece = .rabbit) → nextPending b gold pend i d = .none) := by
  unfold nextPending
  rw [hc]
  refine ⟨?_, ?_, ?_, ?_⟩
  · intro hg hp; simp [hg, hp]
  · intro hg hp; simp [hg, hp]
  · intro hg hp hr; simp [hg, hp, hr]
  · intro hg h
    rcases h with h | h <;> simp [hg, h]

/-- **Nothing pending at the start of a turn**: after the fourth step and after a pass. -/
theorem C12_turn_start_none (s : GameState) (pp : PlayPhase) (hph : s.phase = .play pp) :
    (∀ i d, pp.step ≥ 3 → ∃ pp', (s.takeAction (.move i d)).phase = .play pp' ∧ pp'.pps = .none ∧ pp'.step = 0) ∧
    (∃ pp', (s.takeAction .pass).phase = .play pp' ∧ pp'.pps = .none ∧ pp'.step = 0) := by
  constructor
  · intro i d hge
    simp only [takeAction]
    rw [movePiece_ge3 s pp i d hph hge]
    exact ⟨_, rfl, rfl, rfl⟩
  · simp only [takeAction]
    rw [pass_play s pp hph]
    exact ⟨_, rfl, rfl, rfl⟩

/-- **While a push is pending** the rule-only list consists exactly of the steps of unfrozen,
strictly stronger friendly pieces into the vacated square (`Spec.pushEnd`), and no pass. -/
theorem C12_push_pending_actions (s : GameState) (pp : PlayPhase) (h : PlayInv s pp) (q : Nat) (v : Piece)
    (hp : pp.pps = .mustCompletePush q v) :
    (∀ i d, Action.move i d ∈ s.validActionsNoRep ↔
      i < 64 ∧ pushEnd (absBoard s.board) s.p1Turn (.push q (toSpec v)) i (dirSpec d) = true) ∧
    Action.pass ∉ s.validActionsNoRep := by
  constructor
  · intro i d
    rw [enabled_iff s pp h.phase h.wf h.pend i d]
    unfold enabledMove
    rw [hp]
    simp [absPend, Pending.isPush]
  · intro hpass
    have := (pass_mem_validActions__iff s false).mp hpass
    rw [canPass_play s pp h.phase false, hp] at this
    simp [PPS.isMustCompletePush] at this

/-- what `pushEnd` says, spelled out -/
theorem C12_push_end_meaning (b : Spec.Board) (gold : Bool) (q : Nat) (v : Spec.Piece) (i : Nat) (d : Spec.Dir) :
    pushEnd b gold (.push q v) i d = true ↔
      ∃ c, b i = some c ∧ nbr i d = some q ∧ b q = none ∧ c.gold = gold ∧ frozen b i = false ∧
        v.strength < c.piece.strength := by
  unfold pushEnd
  cases hc : b i with
  | none => simp
  | some c =>
    cases hn : nbr i d with
    | none => simp
    | some j =>
      simp only [Bool.and_eq_true, beq_iff_eq, decide_eq_true_eq, Bool.not_eq_true', Option.isNone_iff_eq_none,
        Option.some.injEq, exists_eq_left']
      constructor
      · rintro ⟨⟨⟨⟨rfl, h2⟩, h3⟩, h4⟩, h5⟩; exact ⟨rfl, h2, h3, h4, h5⟩
      · rintro ⟨rfl, h2, h3, h4, h5⟩; exact ⟨⟨⟨⟨rfl, h2⟩, h3⟩, h4⟩, h5⟩

theorem nextPending_eq_pull (b : Spec.Board) (gold : Bool) (pend : Pending) (i : Nat) (d : Spec.Dir) (c : Cell)
    (hc : b i = some c) (q : Nat) (x : Spec.Piece) (h : nextPending b gold pend i d = .pull q x) :
    c.gold = gold ∧ c.piece ≠ .rabbit ∧ x = c.piece ∧ q = i := by
  unfold nextPending at h
  rw [hc] at h
  simp only at h
  by_cases hg : c.gold = gold
  · have : (c.gold != gold) = false := by simp [hg]
    rw [this] at h
    simp only [Bool.false_eq_true, if_false] at h
    by_cases hcond : (!pend.isPush && c.piece != Spec.Piece.rabbit) = true
    · rw [if_pos hcond] at h
      injection h with h1 h2
      simp only [Bool.and_eq_true, bne_iff_ne, ne_eq] at hcond
      exact ⟨hg, hcond.2, h2.symm, h1.symm⟩
    · rw [if_neg hcond] at h; cases h
  · have : (c.gold != gold) = true := by simp [hg]
    rw [this] at h
    simp only [if_true] at h
    split at h <;> cases h

theorem nextPending_eq_push (b : Spec.Board) (gold : Bool) (pend : Pending) (i : Nat) (d : Spec.Dir) (c : Cell)
    (hc : b i = some c) (q : Nat) (v : Spec.Piece) (h : nextPending b gold pend i d = .push q v) :
    c.gold ≠ gold ∧ pullEnd b gold pend i d = false ∧ v = c.piece ∧ q = i := by
  unfold nextPending at h
  rw [hc] at h
  simp only at h
  by_cases hg : c.gold = gold
  · have : (c.gold != gold) = false := by simp [hg]
    rw [this] at h
    simp only [Bool.false_eq_true, if_false] at h
    split at h <;> cases h
  · have : (c.gold != gold) = true := by simp [hg]
    rw [this] at h
    simp only [if_true] at h
    cases hp : pullEnd b gold pend i d
    · rw [hp] at h
      simp only [Bool.false_eq_true, if_false] at h
      injection h with h1 h2
      exact ⟨hg, rfl, h2.symm, h1.symm⟩
    · rw [hp] at h; simp at h

/-- **The status is always hashable**: it never names a pulling rabbit, and a pushed piece always
has a strictly stronger piece next to it, so it is never an elephant (the two panicking arms of the
status hash are unreachable). -/
theorem C12_status_hashable (s : GameState) (pp : PlayPhase) (h : PlayInv s pp) (i : Nat) (d : Dir)
    (ha : Action.move i d ∈ s.validActionsNoRep) :
    (∀ q x, s.nextPushPullState pp i d = .possiblePull q x → x ≠ .rabbit) ∧
    (∀ q v, s.nextPushPullState pp i d = .mustCompletePush q v → v ≠ .elephant) := by
  have hst := nextStatus_eq s pp h i d ha
  obtain ⟨hi, he⟩ := (enabled_iff s pp h.phase h.wf h.pend i d).mp ha
  obtain ⟨c, j, hc, hn, hj⟩ := enabled_shape _ _ _ _ _ _ he
  constructor
  · intro q x hq
    rw [hq] at hst
    obtain ⟨_, hnr, hx, _⟩ := nextPending_eq_pull _ _ _ _ _ c hc q (toSpec x) hst.symm
    intro e; subst e
    exact hnr hx.symm
  · intro q v hq
    rw [hq] at hst
    obtain ⟨hopp, hnp, hv, _⟩ := nextPending_eq_push _ _ _ _ _ c hc q (toSpec v) hst.symm
    intro e; subst e
    have hpiece : c.piece = .elephant := hv.symm
    -- the displaced piece is an enemy elephant that was not pulled: it must have been a push start
    unfold enabledMove at he
    cases hpu : (absPend pp.pps).isPush
    · rw [hpu] at he
      simp only [Bool.false_eq_true, if_false, Bool.or_eq_true] at he
      rcases he with (he | he) | he
      · unfold ownStep at he; rw [hc, hn] at he
        simp only [Bool.and_eq_true, beq_iff_eq] at he
        exact hopp he.1.1.1
      · unfold pushStart at he; rw [hc, hn] at he
        simp only [Bool.and_eq_true] at he
        have hps := he.2.2
        unfold hasPusher at hps
        rw [nbAny_iff] at hps
        obtain ⟨_, x, _, hx⟩ := hps
        cases hbx : absBoard s.board x with
        | none => rw [hbx] at hx; cases hx
        | some cx =>
          rw [hbx] at hx
          simp only [Bool.and_eq_true, decide_eq_true_eq] at hx
          have hlt := hx.2
          rw [hpiece] at hlt
          have h5 : Spec.Piece.elephant.strength = 5 := rfl
          rw [h5] at hlt
          have hle : ∀ p : Spec.Piece, p.strength ≤ 5 := by intro p; cases p <;> decide
          have := hle cx.piece
          omega
      · rw [he] at hnp; cases hnp
    · rw [hpu] at he
      simp only [if_true] at he
      unfold pushEnd at he
      cases hpd : absPend pp.pps with
      | none => rw [hpd] at hpu; cases hpu
      | pull q' x' => rw [hpd] at hpu; cases hpu
      | push q' v' =>
        rw [hpd, hc, hn] at he
        simp only [Bool.and_eq_true, beq_iff_eq] at he
        exact hopp he.1.1.2

end Arimaa
