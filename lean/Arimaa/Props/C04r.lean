import Arimaa.Props.C04
import Arimaa.Lemmas.RsAgreeResult
import Arimaa.Gen.Bridge.GameState_has_move
import Arimaa.Gen.Bridge.GameState_is_terminal
import Arimaa.Gen.Bridge.GameState_lost_all_rabbits
import Arimaa.Gen.Bridge.GameState_rabbit_at_goal

/-!
# C04 — the property at the level of the REGENERATED code

`Gen/Rs.lean` is written by `tools/rs2lean2.py` from the current text of engine.rs / zobrist.rs on every
run.  `Gen/Bridge/<fn>.lean` (generated) proves `@Rs.fn = @RsBase.fn` — the current text against the
baseline text — and `Lemmas/RsAgree*.lean` prove that each baseline function equals
`Res.guard (hand panic guard) (hand total function)`.  This file puts both, for the functions C04 rests
on, into the property's proof closure and restates them as one named obligation (`C04_code_agrees`) about
the CURRENT functions, plus corollaries that speak about them directly.  A change of the Rust text of one
of these functions that alters behaviour breaks an obligation here without any test having to find the input.
(written by tools/mkrprops.py)
-/
namespace Arimaa
open Gen GameState Arimaa.Gen.Rs Arimaa.Rt Arimaa.Gen.Bridge Spec

theorem C04_value_of_ok {α : Type} {x : Res α} {p : Bool} {v w : α} (h : x = Res.guard p v) (hx : x = .ok w) :
    p = false ∧ w = v := by
  rw [h] at hx
  obtain ⟨hp, hv⟩ := Res.guard_eq_ok.mp hx
  exact ⟨hp, hv.symm⟩

/-- the agreement theorems C04 rests on, about the CURRENT functions, as one obligation -/
theorem C04_code_agrees :
    (∀ s : GameState, GameState_is_terminal s = Res.guard s.isTerminalPanics s.isTerminal) ∧
    (∀ (s : GameState) (b : Board), GameState_has_move s b = Res.guard (s.hasMovePanics b) (s.hasMove b)) ∧
    (∀ (s : GameState) (b : Board), GameState_rabbit_at_goal s b = s.rabbitAtGoal b) ∧
    (∀ (s : GameState) (b : Board), GameState_lost_all_rabbits s b = s.lostAllRabbits b) :=
  ⟨(by simp only [bridge_GameState_is_terminal]; exact RsAgree.is_terminal_eq),
   (by simp only [bridge_GameState_has_move]; exact RsAgree.has_move_eq),
   (by simp only [bridge_GameState_rabbit_at_goal]; exact RsAgree.rabbit_at_goal),
   (by simp only [bridge_GameState_lost_all_rabbits]; exact RsAgree.lost_all_rabbits)⟩

theorem C04_code_result (s : GameState) (r : Option Terminal)
    (h : GameState_is_terminal s = .ok r) : r = s.isTerminal := by
  simp only [bridge_GameState_is_terminal] at h
  exact (C04_value_of_ok (RsAgree.is_terminal_eq s) h).2

/-- **C04 for the code as it is now**: at the start of a turn, whatever the regenerated `is_terminal` returns is
the result of the official decision list (`Spec.result`) on the abstracted board -/
theorem C04_code_turn_start (s : GameState) (pp : PlayPhase) (hph : s.phase = .play pp) (hw : WF s.board)
    (h0 : pp.step = 0) (hpps : pp.pps = .none) (r : Option Terminal) (h : GameState_is_terminal s = .ok r) :
    r.map toSpecResult = Spec.result (absBoard s.board) s.p1Turn := by
  rw [C04_code_result s r h]
  exact C04_turn_start_spec s pp hph hw h0 hpps

end Arimaa
