import Arimaa.Props.C09
import Arimaa.Lemmas.RsAgreeStep

/-!
# C09 — the property at the level of the REGENERATED code

`Gen/Rs.lean` is written by `tools/rs2lean2.py` from the current text of engine.rs / zobrist.rs on every
run; `Lemmas/RsAgree*.lean` prove that each regenerated function equals
`Res.guard (hand panic guard) (hand total function)`.  This file puts the agreement theorems of the
functions C09 rests on into the property's proof closure and restates them as one named obligation
(`C09_code_agrees`), plus corollaries that speak about the regenerated functions directly.  A change of
the Rust text of one of these functions breaks an obligation here without any test having to find the input.
-/
namespace Arimaa
open Gen GameState Arimaa.Gen.Rs Arimaa.Rt

theorem C09_value_of_ok {α : Type} {x : Res α} {p : Bool} {v w : α} (h : x = Res.guard p v) (hx : x = .ok w) :
    p = false ∧ w = v := by
  rw [h] at hx
  obtain ⟨hp, hv⟩ := Res.guard_eq_ok.mp hx
  exact ⟨hp, hv.symm⟩

/-- the agreement theorems C09 rests on, as one obligation -/
theorem C09_code_agrees :
    (∀ (s : GameState) (a : Action), GameState_take_action s a = Res.guard (s.takeActionPanics a) (s.takeAction a)) ∧
    (∀ s : GameState, GameState_valid_placement s = s.validPlacement) ∧
    (∀ b : Board, PieceBoardState_placement_bit b = Res.guard b.placementBitPanics b.placementBit) :=
  ⟨RsAgree.take_action_eq, RsAgree.valid_placement, RsAgree.placement_bit⟩


end Arimaa
