import Arimaa.Props.C09
import Arimaa.Lemmas.RsAgreeStep
import Arimaa.Lemmas.RsAgreeOffered
import Arimaa.Gen.Bridge.GameState_take_action
import Arimaa.Gen.Bridge.GameState_valid_actions
import Arimaa.Gen.Bridge.GameState_valid_placement
import Arimaa.Gen.Bridge.PieceBoardState_placement_bit

/-!
# C09 — the property at the level of the REGENERATED code

`Gen/Rs.lean` is written by `tools/rs2lean2.py` from the current text of engine.rs / zobrist.rs on every
run.  `Gen/Bridge/<fn>.lean` (generated) proves `@Rs.fn = @RsBase.fn` — the current text against the
baseline text — and `Lemmas/RsAgree*.lean` prove that each baseline function equals
`Res.guard (hand panic guard) (hand total function)`.  This file puts both, for the functions C09 rests
on, into the property's proof closure and restates them as one named obligation (`C09_code_agrees`) about
the CURRENT functions, plus corollaries that speak about them directly.  A change of the Rust text of one
of these functions that alters behaviour breaks an obligation here without any test having to find the input.
(written by tools/mkrprops.py)
-/
namespace Arimaa
open Gen GameState Arimaa.Gen.Rs Arimaa.Rt Arimaa.Gen.Bridge

theorem C09_value_of_ok {α : Type} {x : Res α} {p : Bool} {v w : α} (h : x = Res.guard p v) (hx : x = .ok w) :
    p = false ∧ w = v := by
  rw [h] at hx
  obtain ⟨hp, hv⟩ := Res.guard_eq_ok.mp hx
  exact ⟨hp, hv.symm⟩

/-- the agreement theorems C09 rests on, about the CURRENT functions, as one obligation -/
theorem C09_code_agrees :
    (∀ (s : GameState) (a : Action), GameState_take_action s a = Res.guard (s.takeActionPanics a) (s.takeAction a)) ∧
    (∀ s : GameState, GameState_valid_placement s = s.validPlacement) ∧
    (∀ b : Board, PieceBoardState_placement_bit b = Res.guard b.placementBitPanics b.placementBit) :=
  ⟨(by simp only [bridge_GameState_take_action]; exact RsAgree.take_action_eq),
   (by simp only [bridge_GameState_valid_placement]; exact RsAgree.valid_placement),
   (by simp only [bridge_PieceBoardState_placement_bit]; exact RsAgree.placement_bit)⟩

theorem C09_code_offered_list (s : GameState) (r : List Action)
    (h : GameState_valid_actions s = .ok r) : r = s.validActions := by
  simp only [bridge_GameState_valid_actions] at h
  exact (C09_value_of_ok (RsAgree.valid_actions_eq s) h).2

/-- **C09 for the code as it is now**: during setup the regenerated `valid_actions` offers exactly the piece types
the mover has not yet placed in full, in the fixed order elephant … rabbit -/
theorem C09_code_offered (s : GameState) (hph : s.phase = .place) (l : List Action)
    (hl : GameState_valid_actions s = .ok l) :
    l = (([.elephant, .camel, .horse, .dog, .cat, .rabbit] : List Piece).filter
        (fun t => decide (moverCount s t < complement t))).map Action.place := by
  rw [C09_code_offered_list s l hl]
  exact C09_offered s hph

end Arimaa
