import Arimaa.Lemmas.ParsePrint

/-!
C15 — printing and parsing positions round-trips; parsing never crashes.

`parseState : List Char → Outcome GameState` models `<GameState as FromStr>::from_str` after the
repairs F5 (the move number is parsed with `?`, not `unwrap`) and F6 (a piece outside the 8×8 grid
is an error); `showState` models `<GameState as Display>::fmt`.
-/
namespace Arimaa
open Gen

/-- Every successfully parsed diagram is a well-formed position (each square carries at most one
piece type, `all` is the union of the six type boards, gold pieces are inside `all`) and a
start-of-turn play-phase state: step 0 (`prev = []`), no push/pull obligation, no pending trap flag,
hash history consisting of the state's own hash, and the hash is the from-scratch Zobrist value of
(board, side, step 0). -/
theorem C15_parse_wf (t : List Char) (s : GameState) (h : parseState t = .ok s) :
    WF s.board ∧
    s.hash = zFromPieceBoard s.board s.p1Turn 0 ∧
    s.phase = .play { prev := [], pps := .none, initHash := s.hash, hist := [s.hash],
                      trapped := false } ∧
    (∃ pp, s.phase = .play pp ∧ pp.step = 0) := by
  obtain ⟨hh, hp⟩ := parseState_ok t s h
  exact ⟨parseState_wf t s h, hh, hp, _, hp, rfl⟩

/-- Parsing arbitrary text never panics: the outcome is an error or a state. -/
theorem C15_no_panic (t : List Char) :
    parseState t ≠ .panic ∧ (parseState t = .err ∨ ∃ s, parseState t = .ok s) := by
  refine ⟨parseState_no_panic t, ?_⟩
  cases h : parseState t with
  | ok s => exact Or.inr ⟨s, rfl⟩
  | err => exact Or.inl rfl
  | panic => exact absurd h (parseState_no_panic t)

/-- The header.  Let `seg0` be the text before the first `'|'`.  `HeaderMatch seg0 ds c` says that
`seg0 = sp ++ ds ++ c :: rest` with `sp` all `\s`, `ds` a non-empty run of `\d` and `c ∈ gswb`, i.e.
the regex `^\s*(\d+)([gswb])` matches with capture groups `ds`, `c` (the capture groups are unique
because the three character classes are disjoint).
* If it matches and the digits are all ASCII with a decimal value `≤ usize::MAX`, every successful
  parse carries that value as move number and Gold to move iff `c` is not `s`/`b`.
* If it matches and a digit is not ASCII or the value exceeds `usize::MAX`, the result is `Err`.
* If it does not match, a successful parse has move number 2 and Gold to move. -/
theorem C15_header_cases (t : List Char) :
    (∀ ds c, HeaderMatch (t.takeWhile (· != '|')) ds c →
      (((∀ x ∈ ds, '0' ≤ x ∧ x ≤ '9') ∧ decimalValue ds ≤ usizeMax) →
        ∀ s, parseState t = .ok s →
          s.moveNo = decimalValue ds ∧ s.p1Turn = (c != 's' && c != 'b')) ∧
      (¬ ((∀ x ∈ ds, '0' ≤ x ∧ x ≤ '9') ∧ decimalValue ds ≤ usizeMax) → parseState t = .err)) ∧
    ((¬ ∃ ds c, HeaderMatch (t.takeWhile (· != '|')) ds c) →
      ∀ s, parseState t = .ok s → s.moveNo = 2 ∧ s.p1Turn = true) := by
  obtain ⟨h1, h2⟩ := parseState_header t
  rw [splitBar_head] at h1 h2
  refine ⟨fun ds c hm => ?_, fun hn => h2 ((matchHeader_none_iff _).mpr hn)⟩
  obtain ⟨ha, hb⟩ := h1 ds c (matchHeader_of_match _ ds c hm)
  constructor
  · intro hok
    exact hb _ (by rw [parseUsize_eq, if_pos hok])
  · intro hbad
    exact ha (by rw [parseUsize_eq, if_neg hbad])

/-- Exactly which texts are rejected.  `cellAt t r c` is the character the parser samples for row
`r`, column `c` (the `c`-th odd character of the `r`-th odd `'|'`-separated segment);
`PieceOutside t` says some piece letter sits at a row or column index `≥ 8`.  The parse returns
`Err` iff the header matches with an unparsable move number (non-ASCII digit or value above
`usize::MAX`) or a piece letter lies outside the 8×8 grid; by `C15_no_panic` every other text
yields a state. -/
theorem C15_err_iff (t : List Char) :
    parseState t = .err ↔
      (∃ ds c, HeaderMatch (t.takeWhile (· != '|')) ds c ∧
        ¬ ((∀ x ∈ ds, '0' ≤ x ∧ x ≤ '9') ∧ decimalValue ds ≤ usizeMax)) ∨
      PieceOutside t := by
  rw [parseState_err_iff, splitBar_head]
  constructor
  · rintro (⟨ds, c, hm, hu⟩ | h)
    · refine Or.inl ⟨ds, c, match_of_matchHeader _ ds c hm, fun hok => ?_⟩
      rw [parseUsize_eq, if_pos hok] at hu
      cases hu
    · exact Or.inr h
  · rintro (⟨ds, c, hm, hbad⟩ | h)
    · exact Or.inl ⟨ds, c, matchHeader_of_match _ ds c hm, by rw [parseUsize_eq, if_neg hbad]⟩
    · exact Or.inr h

/-- The board of a successful parse, square by square: square `i` is in the board of type `f` iff
the sampled character of row `i / 8`, column `i % 8` is a letter of `f` (either case), and in the
gold board iff that letter is upper case.  (So the parsed position is a function of the 8×8
character grid alone.) -/
theorem C15_parse_board (t : List Char) (s : GameState) (h : parseState t = .ok s) (i : Nat) :
    (∀ f, bit (s.board.typeBits f) i = true ↔
      ∃ ch, cellAt t (i / 8) (i % 8) = some ch ∧ charToPiece ch = some f) ∧
    (bit s.board.p1 i = true ↔
      ∃ ch, cellAt t (i / 8) (i % 8) = some ch ∧ (charToPiece ch).isSome = true ∧
        ch.isUpper = true) :=
  parseState_board_spec t s h i

/-- Round trip.  For every state (any phase, any step) whose board is well-formed and whose move
number fits `usize`, parsing the printed diagram succeeds and yields a state with the same board
(all eight words), side to move and move number, whose printed form is identical.  (By
`C15_parse_wf` the result is a start-of-turn play-phase state.) -/
theorem C15_roundtrip (s : GameState) (hw : WF s.board) (hn : s.moveNo ≤ usizeMax) :
    ∃ s', parseState (showState s) = .ok s' ∧ s'.board = s.board ∧ s'.p1Turn = s.p1Turn ∧
      s'.moveNo = s.moveNo ∧ showState s' = showState s := by
  obtain ⟨s', h, hb, ht, hm⟩ := parseState_showState s hw hn
  exact ⟨s', h, hb, ht, hm, showState_congr s s' hb ht hm⟩

/-- Finding F4 at the model level: the printed form of a state whose move number exceeds
`usize::MAX` (impossible in the code, where the counter is a `usize`) is rejected with an error —
so the bound in `C15_roundtrip` is necessary. -/
theorem C15_roundtrip_needs_bound (s : GameState) (hn : usizeMax < s.moveNo) :
    parseState (showState s) = .err :=
  parseState_showState_big s hn

/-- Hash.  If `s` is a start-of-turn play-phase state (step 0) that satisfies the hash invariant
`HashOk` (its stored hash is the from-scratch Zobrist value) and the turn invariant `TurnInv` (at
step 0 no push/pull status is pending), then the state parsed from its printed diagram has the
same transposition hash. -/
theorem C15_hash (s : GameState) (hw : WF s.board) (hn : s.moveNo ≤ usizeMax) (pp : PlayPhase)
    (hp : s.phase = .play pp) (h0 : pp.step = 0) (hh : HashOk s) (hti : GameState.TurnInv s) :
    ∃ s', parseState (showState s) = .ok s' ∧
      s'.transpositionHash = s.transpositionHash ∧ s'.hash = s.hash := by
  obtain ⟨s', h, hb, ht, _⟩ := parseState_showState s hw hn
  obtain ⟨h1, h2⟩ := parseState_ok _ s' h
  have hs : s.hash = zFromPieceBoard s.board s.p1Turn 0 := by
    rw [← h0]; exact (HashOk_play s pp hp).mp hh
  have hpps : pp.pps = .none := by
    unfold GameState.TurnInv at hti
    rw [hp] at hti
    exact (hti.2 h0).1
  have hhash : s'.hash = s.hash := by rw [h1, hs, hb, ht]
  refine ⟨s', h, ?_, hhash⟩
  unfold GameState.transpositionHash
  rw [h2, hp]
  simp only [hpps, hhash, PlayPhase.initial]

/-! ### Non-vacuity -/

/-- a concrete position: both armies on their home ranks, Silver to move in move 14, two steps
into the turn (the printed form forgets the step) -/
def exBoard : Board :=
  Board.new 0xffff000000000000#64 0x1000000000000010#64 0x0800000000000008#64
    0x8100000000000081#64 0x2400000000000024#64 0x4200000000000042#64 0x00ff00000000ff00#64

def exState : GameState :=
  { p1Turn := false, moveNo := 14, board := exBoard, hash := 0,
    phase := .play { prev := [exBoard, exBoard], pps := .none, initHash := 0, hist := [],
                     trapped := false } }

theorem exBoard_wf : WF exBoard := by
  constructor
  · intro i hi
    have : ∀ j : Fin 64,
        (bit exBoard.elephants j.1).toNat + (bit exBoard.camels j.1).toNat +
          (bit exBoard.horses j.1).toNat + (bit exBoard.dogs j.1).toNat +
          (bit exBoard.cats j.1).toNat + (bit exBoard.rabbits j.1).toNat ≤ 1 := by decide
    exact this ⟨i, hi⟩
  · intro i hi
    have : ∀ j : Fin 64, bit exBoard.all j.1 =
        (bit exBoard.elephants j.1 || bit exBoard.camels j.1 || bit exBoard.horses j.1 ||
          bit exBoard.dogs j.1 || bit exBoard.cats j.1 || bit exBoard.rabbits j.1) := by decide
    exact this ⟨i, hi⟩
  · intro i hi
    have : ∀ j : Fin 64, bit exBoard.p1 j.1 = true → bit exBoard.all j.1 = true := by decide
    exact this ⟨i, hi⟩

/-- the hypotheses of `C15_roundtrip` are satisfiable -/
example : WF exState.board ∧ exState.moveNo ≤ usizeMax := ⟨exBoard_wf, by decide⟩

/-- the printed form of the example -/
example : showState exState =
    ("14s\n +-----------------+\n" ++
     "8| h c d m e d c h |\n7| r r r r r r r r |\n6|     x     x     |\n5|                 |\n" ++
     "4|                 |\n3|     x     x     |\n2| R R R R R R R R |\n1| H C D M E D C H |\n" ++
     " +-----------------+\n   a b c d e f g h\n").toList := by decide +kernel

/-- the example round-trips by evaluation -/
example :
    (match parseState (showState exState) with
     | .ok s' => decide (s'.board = exState.board ∧ s'.p1Turn = exState.p1Turn ∧
         s'.moveNo = exState.moveNo ∧ showState s' = showState exState)
     | _ => false) = true := by decide +kernel

/-- a start-of-turn state satisfying all hypotheses of `C15_hash` -/
def exState0 : GameState :=
  let h := zFromPieceBoard exBoard true 0
  { p1Turn := true, moveNo := 2, board := exBoard, hash := h,
    phase := .play (PlayPhase.initial h [h]) }

example : WF exState0.board ∧ exState0.moveNo ≤ usizeMax ∧
    exState0.phase = .play (PlayPhase.initial exState0.hash [exState0.hash]) ∧
    (PlayPhase.initial exState0.hash [exState0.hash]).step = 0 ∧ HashOk exState0 ∧
    GameState.TurnInv exState0 :=
  ⟨exBoard_wf, by decide, rfl, rfl, rfl, GameState.turnInv_of_initial _ _ _ rfl⟩

/-- malformed texts give `Err` (not a panic): an oversized move number (F5) … -/
example : parseState "99999999999999999999999g\n +-----------------+\n8| r |\n".toList = .err := by
  decide +kernel

/-- … a non-ASCII decimal digit matched by `\d` (Arabic-Indic five) … -/
example : parseState "٥g\n".toList = .err := by decide +kernel

/-- … a ninth row carrying a piece (F6) … -/
example : parseState
    "2g\n1| |\n2| |\n3| |\n4| |\n5| |\n6| |\n7| |\n8| |\n9| r |\n".toList = .err := by
  decide +kernel

/-- … and a piece in the ninth column (F6). -/
example : parseState "2g\n8| . . . . . . . . R |\n".toList = .err := by decide +kernel

/-- extra rows and columns without pieces are accepted, the header may be absent -/
example : (match parseState "8| . . . . . . . . . |\n|\n|\n|\n|\n|\n|\n|\n| . |\n".toList with
    | .ok s => decide (s.moveNo = 2 ∧ s.p1Turn = true ∧ s.board = Board.empty)
    | _ => false) = true := by decide +kernel

/-- the header alternatives `w` and `b` and leading white space -/
example : (match parseState " \t176b\n".toList with
    | .ok s => decide (s.moveNo = 176 ∧ s.p1Turn = false)
    | _ => false) = true := by decide +kernel

end Arimaa
