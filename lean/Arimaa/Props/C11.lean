import Arimaa.Spec.Symmetry
import Arimaa.Lemmas.SymTransfer
import Arimaa.Lemmas.SymResult
import Arimaa.Lemmas.SymExample

/-!
# C11 — the rules are invariant under file mirroring and under colour swap with rank flip

Property text: mirroring a game (position and every action) across the vertical axis, or swapping
the colours while flipping the ranks, maps offered actions to offered actions, captures to captures
and results to the correspondingly swapped results at every step of the game, including which
actions the repetition rules withhold.

This file proves the rules-level part on the specification `Arimaa.Spec.Rules` (the repetition
clause is treated separately).  `σ` ranges over the three symmetries `Spec.Sym.mirror`
(file a ↔ h), `Spec.Sym.swap` (Gold ↔ Silver and rank r ↔ 9 - r) and `Spec.Sym.both` (their
composition, `C11_both_is_composition`).  `σ.sq`, `σ.dir`, `σ.col`, `σ.cell`, `σ.board`, `σ.pend`,
`σ.res`, `σ.state`, `σ.act` are the actions on squares, directions, colours, pieces, boards,
push/pull obligations, results, turn states and game actions (`Arimaa/Spec/Symmetry.lean`).
The board action is `(σ b) (σ i) = σ (b i)` (`C11_board_action`); `σ.sq` is the identity on numbers
that are not squares, hence boards need no side condition.  Squares of actions are assumed to
be on the board (`i < 64`), which is part of being offered.  All theorems hold for arbitrary boards,
not only legal positions.

Overview.  Rules level: `C11_geometry`, `C11_neighbours`, `C11_frozen`, `C11_spec_enabled`
(offered ↦ offered), `C11_spec_apply` / `C11_spec_captured` (captures ↦ captures),
`C11_spec_next_pending`, `C11_spec_result` (results ↦ swapped results), `C11_spec_step`,
`C11_spec_game`, `C11_spec_game_trace`, `C11_spec_game_everywhere` (every step of a game).
Model level (relational transfer through the refinement lemmas): `C11_impl_offered`,
`C11_impl_offered_all`, `C11_impl_step`, `C11_impl_game` for the rule-only list
`validActionsNoRep`; `C11_impl_offered_turn_start` for the offered list `validActions` at the start
of a turn; `C11_impl_result` for `isTerminal` at the start of a turn.

Not covered here: which actions the repetition rules withhold in the middle of a turn (and hence
`isTerminal` in the middle of a turn, which asks whether `validActions` is empty).  That clause
depends on position hashes and is false without a no-collision hypothesis (DESIGN.md section 6, F8).
-/
namespace Arimaa
open Spec

/-! ### the symmetries are what they are said to be -/

/-- `mirror` keeps the rank (`i / 8`) and reflects the file (`i % 8`), `swap` keeps the file and
reflects the rank, and `both` is one after the other, in either order, on squares, directions and
colours. -/
theorem C11_both_is_composition (i : Nat) (d : Spec.Dir) (g : Bool) :
    (i < 64 → Sym.mirror.sq i / 8 = i / 8 ∧ Sym.mirror.sq i % 8 = 7 - i % 8) ∧
    (i < 64 → Sym.swap.sq i / 8 = 7 - i / 8 ∧ Sym.swap.sq i % 8 = i % 8) ∧
    Sym.both.sq i = Sym.mirror.sq (Sym.swap.sq i) ∧ Sym.both.sq i = Sym.swap.sq (Sym.mirror.sq i) ∧
    Sym.both.dir d = Sym.mirror.dir (Sym.swap.dir d) ∧ Sym.both.col g = Sym.mirror.col (Sym.swap.col g) ∧
    Sym.mirror.col g = g ∧ Sym.swap.col g = !g :=
  ⟨Sym.mirror_coords i, Sym.swap_coords i, Sym.both_sq i, Sym.both_sq' i, Sym.both_dir d, Sym.both_col g,
    rfl, rfl⟩

/-- Every symmetry is an involution on squares, directions, colours, boards, obligations, results,
and maps the 64 squares to the 64 squares. -/
theorem C11_involution (σ : Sym) (i : Nat) (d : Spec.Dir) (g : Bool) (b : Spec.Board) (p : Pending)
    (r : Result) :
    σ.sq (σ.sq i) = i ∧ (σ.sq i < 64 ↔ i < 64) ∧ σ.dir (σ.dir d) = d ∧ σ.col (σ.col g) = g ∧
    σ.board (σ.board b) = b ∧ σ.pend (σ.pend p) = p ∧ σ.res (σ.res r) = r :=
  ⟨σ.sq_sq i, σ.sq_lt_iff i, σ.dir_dir d, σ.col_col g, σ.board_board b, σ.pend_pend p, σ.res_res r⟩

/-- The action on boards: the piece on `i` is found, with the image colour, on `σ i`; a board that
is empty outside the 64 squares is mapped to such a board. -/
theorem C11_board_action (σ : Sym) (b : Spec.Board) (i : Nat) :
    σ.board b (σ.sq i) = (b i).map σ.cell ∧
    ((∀ k, 64 ≤ k → b k = none) → ∀ k, 64 ≤ k → σ.board b k = none) :=
  ⟨σ.board_sq b i, σ.board_ge b⟩

/-! ### geometry -/

/-- **Geometry.**  Neighbours go to neighbours in the image direction, trap squares to trap
squares, each colour's goal rank to the image colour's goal rank, and the direction forbidden to
a colour's rabbits to the direction forbidden to the image colour's rabbits. -/
theorem C11_geometry (σ : Sym) (i : Nat) (d : Spec.Dir) (g : Bool) (hi : i < 64) :
    nbr (σ.sq i) (σ.dir d) = (nbr i d).map σ.sq ∧
    isTrap (σ.sq i) = isTrap i ∧
    onGoalRank (σ.col g) (σ.sq i) = onGoalRank g i ∧
    backward (σ.col g) = σ.dir (backward g) :=
  ⟨σ.nbr_sq i d hi, σ.isTrap_sq i, σ.onGoalRank_sq g i hi, σ.backward_col g⟩

/-- "Some neighbour of `σ i` satisfies `f`" means "some neighbour of `i` satisfies `f ∘ σ`". -/
theorem C11_neighbours (σ : Sym) (f : Nat → Bool) (i : Nat) (hi : i < 64) :
    nbAny f (σ.sq i) = nbAny (fun j => f (σ.sq j)) i :=
  σ.nbAny_sq f i hi

/-! ### freezing and support -/

/-- **Frozen pieces map to frozen pieces**; likewise "a piece of colour `g` stands next to `i`",
"an enemy of `g` stronger than `s` stands next to `i`" and "an unfrozen piece of colour `g` stronger
than `s` stands next to `i`" (the pusher test), each with the image colour on the image square. -/
theorem C11_frozen (σ : Sym) (b : Spec.Board) (i : Nat) (g : Bool) (s : Nat) (hi : i < 64) :
    frozen (σ.board b) (σ.sq i) = frozen b i ∧
    hasFriend (σ.board b) (σ.sq i) (σ.col g) = hasFriend b i g ∧
    hasStrongerEnemy (σ.board b) (σ.sq i) (σ.col g) s = hasStrongerEnemy b i g s ∧
    hasPusher (σ.board b) (σ.col g) (σ.sq i) s = hasPusher b g i s :=
  ⟨σ.frozen_sq b i hi, σ.hasFriend_sq b i g hi, σ.hasStrongerEnemy_sq b i g s hi, σ.hasPusher_sq b g i s hi⟩

/-! ### offered actions -/

/-- **Offered steps map to offered steps.**  In the image turn state (image board, image side,
same step number, image obligation) the image step is enabled exactly when the step is enabled in
the original; ending the turn is enabled in both or in neither.  This holds for each of the four
kinds of step separately. -/
theorem C11_spec_enabled (σ : Sym) (b : Spec.Board) (gold : Bool) (step : Nat) (pend : Pending)
    (i : Nat) (d : Spec.Dir) (hi : i < 64) :
    enabledMove (σ.board b) (σ.col gold) step (σ.pend pend) (σ.sq i) (σ.dir d) =
      enabledMove b gold step pend i d ∧
    passEnabled step (σ.pend pend) = passEnabled step pend ∧
    ownStep (σ.board b) (σ.col gold) (σ.sq i) (σ.dir d) = ownStep b gold i d ∧
    pushStart (σ.board b) (σ.col gold) step (σ.sq i) (σ.dir d) = pushStart b gold step i d ∧
    pullEnd (σ.board b) (σ.col gold) (σ.pend pend) (σ.sq i) (σ.dir d) = pullEnd b gold pend i d ∧
    pushEnd (σ.board b) (σ.col gold) (σ.pend pend) (σ.sq i) (σ.dir d) = pushEnd b gold pend i d := by
  refine ⟨σ.enabledMove_sq b gold step pend i d hi, ?_, σ.ownStep_sq b gold i d hi,
    σ.pushStart_sq b gold step i d hi, σ.pullEnd_sq b gold pend i d hi, σ.pushEnd_sq b gold pend i d hi⟩
  unfold passEnabled
  rw [σ.pend_isPush]

/-- The same, read from the image side: a step `(k, d')` is enabled in the image state exactly when
its own image (`σ` is an involution) is enabled in the original state. -/
theorem C11_spec_enabled_image (σ : Sym) (b : Spec.Board) (gold : Bool) (step : Nat) (pend : Pending)
    (k : Nat) (d' : Spec.Dir) (hk : k < 64) :
    enabledMove (σ.board b) (σ.col gold) step (σ.pend pend) k d' =
      enabledMove b gold step pend (σ.sq k) (σ.dir d') := by
  have := σ.enabledMove_sq b gold step pend (σ.sq k) (σ.dir d') (σ.sq_lt k hk)
  rwa [σ.sq_sq, σ.dir_dir] at this

/-! ### effect of a step: captures map to captures -/

/-- **The effect of a step commutes with the symmetry**: moving a piece, the capture rule, and
their combination `applyStep`. -/
theorem C11_spec_apply (σ : Sym) (b : Spec.Board) (i j : Nat) (d : Spec.Dir) (hi : i < 64) :
    applyStep (σ.board b) (σ.sq i) (σ.dir d) = σ.board (applyStep b i d) ∧
    capture (σ.board b) = σ.board (capture b) ∧
    move (σ.board b) (σ.sq i) (σ.sq j) = σ.board (move b i j) := by
  refine ⟨?_, σ.capture_sq b, σ.move_sq b i j⟩
  unfold applyStep
  rw [σ.nbr_sq i d hi]
  cases nbr i d with
  | none => rfl
  | some j' => simp only [Option.map]; rw [σ.move_sq, σ.capture_sq]

/-- **Captures map to captures.**  A piece standing on `k` is removed by the capture rule exactly
when the piece on `σ k` of the image board is removed; a piece that stays, stays. -/
theorem C11_spec_captured (σ : Sym) (b : Spec.Board) (k : Nat) :
    ((σ.board b (σ.sq k)).isSome ∧ capture (σ.board b) (σ.sq k) = none ↔
      (b k).isSome ∧ capture b k = none) ∧
    capture (σ.board b) (σ.sq k) = (capture b k).map σ.cell := by
  rw [σ.capture_sq, σ.board_sq, σ.board_sq]
  refine ⟨?_, rfl⟩
  cases b k <;> cases capture b k <;> simp

/-- **The obligation left by a step maps to the obligation left by the image step.** -/
theorem C11_spec_next_pending (σ : Sym) (b : Spec.Board) (gold : Bool) (pend : Pending) (i : Nat)
    (d : Spec.Dir) (hi : i < 64) :
    nextPending (σ.board b) (σ.col gold) (σ.pend pend) (σ.sq i) (σ.dir d) =
      σ.pend (nextPending b gold pend i d) := by
  unfold nextPending
  rw [σ.board_sq, σ.pullEnd_sq b gold pend i d hi, σ.pend_isPush]
  cases b i with
  | none => rfl
  | some c =>
    simp only [Option.map, Sym.cell, Sym.col_bne]
    split
    · split <;> rfl
    · split <;> rfl

/-! ### results -/

/-- **Results map to the correspondingly swapped results.**  The three scans behind the win
conditions (a rabbit on its goal rank, a rabbit left, a step available) are invariant, and the
result at the start of a turn of the image position is the image of the result: unchanged under
`mirror`, Gold's win exchanged with Silver's under `swap` and `both`. -/
theorem C11_spec_result (σ : Sym) (b : Spec.Board) (goldToMove : Bool) :
    result (σ.board b) (σ.col goldToMove) = (result b goldToMove).map σ.res ∧
    (∀ g, rabbitOnGoal (σ.board b) (σ.col g) = rabbitOnGoal b g) ∧
    (∀ g, hasRabbit (σ.board b) (σ.col g) = hasRabbit b g) ∧
    (∀ g, hasStep (σ.board b) (σ.col g) = hasStep b g) := by
  refine ⟨?_, σ.rabbitOnGoal_sq b, σ.hasRabbit_sq b, σ.hasStep_sq b⟩
  unfold result
  simp only [← σ.col_not, σ.rabbitOnGoal_sq, σ.hasRabbit_sq, σ.hasStep_sq, σ.win_col]
  repeat' split
  all_goals rfl

/-- how the results are exchanged -/
theorem C11_result_swap :
    Sym.mirror.res .goldWin = .goldWin ∧ Sym.mirror.res .silverWin = .silverWin ∧
    Sym.swap.res .goldWin = .silverWin ∧ Sym.swap.res .silverWin = .goldWin ∧
    Sym.both.res .goldWin = .silverWin ∧ Sym.both.res .silverWin = .goldWin :=
  ⟨rfl, rfl, rfl, rfl, rfl, rfl⟩

/-! ### whole games -/

/-- **One action of the game.**  In the image state the image action is offered exactly when the
action is offered in the original state, and then the successor states are again images of each
other.  (`State.enabled`: a step from a square of the board allowed by `enabledMove`, or a pass
allowed by `passEnabled`; `State.next`: `applyStep`, then the step counter and `nextPending`, or
the change of sides after the fourth step or a pass.) -/
theorem C11_spec_step (σ : Sym) (s : State) (a : Act) :
    (σ.state s).enabled (σ.act a) = s.enabled a ∧
    (s.enabled a = true → (σ.state s).next (σ.act a) = σ.state (s.next a)) := by
  cases a with
  | pass =>
    refine ⟨?_, fun _ => ?_⟩
    · exact (C11_spec_enabled σ s.board s.gold s.step s.pend 0 .n (by omega)).2.1
    · simp only [Sym.act, Sym.state, State.next, σ.col_not, Sym.pend]
  | move i d =>
    by_cases hi : i < 64
    · refine ⟨?_, fun _ => ?_⟩
      · simp only [Sym.act, Sym.state, State.enabled, σ.enabledMove_sq _ _ _ _ i d hi, hi, σ.sq_lt i hi]
      · simp only [Sym.act, Sym.state, State.next]
        rw [(C11_spec_apply σ s.board i 0 d hi).1, C11_spec_next_pending σ s.board s.gold s.pend i d hi]
        by_cases h3 : s.step < 3
        · simp only [h3, if_true]
        · simp only [h3, if_false, σ.col_not, Sym.pend]
    · have hi' : ¬ σ.sq i < 64 := fun h => hi ((σ.sq_lt_iff i).1 h)
      refine ⟨?_, fun h => ?_⟩
      · simp only [Sym.act, State.enabled, hi, hi', decide_false, Bool.false_and]
      · simp only [State.enabled, hi, decide_false, Bool.false_and, Bool.false_eq_true] at h

/-- The offered sets correspond in both directions: an action is offered in the image state
exactly when its image is offered in the original state. -/
theorem C11_spec_offered_image (σ : Sym) (s : State) (a' : Act) :
    (σ.state s).enabled a' = s.enabled (σ.act a') := by
  have := (C11_spec_step σ s (σ.act a')).1
  rwa [σ.act_act] at this

/-- **Whole games.**  Playing the image actions from the image state succeeds (every action is
offered when its turn comes) exactly when playing the original actions from the original state
does, and the final states are images of each other. -/
theorem C11_spec_game (σ : Sym) (s : State) (as : List Act) :
    (σ.state s).run (as.map σ.act) = (s.run as).map σ.state := by
  induction as generalizing s with
  | nil => rfl
  | cons a as ih =>
    simp only [List.map_cons, State.run, (C11_spec_step σ s a).1]
    cases h : s.enabled a with
    | false => rfl
    | true =>
      simp only [if_true]
      rw [(C11_spec_step σ s a).2 h, ih]

/-- **Every state of the game.**  The lists of all states passed (the start included) correspond
state by state. -/
theorem C11_spec_game_trace (σ : Sym) (s : State) (as : List Act) :
    State.trace (σ.state s) (as.map σ.act) = (State.trace s as).map (List.map σ.state) := by
  induction as generalizing s with
  | nil => rfl
  | cons a as ih =>
    simp only [List.map_cons, State.trace, (C11_spec_step σ s a).1]
    cases h : s.enabled a with
    | false => rfl
    | true =>
      simp only [if_true]
      rw [(C11_spec_step σ s a).2 h, ih]
      cases State.trace (s.next a) as <;> rfl

/-- **At every state of a game**: if a list of actions can be played from `s` and leads to `t`,
the image list can be played from the image of `s` and leads to the image of `t`; there the
offered actions are exactly the images of the actions offered in `t` (both directions), and the
result announced is the image of the result announced in `t`. -/
theorem C11_spec_game_everywhere (σ : Sym) (s t : State) (as : List Act) (h : s.run as = some t) :
    (σ.state s).run (as.map σ.act) = some (σ.state t) ∧
    (∀ a, (σ.state t).enabled (σ.act a) = t.enabled a) ∧
    (∀ a', (σ.state t).enabled a' = t.enabled (σ.act a')) ∧
    (σ.state t).result = t.result.map σ.res := by
  refine ⟨by rw [C11_spec_game, h]; rfl, fun a => (C11_spec_step σ t a).1,
    C11_spec_offered_image σ t, ?_⟩
  unfold State.result
  simp only [Sym.state]
  by_cases h0 : t.step = 0
  · simp only [h0, if_true]; exact (C11_spec_result σ t.board t.gold).1
  · simp only [h0, if_false]; rfl

/-! ### transfer to the implementation model

Relational, no permutation of bits: two play-phase model states whose abstractions are images of
each other (`SymRel σ s pp s' pp'`: `absBoard s'.board = σ (absBoard s.board)`, `s'.p1Turn = σ
s.p1Turn`, equal step numbers, `absPend pp'.pps = σ (absPend pp.pps)`) offer corresponding
rule-only lists and step to states that are again images of each other.  Uses the refinement
`enabled_iff` (C01), `abs_takeMove` (C02), `nextStatus_eq` (C12) on both sides.  `PlayInv` (board
well-formed, status names an empty square, step ≤ 3) holds in every reachable play-phase state
(`playInv_step`). `σ.idir` is the action on the model's directions (`dirSpec (σ.idir d) = σ.dir
(dirSpec d)`), `σ.iact` the action on the model's actions. -/

/-- **Offered steps of the model map to offered steps** (rule-only list): for states related by
`σ`, the image step is in the image state's `validActionsNoRep` exactly when the step is in the
original state's. -/
theorem C11_impl_offered (σ : Sym) (s s' : GameState) (pp pp' : PlayPhase)
    (h : PlayInv s pp) (h' : PlayInv s' pp')
    (hb : absBoard s'.board = σ.board (absBoard s.board)) (ht : s'.p1Turn = σ.col s.p1Turn)
    (hs : pp'.step = pp.step) (hp : absPend pp'.pps = σ.pend (absPend pp.pps))
    (i : Nat) (d : Dir) :
    Action.move (σ.sq i) (σ.idir d) ∈ s'.validActionsNoRep ↔ Action.move i d ∈ s.validActionsNoRep := by
  rw [enabled_iff s pp h.phase h.wf h.pend i d, enabled_iff s' pp' h'.phase h'.wf h'.pend, hb, ht, hs, hp,
    dirSpec_idir, σ.sq_lt_iff]
  constructor
  · rintro ⟨hi, he⟩; exact ⟨hi, by rw [← σ.enabledMove_sq _ _ _ _ i _ hi]; exact he⟩
  · rintro ⟨hi, he⟩; exact ⟨hi, by rw [σ.enabledMove_sq _ _ _ _ i _ hi]; exact he⟩

/-- **All offered actions of the model correspond** (steps and the pass; rule-only list), in both
directions. -/
theorem C11_impl_offered_all (σ : Sym) (s s' : GameState) (pp pp' : PlayPhase)
    (h : PlayInv s pp) (h' : PlayInv s' pp') (hr : SymRel σ s pp s' pp') (a : Action) :
    (σ.iact a ∈ s'.validActionsNoRep ↔ a ∈ s.validActionsNoRep) ∧
    (a ∈ s'.validActionsNoRep ↔ σ.iact a ∈ s.validActionsNoRep) := by
  have key : ∀ a, σ.iact a ∈ s'.validActionsNoRep ↔ a ∈ s.validActionsNoRep := by
    intro a
    rw [offered_iff_enabled s pp h a, offered_iff_enabled s' pp' h' (σ.iact a), absAct_iact,
      (symRel_iff σ s pp s' pp').1 hr]
    cases absAct a with
    | none => simp
    | some a1 =>
      simp only [Option.map, Option.some.injEq]
      constructor
      · rintro ⟨a2, rfl, he⟩; exact ⟨a1, rfl, by rw [← (C11_spec_step σ _ a1).1]; exact he⟩
      · rintro ⟨a2, rfl, he⟩; exact ⟨_, rfl, by rw [(C11_spec_step σ _ a1).1]; exact he⟩
  refine ⟨key a, ?_⟩
  have := key (σ.iact a)
  rwa [iact_iact] at this

/-- **At the start of a turn the offered lists themselves correspond** (`validActions`, repetition
rules on): there the repetition rules withhold nothing (`validActions_eq_noRep_step0`), in either
game, so the correspondence of the rule-only lists is the correspondence of the offered lists. -/
theorem C11_impl_offered_turn_start (σ : Sym) (s s' : GameState) (pp pp' : PlayPhase)
    (h : PlayInv s pp) (h' : PlayInv s' pp') (hr : SymRel σ s pp s' pp') (h0 : pp.step = 0)
    (a : Action) :
    σ.iact a ∈ s'.validActions ↔ a ∈ s.validActions := by
  rw [validActions_eq_noRep_step0 s pp h.phase h0,
    validActions_eq_noRep_step0 s' pp' h'.phase (by rw [hr.step, h0])]
  exact (C11_impl_offered_all σ s s' pp pp' h h' hr a).1

/-- **Successors are again related.**  Taking an offered action in one state and its image in the
related state leads to play-phase states that satisfy the invariant and are again images of each
other (so the boards after the step, captures included, the side to move, the step number and the
push/pull status all correspond). -/
theorem C11_impl_step (σ : Sym) (s s' : GameState) (pp pp' : PlayPhase)
    (h : PlayInv s pp) (h' : PlayInv s' pp') (hr : SymRel σ s pp s' pp') (a : Action)
    (ha : a ∈ s.validActionsNoRep) :
    σ.iact a ∈ s'.validActionsNoRep ∧
    ∃ pp1 pp1', PlayInv (s.takeAction a) pp1 ∧ PlayInv (s'.takeAction (σ.iact a)) pp1' ∧
      SymRel σ (s.takeAction a) pp1 (s'.takeAction (σ.iact a)) pp1' := by
  have ha' := (C11_impl_offered_all σ s s' pp pp' h h' hr a).1.2 ha
  obtain ⟨pp1, hi1⟩ := playInv_step s pp h a ha
  obtain ⟨pp1', hi1'⟩ := playInv_step s' pp' h' _ ha'
  refine ⟨ha', pp1, pp1', hi1, hi1', ?_⟩
  obtain ⟨a1, e1, n1⟩ := absState_takeAction s pp h a ha pp1 hi1.phase
  obtain ⟨a2, e2, n2⟩ := absState_takeAction s' pp' h' _ ha' pp1' hi1'.phase
  rw [absAct_iact, e1] at e2
  simp only [Option.map, Option.some.injEq] at e2
  subst e2
  have hen : (absState s pp).enabled a1 = true := by
    obtain ⟨a1', e1', he⟩ := (offered_iff_enabled s pp h a).1 ha
    rw [e1] at e1'; simp only [Option.some.injEq] at e1'; subst e1'; exact he
  rw [symRel_iff, n2, n1, (symRel_iff σ s pp s' pp').1 hr, (C11_spec_step σ _ a1).2 hen]

/-- **Whole games of the model** (rule-only lists): if a list of actions can be played from `s`,
each being in the rule-only list when its turn comes, the image list can be played from a related
state `s'`, and the final states are again related play-phase states; in particular
(`C11_impl_offered_all`) their rule-only lists correspond. -/
theorem C11_impl_game (σ : Sym) (as : List Action) (s s' : GameState) (pp pp' : PlayPhase)
    (h : PlayInv s pp) (h' : PlayInv s' pp') (hr : SymRel σ s pp s' pp') (hpl : PlayableNoRep s as) :
    PlayableNoRep s' (as.map σ.iact) ∧
    ∃ pp1 pp1', PlayInv (s.run as) pp1 ∧ PlayInv (s'.run (as.map σ.iact)) pp1' ∧
      SymRel σ (s.run as) pp1 (s'.run (as.map σ.iact)) pp1' := by
  induction as generalizing s s' pp pp' with
  | nil => exact ⟨trivial, pp, pp', h, h', hr⟩
  | cons a as ih =>
    obtain ⟨ha, hrest⟩ := hpl
    obtain ⟨ha', pp1, pp1', hi1, hi1', hr1⟩ := C11_impl_step σ s s' pp pp' h h' hr a ha
    obtain ⟨hp2, pp2, pp2', hi2, hi2', hr2⟩ := ih _ _ pp1 pp1' hi1 hi1' hr1 hrest
    exact ⟨⟨ha', hp2⟩, pp2, pp2', hi2, hi2', hr2⟩

/-- **Results of the model at the start of a turn are the swapped results.**  For related states
at the start of a turn (step 0, no push/pull status) `isTerminal` of the image state is the image
of `isTerminal` of the original: the same under `mirror`, winners exchanged under `swap` and
`both`.  (In the middle of a turn `isTerminal` asks whether the offered list *with* the
repetition rules is empty; that belongs to the repetition clause of C11, which is not part of this
file.) -/
theorem C11_impl_result (σ : Sym) (s s' : GameState) (pp pp' : PlayPhase)
    (h : PlayInv s pp) (h' : PlayInv s' pp') (hr : SymRel σ s pp s' pp')
    (h0 : pp.step = 0) (hpps : pp.pps = .none) :
    s'.isTerminal = s.isTerminal.map σ.ires := by
  have hpps' : pp'.pps = .none := by
    apply absPend_eq_none
    rw [hr.pend, hpps]; rfl
  rw [isTerminal_turn_start s pp h.phase h.wf h0 hpps,
    isTerminal_turn_start s' pp' h'.phase h'.wf (by rw [hr.step, h0]) hpps', hr.board, hr.turn,
    (C11_spec_result σ _ _).1]
  cases Spec.result (absBoard s.board) s.p1Turn with
  | none => rfl
  | some r => simp only [Option.map, terminalOf_res]

/-! ### non-vacuity -/

section Examples

-- the three images of the board: a7 ↦ h7 / a2 / h2, with the colour kept / exchanged / exchanged
example : Sym.mirror.board exBoardSym 15 = some ⟨true, .rabbit⟩ ∧ Sym.mirror.board exBoardSym 8 = none ∧
    Sym.swap.board exBoardSym 48 = some ⟨false, .rabbit⟩ ∧ Sym.swap.board exBoardSym 8 = none ∧
    Sym.both.board exBoardSym 55 = some ⟨false, .rabbit⟩ ∧ Sym.both.board exBoardSym 8 = some ⟨true, .rabbit⟩ := by
  decide

-- frozen: the silver rabbit c5 and its images f5, c4 (now gold), f4 (now gold)
example : frozen exBoardSym 26 = true ∧ frozen (Sym.mirror.board exBoardSym) 29 = true ∧
    frozen (Sym.swap.board exBoardSym) 34 = true ∧ frozen (Sym.both.board exBoardSym) 37 = true ∧
    frozen exBoardSym 27 = false ∧ frozen (Sym.both.board exBoardSym) 36 = false := by decide

-- offered: the gold rabbit a7 may step north, not south; its swapped image, a silver rabbit on
-- a2, may step south, not north; the mirrored one on h7 north, not south
example : enabledMove exBoardSym true 0 .none 8 .n = true ∧ enabledMove exBoardSym true 0 .none 8 .s = false ∧
    enabledMove (Sym.swap.board exBoardSym) false 0 .none 48 .s = true ∧
    enabledMove (Sym.swap.board exBoardSym) false 0 .none 48 .n = false ∧
    enabledMove (Sym.mirror.board exBoardSym) true 0 .none 15 .n = true ∧
    enabledMove (Sym.mirror.board exBoardSym) true 0 .none 15 .s = false := by decide

-- offered: the elephant d5 may push the rabbit c5 west (to b5); in the half-turned position the
-- silver elephant e4 may push the gold rabbit f4 east (to g4); the obligations correspond
example : pushStart exBoardSym true 0 26 .w = true ∧
    pushStart (Sym.both.board exBoardSym) false 0 37 .e = true ∧
    nextPending exBoardSym true .none 26 .w = .push 26 .rabbit ∧
    nextPending (Sym.both.board exBoardSym) false .none 37 .e = .push 37 .rabbit ∧
    pushEnd (applyStep exBoardSym 26 .w) true (.push 26 .rabbit) 27 .w = true ∧
    pushEnd (applyStep (Sym.both.board exBoardSym) 37 .e) false (.push 37 .rabbit) 36 .e = true := by decide

-- captures: when the cat c2 steps west the horse on c3 is captured; mirrored: cat f2 steps east
-- and the horse on f3 is captured; swapped: silver cat c7 steps west, silver horse on c6 captured
example : exBoardSym 42 = some ⟨true, .horse⟩ ∧ applyStep exBoardSym 50 .w 42 = none ∧
    Sym.mirror.board exBoardSym 45 = some ⟨true, .horse⟩ ∧ applyStep (Sym.mirror.board exBoardSym) 53 .e 45 = none ∧
    Sym.swap.board exBoardSym 18 = some ⟨false, .horse⟩ ∧ applyStep (Sym.swap.board exBoardSym) 10 .w 18 = none := by
  decide

-- results: after the rabbit reaches a8 Gold has won; in the swapped game Silver has won
example : result (applyStep exBoardSym 8 .n) false = some .goldWin ∧
    result (applyStep (Sym.mirror.board exBoardSym) 15 .n) false = some .goldWin ∧
    result (applyStep (Sym.swap.board exBoardSym) 48 .s) true = some .silverWin ∧
    result (applyStep (Sym.both.board exBoardSym) 55 .s) true = some .silverWin ∧
    result exBoardSym true = none ∧ result (Sym.swap.board exBoardSym) false = none := by decide

-- the hypothesis of `C11_spec_game_everywhere` is satisfiable: the game can be played, and so
-- can its three images
example : (State.run ⟨exBoardSym, true, 0, .none⟩ exGame).isSome = true ∧
    (State.run (Sym.mirror.state ⟨exBoardSym, true, 0, .none⟩) (exGame.map Sym.mirror.act)).isSome = true ∧
    (State.run (Sym.swap.state ⟨exBoardSym, true, 0, .none⟩) (exGame.map Sym.swap.act)).isSome = true ∧
    (State.run (Sym.both.state ⟨exBoardSym, true, 0, .none⟩) (exGame.map Sym.both.act)).isSome = true := by
  decide

-- ... and not every list can be played (the machine is not trivially permissive)
example : State.run ⟨exBoardSym, true, 0, .none⟩ [.move 26 .w, .pass] = none := by decide

-- the hypotheses `PlayInv`, `PlayInv`, `SymRel` of the transfer theorems are satisfiable, for each
-- of the three symmetries (`exModel_rel`), and so is `PlayableNoRep` of `C11_impl_game`
example (σ : Sym) :
    PlayInv (exModelState exModelBoard true) (PlayPhase.initial 0 []) ∧
    PlayInv (exModelState (exModelImage σ) (σ.col true)) (PlayPhase.initial 0 []) ∧
    SymRel σ (exModelState exModelBoard true) (PlayPhase.initial 0 [])
      (exModelState (exModelImage σ) (σ.col true)) (PlayPhase.initial 0 []) := exModel_rel σ

example : PlayableNoRep (exModelState exModelBoard true) [.move 26 .left, .move 27 .left, .pass] :=
  ⟨by decide +kernel, by decide +kernel, by decide +kernel, trivial⟩

-- the offered steps of the model correspond on the example: the elephant's push of c5
example : Action.move 26 .left ∈ (exModelState exModelBoard true).validActionsNoRep ∧
    Action.move 37 .right ∈ (exModelState (exModelImage .both) false).validActionsNoRep := by
  decide +kernel

end Examples

end Arimaa
