import Arimaa.Lemmas.Setup

/-!
# C09 — setup: 16 pieces per side, fixed square order, then play

Vocabulary (definitions in `Lemmas/Setup.lean`):

* `placementSquare k = if k < 16 then 48 + k else k - 16` — the square filled by placement number
  `k` (0-based).  Bit `i` is file `i % 8`, rank `8 - i / 8`, so these are a2..h2, a1..h1 for Gold
  (`k = 0..15`) and a8..h8, a7..h7 for Silver (`k = 16..31`), see `C09_square_order`.
* `complement` — 1 elephant, 1 camel, 2 horses, 2 dogs, 2 cats, 8 rabbits.
* `moverCount s t` — `popcount (typeBits t &&& curr_player_piece_mask)`: how many pieces of type
  `t` the side to move has on the board (this is what `valid_placement` counts).
* `SetupShape k s` — the state-only invariant "`s` is a setup state after `k < 32` placements":
  board shape, side to move `= (k < 16)`, move number 1, place phase, mover's counts within the
  complement and summing to `k % 16`.
* `SetupRun ps s` — `s` is reached from `GameState::initial()` by taking offered actions
  `Place(ps[0]), Place(ps[1]), …` (each `∈ s.validActions`).
* `moverPlaced ps` — the pieces placed so far by the side to move (`ps` for Gold, `ps.drop 16`
  for Silver).
-/
namespace Arimaa
open Gen

/-- The placement order on the board: placements 0..7 go to rank 2, 8..15 to rank 1 (Gold),
16..23 to rank 8, 24..31 to rank 7 (Silver), each from file a to file h. -/
theorem C09_square_order (k : Nat) (hk : k < 32) :
    placementSquare k < 64 ∧ placementSquare k % 8 = k % 8 ∧
      8 - placementSquare k / 8 = (if k < 8 then 2 else if k < 16 then 1 else if k < 24 then 8 else 7) := by
  unfold placementSquare
  refine ⟨?_, ?_, ?_⟩ <;> split <;> (try split) <;> (try split) <;> omega

/-- No placement is offered once the play phase has begun (with or without the repetition
filter), so no game contains more than thirty-two placements. -/
theorem C09_at_most_32 :
    (∀ (s : GameState) (pp : PlayPhase) (chk : Bool) (p : Piece), s.phase = .play pp →
      Action.place p ∉ s.validActions_ chk) ∧
    (∀ (ps : List Piece) (s : GameState), SetupRun ps s → ps.length ≤ 32) :=
  ⟨fun s pp chk _ h hv => validActions_play_notPlace s pp h chk _ hv,
   fun _ _ hr => setupRun_length_le hr⟩

/-- Board shape after any offered placements from the initial state (`k = ps.length`, `k ≤ 32` by
`C09_at_most_32`):
Gold's pieces occupy exactly bits `48 .. 48 + min k 16 - 1`, the occupied squares are those plus
bits `0 .. k - 16 - 1` (Silver's), the six type boards are pairwise disjoint with union `all`, and
square number `j` of the placement order holds a piece of the type chosen at placement `j`
(and of no other type) — so nothing but the chosen squares ever changes. -/
theorem C09_board_shape {ps : List Piece} {s : GameState} (hr : SetupRun ps s) :
    (∀ i, i < 64 → (bit s.board.all i = true ↔
        (48 ≤ i ∧ i < 48 + min ps.length 16) ∨ i < ps.length - 16)) ∧
    (∀ i, i < 64 → (bit s.board.p1 i = true ↔ 48 ≤ i ∧ i < 48 + min ps.length 16)) ∧
    s.board.all = s.board.elephants ||| s.board.camels ||| s.board.horses ||| s.board.dogs
      ||| s.board.cats ||| s.board.rabbits ∧
    (∀ t u, t ≠ u → s.board.typeBits t &&& s.board.typeBits u = 0) ∧
    (∀ j t, j < ps.length →
      bit (s.board.typeBits t) (placementSquare j) = decide (ps[j]? = some t)) := by
  have hk := setupRun_length_le hr
  by_cases h32 : ps.length = 32
  · obtain ⟨hb, hc, _⟩ := setupRun_final hr h32
    rw [← h32] at hb
    exact ⟨hb.all_iff, hb.p1_iff, hb.union, hb.disjoint, hc⟩
  · obtain ⟨hs, hc, _⟩ := setupRun_shape hr (by omega)
    exact ⟨hs.board.all_iff, hs.board.p1_iff, hs.board.union, hs.board.disjoint, hc⟩

/-- `placement_bit` of a setup state after `k` placements is the single bit of
`placementSquare k`; `Square::from_bit_board` of it is that square; the square is on the board and
empty, and every earlier square of the placement order is occupied (it is the *next free* one). -/
theorem C09_placement_bit {k : Nat} {s : GameState} (h : SetupShape k s) :
    s.board.placementBit = sqBit (placementSquare k) ∧
    sqOfBit s.board.placementBit = placementSquare k ∧
    placementSquare k < 64 ∧
    bit s.board.all (placementSquare k) = false ∧
    (∀ j, j < k → bit s.board.all (placementSquare j) = true) := by
  have hq := placementSquare_lt k h.lt
  refine ⟨h.board.placementBit_eq h.lt, ?_, hq, h.board.all_next h.lt, ?_⟩
  · rw [h.board.placementBit_eq h.lt, setup_sqOfBit_sqBit _ hq]
  · intro j hj
    have hk := h.lt
    rw [h.board.all_eq _ (placementSquare_lt j (by omega))]
    unfold placementSquare
    split <;> simp <;> omega

/-- Effect of one placement at a setup state after `k` placements: the square `placementSquare k`
was empty; the type board of the chosen piece gains exactly that bit and the other five type
boards are unchanged; `p1_pieces` gains the bit iff Gold is the mover; `all_pieces` gains the bit;
nothing else changes on any of the eight boards.  In the code's own queries: the new square holds
a piece of type `p` (`piece_type_at_square`) owned by the mover. -/
theorem C09_place_effect {k : Nat} {s : GameState} (h : SetupShape k s) (p : Piece) :
    bit s.board.all (placementSquare k) = false ∧
    (∀ t, (s.takeAction (.place p)).board.typeBits t =
      if t = p then s.board.typeBits t ||| sqBit (placementSquare k) else s.board.typeBits t) ∧
    (s.takeAction (.place p)).board.p1 =
      (if s.p1Turn then s.board.p1 ||| sqBit (placementSquare k) else s.board.p1) ∧
    (s.takeAction (.place p)).board.all = s.board.all ||| sqBit (placementSquare k) ∧
    (s.takeAction (.place p)).board.pieceTypeAtSquare (placementSquare k) = some p ∧
    bit (s.takeAction (.place p)).board.p1 (placementSquare k) = s.p1Turn := by
  show _ ∧ (∀ t, (s.place p).board.typeBits t = _) ∧ (s.place p).board.p1 = _ ∧
    (s.place p).board.all = _ ∧ (s.place p).board.pieceTypeAtSquare _ = _ ∧
    bit (s.place p).board.p1 _ = _
  have hq := placementSquare_lt k h.lt
  have hpb := h.board.placementBit_eq h.lt
  have hall : (s.place p).board.all = s.board.all ||| sqBit (placementSquare k) := by
    rw [place_all s p h.board.union, hpb]
  have hp1 : (s.place p).board.p1 =
      (if s.p1Turn then s.board.p1 ||| sqBit (placementSquare k) else s.board.p1) := by
    rw [place_p1, hpb]
    cases s.p1Turn
    · simp only [Bool.false_eq_true, if_false]
      apply bb_ext; intro i _; rw [bit_or, bit_zero, Bool.or_false]
    · simp only [if_true]
  have hty : ∀ t, (s.place p).board.typeBits t =
      if t = p then s.board.typeBits t ||| sqBit (placementSquare k) else s.board.typeBits t := by
    intro t; rw [place_typeBits, hpb]
  refine ⟨h.board.all_next h.lt, hty, hp1, hall, ?_, ?_⟩
  · unfold Board.pieceTypeAtSquare
    rw [BitVec.and_comm, setup_and_sqBit_ne_zero _ _ hq, hall, bit_or, sqBit_self _ hq, Bool.or_true,
      if_pos rfl]
    congr 1
    apply pieceTypeAtBit_of_unique _ _ hq
    intro t
    rw [hty]
    by_cases htp : t = p
    · simp [htp, bit_or, sqBit_self _ hq]
    · simp [htp, h.board.type_next h.lt t]
  · rw [hp1]
    cases s.p1Turn
    · simp only [Bool.false_eq_true, if_false]; exact h.board.p1_next h.lt
    · simp only [if_true]; rw [bit_or, sqBit_self _ hq, Bool.or_true]

/-- The hash update of a placement uses exactly that square, the mover's colour, and the two
hand-over flags "Gold's last square" (`k = 15`) and "Silver's last square" (`k = 31`). -/
theorem C09_place_hash {k : Nat} {s : GameState} (h : SetupShape k s) (p : Piece) :
    (s.takeAction (.place p)).hash =
      zPlacePiece s.hash p (placementSquare k) s.p1Turn (decide (k = 15)) (decide (k = 31)) :=
  place_hash_eq h.board h.lt p

/-- An offered placement leads from "setup state after `k` placements" to "setup state after
`k + 1` placements" (as long as the setup is not finished by it). -/
theorem C09_place_shape {k : Nat} {s : GameState} (h : SetupShape k s) (hk : k + 1 < 32)
    (p : Piece) (hv : Action.place p ∈ s.validActions) :
    SetupShape (k + 1) (s.takeAction (.place p)) := by
  rw [validActions_place s h.phase, mem_validPlacement] at hv
  exact h.place hk p hv

/-- In the place phase the offered actions are exactly `Place(t)` for the piece types `t`, in the
order elephant, camel, horse, dog, cat, rabbit, of which the mover has fewer than the full
complement (1, 1, 2, 2, 2, 8) on the board. -/
theorem C09_offered (s : GameState) (hph : s.phase = .place) :
    s.validActions =
      (([.elephant, .camel, .horse, .dog, .cat, .rabbit] : List Piece).filter
        (fun t => decide (moverCount s t < complement t))).map Action.place := by
  rw [validActions_place s hph, validPlacement_eq]; rfl

/-- The same along a game: after the offered placements `ps` (fewer than 32) the offered actions
are exactly `Place(t)` for the types `t` that the mover has placed fewer times than the full
complement — the number of `t` among the mover's own placements so far. -/
theorem C09_offered_history {ps : List Piece} {s : GameState} (hr : SetupRun ps s)
    (hk : ps.length < 32) :
    s.validActions =
      (([.elephant, .camel, .horse, .dog, .cat, .rabbit] : List Piece).filter
        (fun t => decide ((moverPlaced ps).count t < complement t))).map Action.place := by
  obtain ⟨hs, _, hg⟩ := setupRun_shape hr hk
  rw [C09_offered s hs.phase]
  congr 2
  funext t
  rw [hg t]

/-- During setup something is always offered, and every offered action is a placement of a type
the mover has not yet completed. -/
theorem C09_offered_nonempty {k : Nat} {s : GameState} (h : SetupShape k s) :
    s.validActions ≠ [] ∧
    (∀ a, a ∈ s.validActions → ∃ p, a = Action.place p ∧ moverCount s p < complement p) ∧
    (∀ p, Action.place p ∈ s.validActions ↔ moverCount s p < complement p) := by
  rw [validActions_place s h.phase]
  refine ⟨?_, ?_, mem_validPlacement s⟩
  · obtain ⟨t, ht⟩ := h.exists_offered
    exact List.ne_nil_of_mem ((mem_validPlacement s t).mpr ht)
  · intro a ha
    have ha' := ha
    rw [validPlacement_eq, List.mem_map] at ha'
    obtain ⟨p, _, rfl⟩ := ha'
    exact ⟨p, rfl, (mem_validPlacement s p).mp ha⟩

/-- Hand-over.  At a setup state after `k` placements, placing a piece:
* `k = 15` (Gold's sixteenth): Gold was on move, now Silver is, still place phase, move number 1;
* `k = 31` (Silver's sixteenth): Silver was on move, now Gold is, move number 2, and the phase is
  the play phase at step 0 (no earlier boards of this turn), nothing pending, the repetition
  history holding just the new hash, which is also the turn's initial hash;
* otherwise the side to move does not change, the phase stays place and the move number 1. -/
theorem C09_handover {k : Nat} {s : GameState} (h : SetupShape k s) (p : Piece) :
    (k = 15 → s.p1Turn = true ∧ (s.takeAction (.place p)).p1Turn = false ∧
      (s.takeAction (.place p)).phase = .place ∧ (s.takeAction (.place p)).moveNo = 1) ∧
    (k = 31 → s.p1Turn = false ∧ (s.takeAction (.place p)).p1Turn = true ∧
      (s.takeAction (.place p)).moveNo = 2 ∧
      ∃ pp, (s.takeAction (.place p)).phase = .play pp ∧ pp.step = 0 ∧ pp.prev = [] ∧
        pp.pps = .none ∧ pp.hist = [(s.takeAction (.place p)).hash] ∧
        pp.initHash = (s.takeAction (.place p)).hash ∧ pp.trapped = false) ∧
    (k ≠ 15 → k ≠ 31 → (s.takeAction (.place p)).p1Turn = s.p1Turn ∧
      (s.takeAction (.place p)).phase = .place ∧ (s.takeAction (.place p)).moveNo = 1) := by
  have ht := place_p1Turn_eq h.board h.lt h.turn p
  have hm := place_moveNo_eq h.board h.lt p
  have hp := place_phase_eq h.board h.lt p
  have hturn := h.turn
  simp only [takeAction_place]
  refine ⟨?_, ?_, ?_⟩
  · intro hk; subst hk
    exact ⟨by simpa using hturn, by simpa using ht, by simpa using hp, by simpa using hm⟩
  · intro hk; subst hk
    refine ⟨by simpa using hturn, by simpa using ht, by simpa using hm,
      PlayPhase.initial (s.place p).hash [(s.place p).hash], by simpa using hp,
      rfl, rfl, rfl, rfl, rfl, rfl⟩
  · intro h15 h31
    have hlt := h.lt
    have h1 : (k + 1 < 16) ↔ (k < 16) := by omega
    refine ⟨?_, by simpa [h31] using hp, by simpa [h31] using hm⟩
    show (s.place p).p1Turn = s.p1Turn
    rw [ht, hturn]; simp [h1, h31]

/-- Reachability: after any list `ps` of fewer than 32 offered placements from the initial state
the state is a setup state after `ps.length` placements (so all theorems above apply to it), the
mover's on-board counts are the counts of the mover's own placements, and `placement_bit` is a
single bit `sqBit q` of an on-board empty square (the hypothesis the hash package needs). -/
theorem C09_reachable {ps : List Piece} {s : GameState} (hr : SetupRun ps s)
    (hk : ps.length < 32) :
    SetupShape ps.length s ∧
    (∀ t, moverCount s t = (moverPlaced ps).count t) ∧
    (∃ q, q = placementSquare ps.length ∧ q < 64 ∧ s.board.placementBit = sqBit q ∧
      bit s.board.all q = false) := by
  obtain ⟨hs, _, hg⟩ := setupRun_shape hr hk
  obtain ⟨h1, _, h3, h4, _⟩ := C09_placement_bit hs
  exact ⟨hs, hg, _, rfl, h3, h1, h4⟩

/-- After the thirty-second offered placement: the play phase has begun with Gold to move, move
number 2, step 0, nothing pending, history = [hash]; Gold's sixteen placements and Silver's
sixteen placements were each exactly one full army (1 elephant, 1 camel, 2 horses, 2 dogs,
2 cats, 8 rabbits). -/
theorem C09_reachable_play {ps : List Piece} {s : GameState} (hr : SetupRun ps s)
    (h32 : ps.length = 32) :
    s.p1Turn = true ∧ s.moveNo = 2 ∧
    (∃ pp, s.phase = .play pp ∧ pp.step = 0 ∧ pp.pps = .none ∧ pp.hist = [s.hash] ∧
      pp.initHash = s.hash) ∧
    (∀ t, (ps.take 16).count t = complement t) ∧
    (∀ t, (ps.drop 16).count t = complement t) := by
  obtain ⟨_, _, ht, hm, hp⟩ := setupRun_final hr h32
  exact ⟨ht, hm, ⟨_, hp, rfl, rfl, rfl, rfl⟩, setupRun_gold_army hr (by omega) (by omega),
    setupRun_silver_army hr h32⟩

/-- Gold's army is complete as soon as Silver is on move (any `16 ≤ k`). -/
theorem C09_gold_army {ps : List Piece} {s : GameState} (hr : SetupRun ps s)
    (h16 : 16 ≤ ps.length) : ∀ t, (ps.take 16).count t = complement t :=
  setupRun_gold_army hr h16 (setupRun_length_le hr)

/-! ### non-vacuity -/

/-- the initial state is a setup state after 0 placements -/
example : SetupShape 0 GameState.initial := initial_shape

/-- `SetupRun [] initial`, hence `C09_reachable` applies with `ps = []` -/
example : SetupRun [] GameState.initial := SetupRun.init

/-- a concrete complete setup (`exampleOrder`: rabbits in front for Gold, majors first for Silver)
is offered step by step by the model (`exampleOrder_run`, kernel evaluation) … -/
example : ∃ s, SetupRun exampleOrder s ∧ exampleOrder.length = 32 := exampleOrder_run

/-- … so the hypotheses of `C09_reachable_play` are satisfiable … -/
example : ∃ s : GameState, s.p1Turn = true ∧ s.moveNo = 2 ∧ ∃ pp, s.phase = .play pp := by
  obtain ⟨s, hr, h32⟩ := exampleOrder_run
  obtain ⟨h1, h2, ⟨pp, h3, _⟩, _⟩ := C09_reachable_play hr h32
  exact ⟨s, h1, h2, pp, h3⟩

/-- … and direct evaluation of the model agrees: the play phase is reached with move number 2. -/
example : ((exampleOrder.foldl (fun s p => s.takeAction (.place p)) GameState.initial).moveNo = 2
    ∧ (exampleOrder.foldl (fun s p => s.takeAction (.place p)) GameState.initial).p1Turn = true
    ∧ (exampleOrder.foldl (fun s p => s.takeAction (.place p)) GameState.initial).board.p1
        = 0xffff000000000000#64
    ∧ (exampleOrder.foldl (fun s p => s.takeAction (.place p)) GameState.initial).board.all
        = 0xffff00000000ffff#64) := by decide +kernel

/-- setup states after 15 and after 31 placements exist (hypotheses of `C09_handover`) -/
example : (∃ s, SetupShape 15 s) ∧ (∃ s, SetupShape 31 s) := by
  have h15 : (runFrom GameState.initial (exampleOrder.take 15)).isSome = true := by decide +kernel
  have h31 : (runFrom GameState.initial (exampleOrder.take 31)).isSome = true := by decide +kernel
  obtain ⟨s15, hs15⟩ := Option.isSome_iff_exists.mp h15
  obtain ⟨s31, hs31⟩ := Option.isSome_iff_exists.mp h31
  have r15 := setupRun_of_runFrom _ [] _ s15 SetupRun.init hs15
  have r31 := setupRun_of_runFrom _ [] _ s31 SetupRun.init hs31
  exact ⟨⟨s15, (C09_reachable r15 (by decide)).1⟩, ⟨s31, (C09_reachable r31 (by decide)).1⟩⟩

end Arimaa
