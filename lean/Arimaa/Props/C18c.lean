import Arimaa.Props.C20

/-!
# C18 — concurrent RELEASE of shared histories

`Props/C18.lean` / `C18b.lean` cover reading and extending shared states from several threads.  The one place
where threads that only own clones of a state still interact is the moment they let go of them: the last owners
of a shared history run `Drop for List` concurrently.  With the `Arc::into_inner` loop that the source has
(selected from the regenerated `Gen.dropImpls`, `C20_current_variant`), under EVERY schedule exactly one of the
racing owners takes a node that both release, and no thread ever needs more than two frames; with an
`Arc::try_unwrap` loop — equivalent sequentially — both can fail and the tail is then freed by recursive drop
glue, once per history entry, on whichever thread comes last (`C20_try_unwrap_race`).  The corollary below puts
that obligation into C18's closure: a change of the Drop variant breaks it.
-/

namespace Arimaa.Props
open Arimaa Arimaa.ListStack

/-- **C18, concurrent release.**  Any number of threads, each dropping a handle of (or otherwise using) shared
history lists, under every schedule, with the `Drop` the source currently has: no thread's stack grows with the
length of the history. -/
theorem C18_concurrent_release (h : Heap) (work : List (Link ⊕ ListOp)) (sched : List Nat) (t : Nat) :
    currentVariant = .loopIntoInner ∧ cheight (crun ⟨h, work.map threadStart⟩ sched) t ≤ 2 :=
  ⟨C20_current_variant, C20_loop_bounded_concurrent h work sched t⟩

/-- the variant that is sequentially equivalent is not: for every bound there is a heap, a handle shared by two
threads and a schedule on which the second thread recurses deeper than the bound -/
theorem C18_try_unwrap_would_race : ∀ B : Nat, ∃ (h : Heap) (id : NodeId) (node : Node) (sched : List Nat),
    h[id]? = some node ∧ node.rc = 2 ∧
    B < cheight (crun ⟨h, [[dropFrame .loopTryUnwrap (some id)], [dropFrame .loopTryUnwrap (some id)]]⟩ sched) 1 :=
  C20_try_unwrap_race

end Arimaa.Props
