import Arimaa.Lemmas.RsAgreeList

/-!
# C19 — the history container cannot panic in a game that can be played

`C19_code_no_panic` (Props/C19r.lean) covers the regenerated functions of `engine.rs` with the history as a Lean list.
The container itself (`linked_list.rs`, regenerated on every run, `Gen/RsList.lean`) has exactly one panic site: the
checked `len() + 1` in `append`.  It is reached only by a list of `usize::MAX` entries; every other function of the
file is total.  The struct layout the translation assumes — the cached length is a `usize` — is checked by the
translator (a narrower counter is a broken tie, not a silent mis-translation).
-/

namespace Arimaa.Props
open Arimaa Arimaa.Rt Arimaa.Gen.RsList Arimaa.RsAgree.ListAgree

/-- **C19, code level (container).**  Recording one more position never panics on a history of fewer than
`usize::MAX` entries, and the result is again a list of that kind. -/
theorem C19_code_history_append_no_panic {T : Type} {l : Link T} (h : Built l) (x : T)
    (hb : (toList l).length < usizeMax) : ∃ l', List_append l x = .ok l' ∧ Built l' := by
  obtain ⟨l', h1, _, h3⟩ := (list_api_refines h).2.2.2.2.2.2 x (by omega)
  exact ⟨l', h1, h3⟩

/-- 2^16 turns without a capture are far inside the bound (the counter is a `usize`, not a narrower integer) -/
example : (70000 : Nat) < usizeMax := by simp [usizeMax]

end Arimaa.Props
