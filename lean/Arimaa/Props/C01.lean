import Arimaa.Lemmas.Nodup

/-!
C01 — Offered steps are exactly the legal Arimaa steps, pushes and pulls.

`PlayInv s pp` (Lemmas/Enabled.lean) is the invariant of reachable play-phase states: well-formed
board, the push/pull status names an empty on-board square, step ≤ 3.  It holds after every finished
setup (`playInv_of_setup`), for every parsed position (`C15_parse_wf`) and is preserved by every
action of the rule-only list (`playInv_step`), hence along every offered run (`playInv_run`).
`Spec.enabledMove` (Spec/Rules.lean) is the rule: own step of an unfrozen piece onto an empty
neighbour (rabbits never backward), first half of a push of a strictly weaker adjacent enemy piece by
an unfrozen stronger piece (not on the last step), second half of a pull, or - while a push is
pending - only its completion by an unfrozen strictly stronger piece.
-/
namespace Arimaa
open Gen Spec GameState

/-- **Offered steps = enabled steps.**  In every state satisfying the play invariant, a step
`(i, d)` is in the rule-only list iff `i` is on the board and the rules enable it, for every
combination of step index and pending push / possible pull. -/
theorem C01_enabled_iff (s : GameState) (pp : PlayPhase) (h : PlayInv s pp) (i : Nat) (d : Dir) :
    Action.move i d ∈ s.validActionsNoRep ↔
      i < 64 ∧ enabledMove (absBoard s.board) s.p1Turn pp.step (absPend pp.pps) i (dirSpec d) = true :=
  enabled_iff s pp h.phase h.wf h.pend i d

/-- The rule-only list of a play state contains nothing but steps and possibly the pass. -/
theorem C01_only_steps_and_pass (s : GameState) (pp : PlayPhase) (h : PlayInv s pp) (a : Action)
    (ha : a ∈ s.validActionsNoRep) : a = .pass ∨ ∃ i d, a = .move i d := by
  cases a with
  | pass => exact Or.inl rfl
  | move i d => exact Or.inr ⟨i, d, rfl⟩
  | place p =>
    exfalso
    obtain ⟨pp', h'⟩ := playInv_step s pp h _ ha
    -- a placement is never in the rule-only list of a play state
    unfold validActionsNoRep at ha
    cases hm : pp.pps.isMustCompletePush
    · rw [validActions__free s pp h.phase hm false] at ha
      simp only [Bool.false_eq_true, if_false, List.mem_append] at ha
      rcases ha with ha | ha
      · have := isMove_of_mem_stepList s pp _ ha
        simp [Action.isMove] at this
      · cases s.canPass false <;> simp at ha
    · rw [validActions__mcp s pp h.phase hm false] at ha
      simp only [Bool.false_eq_true, if_false] at ha
      have := isMove_of_mem_mustCompletePushActions s pp s.board _ ha
      simp [Action.isMove] at this

/-- **Pass.**  A pass is offered (rule-only list) exactly when at least one step has been made this
turn and no push is pending. -/
theorem C01_pass_iff (s : GameState) (pp : PlayPhase) (hph : s.phase = .play pp) :
    Action.pass ∈ s.validActionsNoRep ↔ passEnabled pp.step (absPend pp.pps) = true := by
  unfold validActionsNoRep
  rw [pass_mem_validActions__iff, canPass_play s pp hph false]
  unfold passEnabled
  rw [absPend_isPush]
  simp

/-- **No action is listed twice.** -/
theorem C01_nodup (s : GameState) (pp : PlayPhase) (h : PlayInv s pp) : s.validActionsNoRep.Nodup :=
  validActionsNoRep_nodup s pp h

/-- Every offered step starts on an occupied board square and ends on an empty neighbouring one. -/
theorem C01_offered_step_shape (s : GameState) (pp : PlayPhase) (h : PlayInv s pp) (i : Nat) (d : Dir)
    (ha : Action.move i d ∈ s.validActionsNoRep) :
    i < 64 ∧ ∃ c j, absBoard s.board i = some c ∧ nbr i (dirSpec d) = some j ∧ j < 64 ∧
      absBoard s.board j = none := by
  obtain ⟨hi, he⟩ := (C01_enabled_iff s pp h i d).mp ha
  obtain ⟨c, j, hc, hn, hj⟩ := enabled_shape _ _ _ _ _ _ he
  exact ⟨hi, c, j, hc, hn, nbr_lt i _ j hi hn, hj⟩

/-- **All prefixes.**  Along every list of actions each of which is in the rule-only list where it is
taken (any length, across turn changes), the invariant - and with it `C01_enabled_iff`,
`C01_pass_iff`, `C01_nodup` - holds at every state. -/
theorem C01_along_runs (s : GameState) (pp : PlayPhase) (h : PlayInv s pp) (as : List Action)
    (ho : OfferedNR s as) : ∃ pp', PlayInv (s.run as) pp' :=
  playInv_run s pp h as ho

/-- Every finished setup (any of the 64,864,800² orders) satisfies the invariant. -/
theorem C01_after_setup {ps : List Piece} {s : GameState} (hr : SetupRun ps s) (h32 : ps.length = 32) :
    ∃ pp, PlayInv s pp ∧ pp.step = 0 :=
  playInv_of_setup hr h32

/-! ### non-vacuity -/

/-- a concrete mid-turn position: Gold elephant d4 has just stepped from d5 (possible pull), Silver
rabbit on d6 may be pulled to d5 -/
def exC01 : GameState :=
  { p1Turn := true, moveNo := 5, hash := 0
    board := Board.new (sqBit 35) (sqBit 35) 0 0 0 0 (sqBit 19 ||| sqBit 60)
    phase := .play { prev := [Board.empty], pps := .possiblePull 27 .elephant, initHash := 0, hist := [],
                     trapped := false } }

example : Action.move 19 .down ∈ exC01.validActionsNoRep := by decide +kernel
example : Action.pass ∈ exC01.validActionsNoRep := by decide +kernel

end Arimaa
