import Arimaa.Lemmas.ListStack

/-!
# C20 — arbitrarily long games do not exhaust the stack

Statements about the frame-stack model of the history list (`Impl/ListStack.lean`).  The *depth* of an
operation is the maximal number of frames on the model's call stack while it runs
(`maxHeight fuel c`, for any `fuel` within which the operation returns).

Limits, stated once: one model frame stands for the few real frames involved in releasing one link;
frame *sizes*, inlining and tail-call elimination are compiler behaviour which the model cannot
exhibit.  The theorems bound (or show unbounded) the *number* of nested activations; the check
measures the real stack use of the real `List<T>` separately and compares its growth with the model's
`depth` (constant vs. linear).  `derive(Debug)` on the list is recursive too and is not one of the
property's operations.
-/

namespace Arimaa.Props
open Arimaa Arimaa.ListStack

/-- **C20, defect form (F7).**  With the compiler-generated drop glue (no `impl Drop for List`) the
depth of `drop` is unbounded: for every bound `B` there is a capture-free history — `n = B + 1` turns,
each `let l' = l.append(h); drop(l)`, which leaves the uniquely owned `n`-node chain `ownedChain n`
(see `C20_history_heap`) — whose final `drop` returns (in the model, where the stack is unlimited)
after reaching more than `B` nested frames. -/
theorem C20_glue_unbounded : ∀ B : Nat, ∃ n fuel,
    finished (run fuel (dropCfg .glue (ownedChain n) (ownedHead n))) ∧
    B < maxHeight fuel (dropCfg .glue (ownedChain n) (ownedHead n)) := by
  intro B
  refine ⟨B + 1, 2 * (B + 1) + 1, ?_, ?_⟩
  · exact (glue_drop_chain _ _ _ (ownedChain_unique (B + 1) (B + 1) (Nat.le_refl _))).2
  · have hh := (glue_drop_chain _ _ _ (ownedChain_unique (B + 1) (B + 1) (Nat.le_refl _))).1
    have := height_le_maxHeight (2 * (B + 1) + 1) (B + 1) (dropCfg .glue (ownedChain (B + 1)) (ownedHead (B + 1)))
      (by omega)
    omega

/-- The heap of `C20_glue_unbounded` is the one the model's own operations build: from the `n`-turn
heap, `append` (7 steps) followed by `drop` of the previous handle (4 steps) gives the `n+1`-turn heap. -/
theorem C20_history_heap (n : Nat) :
    (run 4 (dropCfg .loopIntoInner (run 7 (opCfg (ownedChain n) (.append (ownedHead n) n))).heap (ownedHead n))).heap
      = ownedChain (n + 1) :=
  ownedChain_succ_eq n

/-- **C20, repaired form.**  With the `Arc::into_inner` loop, on *every* heap (any length, any sharing of
tails, even ill-formed ones) and for every handle, `drop` returns — after at most `3·|heap| + 3` steps —
and never has more than 2 frames on the stack: the loop frame and one leaf call.  The loop stops at the
first node whose count stays positive. -/
theorem C20_loop_bounded (h : Heap) (l : Link) :
    (∃ K, K ≤ 3 * h.length + 3 ∧ finished (run K (dropCfg .loopIntoInner h l))) ∧
    ∀ fuel, maxHeight fuel (dropCfg .loopIntoInner h l) ≤ 2 := by
  constructor
  · obtain ⟨K, hK, hfin⟩ := loop_drop_terminates (ones h) h l [] (Nat.le_refl _)
    have := ones_le_length h
    exact ⟨K, by omega, hfin⟩
  · intro fuel
    exact maxHeight_le fuel _ 2 (fun k => shape_height_le k _ (by simp [dropCfg, dropFrame, Shape, Frame.body]))

/-- The frame a thread starts with: `drop` of a handle under the repaired loop, or another list operation. -/
def threadStart : Link ⊕ ListOp → List Frame
  | .inl l => [dropFrame .loopIntoInner l]
  | .inr o => [opFrame o]

/-- **C20, repaired form, concurrent.**  Any number of threads, each performing `drop` (loop variant) or
any other list operation on a shared heap, under every schedule: no thread ever has more than 2 frames.
(The bound holds from every heap, so it holds for every *sequence* of operations per thread as well:
apply the theorem again at the heap reached.)  This is why the repair uses `Arc::into_inner`; compare
`C20_try_unwrap_race`. -/
theorem C20_loop_bounded_concurrent (h : Heap) (work : List (Link ⊕ ListOp)) (sched : List Nat) (t : Nat) :
    cheight (crun ⟨h, work.map threadStart⟩ sched) t ≤ 2 := by
  apply cshape_height_le
  apply cshape_run
  intro st hst
  simp only [List.mem_map] at hst
  obtain ⟨w, _, rfl⟩ := hst
  cases w with
  | inl l => simp [threadStart, dropFrame, Shape, Frame.body]
  | inr o => cases o <;> simp [threadStart, opFrame, Shape, Frame.body]

/-- **C20, tie to the source.**  The variant selected from the generated `Gen.dropImpls` is the
`Arc::into_inner` loop.  Removing `impl Drop for List` from `linked_list.rs` (or turning it into a
`try_unwrap` loop, or any body of another shape) changes `Gen/Types.lean` and breaks this theorem. -/
theorem C20_current_variant : currentVariant = .loopIntoInner := by decide

/-- `drop` as the crate has it: depth at most 2, on every heap, for every handle. -/
theorem C20_current_drop_bounded (h : Heap) (l : Link) (fuel : Nat) :
    maxHeight fuel (dropCfg currentVariant h l) ≤ 2 := by
  rw [C20_current_variant]; exact (C20_loop_bounded h l).2 fuel

/-- **C20, other operations.**  `new`, `append`, `clone`, `len` and `iter().filter().count()` have depth at
most 2 on every heap; the four straight-line ones return within 7 steps on every heap, and the count
(iteration is a loop, not a recursion) returns within `2·|heap| + 3` steps on every heap whose `next`
pointers point to older nodes (all heaps built by `append`). -/
theorem C20_ops_constant_depth (h : Heap) (o : ListOp) :
    (∀ fuel, maxHeight fuel (opCfg h o) ≤ 2) ∧
    ((∀ l t, o ≠ .iterCount l t) → finished (run 7 (opCfg h o))) ∧
    (∀ l t, o = .iterCount l t → Ordered h → (∀ j, l = some j → j < h.length) →
      ∃ K, K ≤ 2 * h.length + 3 ∧ finished (run K (opCfg h o))) := by
  refine ⟨fun fuel => maxHeight_le fuel _ 2 (fun k => shape_height_le k _ ?_), straight_ops_terminate h o, ?_⟩
  · cases o <;> simp [opCfg, opFrame, Shape, Frame.body]
  · rintro l t rfl ho hl
    exact iter_terminates h ho t h.length l 0 [] hl

/-- **C20, why not `try_unwrap`.**  With a `try_unwrap` loop the depth is unbounded under concurrency: for
every `B` there is a list (`n` nodes owned only through its head node, the head node held by exactly two
handles, count 2), whose two handles are dropped by two threads, and a schedule in which both
`try_unwrap` calls fail and the second plain `Arc::drop` then recurses through the whole tail: thread 1
reaches more than `B` frames. -/
theorem C20_try_unwrap_race : ∀ B : Nat, ∃ (h : Heap) (id : NodeId) (node : Node) (sched : List Nat),
    h[id]? = some node ∧ node.rc = 2 ∧
    B < cheight (crun ⟨h, [[dropFrame .loopTryUnwrap (some id)], [dropFrame .loopTryUnwrap (some id)]]⟩ sched) 1 := by
  intro B
  let node : Node := { elem := B, next := ownedHead B, len := B + 1, rc := 2 }
  have hlen : (ownedChain B).length = B := by simp [ownedChain]
  have hn : (ownedChain B ++ [node])[B]? = some node := by
    rw [List.getElem?_append_right (by omega)]; simp [hlen]
  have hc : UniqueChain (ownedChain B ++ [node]) node.next B :=
    (ownedChain_unique B B (Nat.le_refl _)).frame B
      (fun j hj => ownedHead_lt B j hj)
      (fun i hi => List.getElem?_append_left (by omega))
  refine ⟨ownedChain B ++ [node], B, node, [0, 1, 0, 1, 0, 1] ++ List.replicate B 1, hn, rfl, ?_⟩
  rw [try_unwrap_race _ B node B hn rfl ?_ hc]
  · omega
  · exact fun j hj => ownedHead_lt B j hj

/-! ### Non-vacuity: concrete runs of the model (kernel evaluation) -/

/-- a 6-turn history: glue reaches 7 frames, the loop 2; both return and free all six nodes -/
example :
    maxHeight 40 (dropCfg .glue (ownedChain 6) (ownedHead 6)) = 7 ∧
    maxHeight 40 (dropCfg .loopIntoInner (ownedChain 6) (ownedHead 6)) = 2 ∧
    finished (run 40 (dropCfg .glue (ownedChain 6) (ownedHead 6))) ∧
    finished (run 40 (dropCfg .loopIntoInner (ownedChain 6) (ownedHead 6))) ∧
    (run 40 (dropCfg .glue (ownedChain 6) (ownedHead 6))).heap = (ownedChain 6).map ({ · with rc := 0 }) ∧
    (run 40 (dropCfg .loopIntoInner (ownedChain 6) (ownedHead 6))).heap = (ownedChain 6).map ({ · with rc := 0 }) := by
  decide +kernel

/-- two lists sharing a tail (`0 ← 1 ← 2` and `0 ← 1 ← 3`, node 1 has count 2): dropping the first list
frees node 2 only, decrements node 1, and stops; depth 2 -/
def sharedHeap : Heap :=
  [{ elem := 10, next := none, len := 1, rc := 1 }, { elem := 11, next := some 0, len := 2, rc := 2 },
   { elem := 12, next := some 1, len := 3, rc := 1 }, { elem := 13, next := some 1, len := 3, rc := 1 }]

example :
    (run 20 (dropCfg .loopIntoInner sharedHeap (some 2))).heap =
      [{ elem := 10, next := none, len := 1, rc := 1 }, { elem := 11, next := some 0, len := 2, rc := 1 },
       { elem := 12, next := some 1, len := 3, rc := 0 }, { elem := 13, next := some 1, len := 3, rc := 1 }] ∧
    finished (run 20 (dropCfg .loopIntoInner sharedHeap (some 2))) ∧
    maxHeight 20 (dropCfg .loopIntoInner sharedHeap (some 2)) = 2 ∧
    -- all three variants leave the same heap when run by a single thread
    (run 20 (dropCfg .glue sharedHeap (some 2))).heap = (run 20 (dropCfg .loopIntoInner sharedHeap (some 2))).heap ∧
    (run 20 (dropCfg .loopTryUnwrap sharedHeap (some 2))).heap = (run 20 (dropCfg .loopIntoInner sharedHeap (some 2))).heap := by
  decide +kernel

/-- the other operations compute what `linked_list.rs` computes: `append` allocates node 4 on top of
node 3 with `len = 4` and bumps node 3's count; `len` reads 3; counting the element 11 from node 3 gives 1 -/
example :
    (run 7 (opCfg sharedHeap (.append (some 3) 14))).heap =
      [{ elem := 10, next := none, len := 1, rc := 1 }, { elem := 11, next := some 0, len := 2, rc := 2 },
       { elem := 12, next := some 1, len := 3, rc := 1 }, { elem := 13, next := some 1, len := 3, rc := 2 },
       { elem := 14, next := some 3, len := 4, rc := 1 }] ∧
    (run 7 (opCfg sharedHeap (.append (some 3) 14))).out = [4, 3] ∧
    (run 7 (opCfg sharedHeap (.len (some 3)))).out = [3] ∧
    (run 20 (opCfg sharedHeap (.iterCount (some 3) 11))).out = [1] ∧
    finished (run 20 (opCfg sharedHeap (.iterCount (some 3) 11))) ∧
    maxHeight 20 (opCfg sharedHeap (.iterCount (some 3) 11)) = 2 ∧
    maxHeight 20 (opCfg sharedHeap (.append (some 3) 14)) = 2 := by
  decide +kernel

/-- the race of `C20_try_unwrap_race` for a 5-node tail: thread 1 reaches 8 frames; with `into_inner`
the same schedule stays at 2 and still frees everything exactly once -/
example :
    let h : Heap := ownedChain 5 ++ [{ elem := 5, next := some 4, len := 6, rc := 2 }]
    let sched := [0, 1, 0, 1, 0, 1, 1, 1, 1, 1, 1]
    cheight (crun ⟨h, [[dropFrame .loopTryUnwrap (some 5)], [dropFrame .loopTryUnwrap (some 5)]]⟩ sched) 1 = 8 ∧
    cheight (crun ⟨h, [[dropFrame .loopIntoInner (some 5)], [dropFrame .loopIntoInner (some 5)]]⟩ sched) 1 ≤ 2 ∧
    (crun ⟨h, [[dropFrame .loopIntoInner (some 5)], [dropFrame .loopIntoInner (some 5)]]⟩
      (sched ++ List.replicate 20 1)).heap = h.map ({ · with rc := 0 }) := by
  decide +kernel

/-- the selection function distinguishes the three source shapes -/
example :
    variantOf [] = .glue ∧ variantOf [("List", "loopTryUnwrap")] = .loopTryUnwrap ∧
    variantOf [("List", "other")] = .glue ∧ variantOf [("Iter", "loopIntoInner")] = .glue := by
  decide

/-- `Ordered` and the side condition of `C20_ops_constant_depth` hold for the long histories -/
example : Ordered (ownedChain 1000) := by
  intro id n hn j hj
  have hlt : id < 1000 := by
    have := (List.getElem?_eq_some_iff.1 hn).1
    simpa [ownedChain] using this
  rw [ownedChain_getElem? 1000 id hlt] at hn
  cases hn
  exact Nat.lt_of_lt_of_le (ownedHead_lt id j hj) (Nat.le_refl _)

end Arimaa.Props
