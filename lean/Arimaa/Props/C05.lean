import Arimaa.Lemmas.History

/-!
# C05 — no completed turn leaves the board unchanged or makes a third occurrence

Property text: in every game played through offered actions, whenever a turn ends (by a pass or by
its fourth step) the resulting board differs from the board at the start of that turn, and the
resulting combination of board and side to move has occurred at most once before at a start of turn
since the play phase began (or since the position was parsed).

Both clauses are proved at FULL strength: for every start state `s0` (`StartOk`: play phase, step 0,
fresh record, `hash = initHash = only history entry = from-scratch hash`, board well-formed — what
`from_str` yields on a well-formed board, `C05_start_of_parse`, and what the 32nd offered placement
from `GameState::initial()` yields, `C05_start_of_setup`), every action list `as` of any length all
of whose actions are offered (`Offered`, i.e. members of `validActions` where they are taken), with
captures anywhere.  No hypothesis about hash collisions is needed: only "equal positions have equal
hashes" is used (`Lemmas/History.lean`, `withheld_of_repeat`).

Vocabulary (all defined in `Lemmas/History.lean` by re-running the actions on the model):
* `endsTurnAt s a` : `a` is a pass, or a step taken when `s` has already made three steps.
* `turnStarts s0 as` : the exact (board, side to move) pairs at every start of turn so far, oldest
  first — `s0`'s own position, then the position after every turn-ending action of `as`
  (`C05_turnStarts_nil`, `C05_turnStarts_snoc`).
* `turnStartBoard s0 as` : the board of the last entry of `turnStarts s0 as`, i.e. the board at the
  start of the current turn; it coincides with the engine's own `piece_board_for_step(0)`
  (`C05_turnStartBoard_is_step0_board`).
-/
namespace Arimaa
open GameState

/-! ## what the ghost history is -/

/-- Before any action the list of turn starts is just the start position. -/
theorem C05_turnStarts_nil (s0 : GameState) : turnStarts s0 [] = [(s0.board, s0.p1Turn)] := rfl

/-- One more action: if it ends the turn (pass / fourth step) the position it leads to is appended,
otherwise the list is unchanged. -/
theorem C05_turnStarts_snoc (s0 : GameState) (as : List Action) (a : Action) :
    turnStarts s0 (as ++ [a]) =
      if endsTurnAt (s0.run as) a then
        turnStarts s0 as ++ [((s0.run (as ++ [a])).board, (s0.run (as ++ [a])).p1Turn)]
      else turnStarts s0 as :=
  turnStarts_snoc s0 as a

/-- The ghost "board at the start of the current turn" is what the engine itself reports as
`piece_board_for_step(0)` (the first board it recorded for this turn), at every state of a game
played through actions of the rule-only list (in particular through offered actions). -/
theorem C05_turnStartBoard_is_step0_board (s0 : GameState) (h0 : StartOk s0) (as : List Action)
    (ho : OfferedNR s0 as) : turnStartBoard s0 as = (s0.run as).pieceBoardForStep 0 := by
  obtain ⟨pp, h⟩ := histInv_game s0 h0 as ho
  exact h.pieceBoardForStep_zero.symm

/-- The last entry of the list of turn starts is the start of the current turn: its side is the
side to move now. -/
theorem C05_turnStarts_last (s0 : GameState) (h0 : StartOk s0) (as : List Action)
    (ho : OfferedNR s0 as) :
    (turnStarts s0 as).getLast? = some (turnStartBoard s0 as, (s0.run as).p1Turn) := by
  obtain ⟨pp, h⟩ := histInv_game s0 h0 as ho
  exact h.last

/-- A position parsed from text whose board is well-formed is a start state. -/
theorem C05_start_of_parse (t : List Char) (s : GameState) (h : parseState t = .ok s)
    (hw : WF s.board) : StartOk s := startOk_of_parse t s h hw

/-- The state after the 32nd offered placement from `GameState::initial()` ("since the play phase
began") is a start state: its hash, `initHash` and only history entry are the from-scratch hash of its
board with Gold to move, and the board is well-formed. -/
theorem C05_start_of_setup {ps : List Piece} {s : GameState} (hr : SetupRun ps s)
    (h32 : ps.length = 32) : StartOk s :=
  startOk_of_setupRun hr h32

/-! ## the property -/

/-- the state-level form: both clauses for one offered turn-ending action -/
private theorem C05_both (s0 : GameState) (h0 : StartOk s0) (as : List Action) (a : Action)
    (ho : Offered s0 (as ++ [a])) (hend : endsTurnAt (s0.run as) a = true) :
    (s0.run (as ++ [a])).board ≠ turnStartBoard s0 as ∧
      (turnStarts s0 as).count ((s0.run (as ++ [a])).board, (s0.run (as ++ [a])).p1Turn) ≤ 1 := by
  obtain ⟨ho1, ho2⟩ := (offered_append s0 as [a]).mp ho
  obtain ⟨pp, h⟩ := histInv_game s0 h0 as (offered_offeredNR s0 as ho1)
  rw [endsTurnAt_play _ pp h.inv.phase] at hend
  have := no_repeat_of_offered _ _ pp h a ho2.1 hend
  rw [run_append]
  exact this

/-- **First clause, full strength.**  In a game from a start state in which every action was
offered, if the last action `a` ends the turn (a pass, or the fourth step), the board it leads to
differs from the board at the start of that turn.  Covers both code paths (`can_pass(true)` for the
pass, `remove_passing_like_actions` for the fourth step) and turns containing captures (where the
fourth-step filter is switched off). -/
theorem C05_turn_changes_board (s0 : GameState) (h0 : StartOk s0) (as : List Action) (a : Action)
    (ho : Offered s0 (as ++ [a])) (hend : endsTurnAt (s0.run as) a = true) :
    (s0.run (as ++ [a])).board ≠ turnStartBoard s0 as :=
  (C05_both s0 h0 as a ho hend).1

/-- **Second clause, full strength.**  Under the same hypotheses the resulting combination of
board and side to move occurs at most once among all starts of turn so far (from the start state up
to and including the start of the turn that just ended), exact boards compared — although the engine
only compares 64-bit hashes and forgets its hash history at captures. -/
theorem C05_at_most_twice (s0 : GameState) (h0 : StartOk s0) (as : List Action) (a : Action)
    (ho : Offered s0 (as ++ [a])) (hend : endsTurnAt (s0.run as) a = true) :
    (turnStarts s0 as).count ((s0.run (as ++ [a])).board, (s0.run (as ++ [a])).p1Turn) ≤ 1 :=
  (C05_both s0 h0 as a ho hend).2

/-- **Corollary: no third occurrence, ever.**  In every game played through offered actions, no
(board, side to move) combination occurs more than twice among the starts of turn. -/
theorem C05_no_third_occurrence (s0 : GameState) (h0 : StartOk s0) (as : List Action)
    (ho : Offered s0 as) (p : Board × Bool) : (turnStarts s0 as).count p ≤ 2 := by
  induction as using List.snoc_induction' with
  | nil => rw [turnStarts_nil]; exact Nat.le_trans List.count_le_length (by simp)
  | snoc as a ih =>
    have ih' := ih ((offered_append s0 as [a]).mp ho).1
    rw [turnStarts_snoc]
    cases hend : endsTurnAt (s0.run as) a
    · simpa using ih'
    · simp only [if_true]
      rw [List.count_append]
      by_cases hp : posOf (s0.run (as ++ [a])) = p
      · have := C05_at_most_twice s0 h0 as a ho hend
        subst hp
        have h1 : List.count (posOf (s0.run (as ++ [a]))) [posOf (s0.run (as ++ [a]))] = 1 := by simp
        rw [h1]
        exact Nat.succ_le_succ this
      · have h0' : List.count p [posOf (s0.run (as ++ [a]))] = 0 := by
          apply List.count_eq_zero_of_not_mem
          simpa using fun h => hp h.symm
        omega

/-! ## the bookkeeping invariant behind the proof (DESIGN: `HistInv`, `C08_history`) -/

/-- **What the engine's repetition bookkeeping holds, at every state of every game** played through
actions of the rule-only list from a start state: (i) `hash` is the from-scratch hash of board, side
and step; (ii) `initHash` is the from-scratch hash (step 0) of the board at the start of the turn
with the side to move; (iii) `hist` is, newest first, the list of from-scratch hashes of a suffix
`recent` of the starts of turn — empty if a capture happened in the current turn; (iv) every start
of turn outside `recent` has strictly more pieces on its board than the current board, every one in
`recent` at least as many. -/
theorem C05_hash_bookkeeping (s0 : GameState) (h0 : StartOk s0) (as : List Action)
    (ho : OfferedNR s0 as) :
    ∃ pp, (s0.run as).phase = .play pp ∧
      (s0.run as).hash = zFromPieceBoard (s0.run as).board (s0.run as).p1Turn pp.step ∧
      pp.initHash = zFromPieceBoard (turnStartBoard s0 as) (s0.run as).p1Turn 0 ∧
      ∃ old recent, turnStarts s0 as = old ++ recent ∧
        pp.hist = (recent.map (fun p => zFromPieceBoard p.1 p.2 0)).reverse ∧
        (∀ p ∈ old, popcount (s0.run as).board.all < popcount p.1.all) ∧
        (∀ p ∈ recent, popcount (s0.run as).board.all ≤ popcount p.1.all) ∧
        (pp.trapped = true → recent = []) := by
  obtain ⟨pp, h⟩ := histInv_game s0 h0 as ho
  exact ⟨pp, h.inv.phase, h.hash, h.init, h.split⟩

/-! ## Non-vacuity -/

section Examples

/-- Gold elephant on e4 (square 36), Silver elephant on b7 (square 9). -/
private def exB : Board := Board.new (sqBit 36) (sqBit 36 ||| sqBit 9) 0 0 0 0 0

/-- Gold to move at the start of a turn, as `from_str` would produce it. -/
private def ex0 : GameState :=
  { p1Turn := true, moveNo := 2, board := exB, hash := zPos exB true
    phase := .play (PlayPhase.initial (zPos exB true) [zPos exB true]) }

private theorem ex0_start : StartOk ex0 := ⟨wf_of_wfCheck _ (by decide +kernel), rfl, rfl⟩

/-- a there-and-back turn: e4 north, e5 south, e4 north -/
private def exThere : List Action := [.move 36 .up, .move 28 .down, .move 36 .up]

/-- every action of the there-and-back prefix is offered -/
private theorem exThere_offered : Offered ex0 exThere := offered_of_offeredB _ _ (by decide +kernel)

/-- After e4n e5s e4n the closing fourth step e5s would restore the board the turn started with:
the rules allow it, the engine withholds it — and the other fourth steps are offered. -/
example :
    Action.move 28 .down ∈ (ex0.run exThere).validActionsNoRep ∧
    Action.move 28 .down ∉ (ex0.run exThere).validActions ∧
    ((ex0.run exThere).takeAction (.move 28 .down)).board = turnStartBoard ex0 exThere ∧
    Action.move 28 .up ∈ (ex0.run exThere).validActions := by
  decide +kernel

/-- After e4n e5s the pass would restore the turn-start board: withheld. -/
example :
    Action.pass ∈ (ex0.run [.move 36 .up, .move 28 .down]).validActionsNoRep ∧
    Action.pass ∉ (ex0.run [.move 36 .up, .move 28 .down]).validActions := by
  decide +kernel

/-- The theorems apply to a concrete offered turn end (the fourth step e5n after the there-and-back
prefix e4n e5s e4n): the hypotheses are satisfiable. -/
example : (ex0.run (exThere ++ [.move 28 .up])).board ≠ turnStartBoard ex0 exThere :=
  C05_turn_changes_board ex0 ex0_start exThere (.move 28 .up)
    (offered_of_offeredB _ _ (by decide +kernel)) (by decide +kernel)

/-- Two full cycles of "Gold elephant north / Silver elephant south / back / back", each turn one
step and a pass: 15 actions; every position has now occurred twice. -/
private def exCycle : List Action :=
  [.move 36 .up, .pass, .move 9 .down, .pass, .move 28 .down, .pass, .move 17 .up, .pass,
   .move 36 .up, .pass, .move 9 .down, .pass, .move 28 .down, .pass, .move 17 .up]

private theorem exCycle_offered : Offered ex0 exCycle := offered_of_offeredB _ _ (by decide +kernel)

/-- Now a pass would produce the start position with Gold to move for the THIRD time (it occurs
twice in the list of turn starts): the rules allow the pass, the engine withholds it; it does not
restore the turn-start board, so it is the history clause that fires. -/
example :
    (turnStarts ex0 exCycle).count (exB, true) = 2 ∧
    ((ex0.run exCycle).takeAction .pass).board = exB ∧
    ((ex0.run exCycle).takeAction .pass).p1Turn = true ∧
    ((ex0.run exCycle).takeAction .pass).board ≠ turnStartBoard ex0 exCycle ∧
    Action.pass ∈ (ex0.run exCycle).validActionsNoRep ∧
    Action.pass ∉ (ex0.run exCycle).validActions := by
  decide +kernel

/-- The eight turn ends inside the cycle game were second occurrences at most (instance of
`C05_no_third_occurrence`), and second occurrences do happen. -/
example : (turnStarts ex0 exCycle).count (exB, true) ≤ 2 :=
  C05_no_third_occurrence ex0 ex0_start exCycle exCycle_offered _

/-- Gold cat on the trap c3 (42) supported only by the Gold rabbit on c2 (50); Silver rabbit on
b7 (9). -/
private def exCapB : Board :=
  Board.new (sqBit 42 ||| sqBit 50) 0 0 0 0 (sqBit 42) (sqBit 50 ||| sqBit 9)

private def exCap0 : GameState :=
  { p1Turn := true, moveNo := 2, board := exCapB, hash := zPos exCapB true
    phase := .play (PlayPhase.initial (zPos exCapB true) [zPos exCapB true]) }

private theorem exCap0_start : StartOk exCap0 := ⟨wf_of_wfCheck _ (by decide +kernel), rfl, rfl⟩

/-- A turn with a capture: c2e (the cat on c3 is captured), d2w, c2e; then the fourth step d2w puts
the rabbit back on c2.  The capture flag is set, the engine's fourth-step filter is off and the step
is offered; the theorem still applies (the board differs from the turn-start board: the cat is
gone). -/
example :
    (exCap0.run ([.move 50 .right, .move 51 .left, .move 50 .right] ++ [.move 51 .left])).board ≠
      turnStartBoard exCap0 [.move 50 .right, .move 51 .left, .move 50 .right] :=
  C05_turn_changes_board exCap0 exCap0_start _ (.move 51 .left)
    (offered_of_offeredB _ _ (by decide +kernel)) (by decide +kernel)

/-- in that game the capture really happens and the rabbit really returns to c2 -/
example :
    (exCap0.run [.move 50 .right]).board.cats = 0 ∧
    (exCap0.run [.move 50 .right, .move 51 .left, .move 50 .right, .move 51 .left]).board.rabbits =
      exCapB.rabbits := by
  decide +kernel

end Examples

end Arimaa
