import Arimaa.Lemmas.Turn

/-!
# C03 — turns last 1–4 steps; side, step counter and move number advance accordingly

Property text: after an offered step the same player stays on move with the step counter one
higher, unless it was the fourth step of the turn; after the fourth step or a pass the other player
is on move at step 0 with nothing pending and a fresh per-turn record.  The move number grows by one
exactly when Silver's turn ends and never otherwise, and the step counter is always between 0 and 3.

All theorems below are about the L1 model (`GameState.takeAction`) and hold for *every* step
`Action.move sq d` and for `Action.pass`, offered or not, which is stronger than the property asks.
`moveNo` is an unbounded `Nat` in the model; the machine-integer overflow at `usize::MAX` is the
recorded finding F4, see `C03_overflow_point`.
-/
namespace Arimaa
open GameState

/-- **Step before the fourth.**  In a play-phase state with fewer than three steps made this turn,
any step leaves the same player on move, in the play phase, with the step counter exactly one
higher and the move number unchanged (the turn-start hash is kept, too). -/
theorem C03_step_after_move (s : GameState) (pp : PlayPhase) (sq : Nat) (d : Dir)
    (hph : s.phase = .play pp) (hlt : pp.step < 3) :
    ∃ pp', (s.takeAction (.move sq d)).phase = .play pp' ∧
      (s.takeAction (.move sq d)).p1Turn = s.p1Turn ∧
      pp'.step = pp.step + 1 ∧
      (s.takeAction (.move sq d)).step = s.step + 1 ∧
      (s.takeAction (.move sq d)).moveNo = s.moveNo ∧
      pp'.initHash = pp.initHash := by
  simp only [takeAction]
  rw [movePiece_lt3 s pp sq d hph hlt]
  exact ⟨_, rfl, rfl, by simp [PlayPhase.step], by simp [GameState.step, hph, PlayPhase.step],
    rfl, rfl⟩

/-- What "a fresh turn of the other player" means for the state `s'` reached from `s`:
other side to move, play phase at step 0, nothing pending, no earlier boards of the turn recorded,
no capture recorded, turn-start hash = current hash, and the current hash is the newest entry of the
hash history. -/
def FreshTurn (s s' : GameState) : Prop :=
  s'.p1Turn = (!s.p1Turn) ∧
  ∃ pp', s'.phase = .play pp' ∧ pp'.step = 0 ∧ s'.step = 0 ∧ pp'.pps = .none ∧ pp'.prev = [] ∧
    pp'.trapped = false ∧ pp'.initHash = s'.hash ∧ pp'.hist.head? = some s'.hash

/-- **Turn end by the fourth step.**  A step made when three steps were already made this turn
hands the move to the other player with a fresh per-turn record. -/
theorem C03_turn_end_by_fourth_step (s : GameState) (pp : PlayPhase) (sq : Nat) (d : Dir)
    (hph : s.phase = .play pp) (h3 : pp.step = 3) :
    FreshTurn s (s.takeAction (.move sq d)) := by
  show FreshTurn s (s.movePiece sq d)
  rw [movePiece_ge3 s pp sq d hph (by omega)]
  exact ⟨rfl, _, rfl, rfl, rfl, rfl, rfl, rfl, rfl, rfl⟩

/-- **Turn end by a pass.**  A pass in any play-phase state hands the move to the other player with
a fresh per-turn record; the board is unchanged. -/
theorem C03_turn_end_by_pass (s : GameState) (pp : PlayPhase) (hph : s.phase = .play pp) :
    FreshTurn s (s.takeAction .pass) ∧ (s.takeAction .pass).board = s.board := by
  show FreshTurn s s.pass ∧ s.pass.board = s.board
  rw [pass_play s pp hph]
  exact ⟨⟨rfl, _, rfl, rfl, rfl, rfl, rfl, rfl, rfl, rfl⟩, rfl⟩

/-- `endsTurn pp a` ("a pass, or a step when `step ≥ 3`") really is "the side to move changes",
for steps and passes from a play-phase state. -/
theorem C03_endsTurn_iff_side_changes (s : GameState) (pp : PlayPhase) (a : Action)
    (hph : s.phase = .play pp) (ha : a.isTurnAction = true) :
    endsTurn pp a = true ↔ (s.takeAction a).p1Turn = (!s.p1Turn) := by
  cases a with
  | place p => cases ha
  | pass =>
    show _ ↔ s.pass.p1Turn = _
    rw [pass_play s pp hph]; simp [endsTurn]
  | move sq d =>
    show _ ↔ (s.movePiece sq d).p1Turn = _
    by_cases hlt : pp.step < 3
    · rw [movePiece_lt3 s pp sq d hph hlt]
      have : ¬ pp.step ≥ 3 := by omega
      simp [endsTurn, this]
    · rw [movePiece_ge3 s pp sq d hph (by omega)]
      have : pp.step ≥ 3 := by omega
      simp [endsTurn, this]

/-- **Move number.**  For a step or a pass from a play-phase state: the move number grows by one
exactly when the action ends the turn and Silver (`p1Turn = false`) was on move; in every other
case it is unchanged. -/
theorem C03_move_number (s : GameState) (pp : PlayPhase) (a : Action)
    (hph : s.phase = .play pp) (ha : a.isTurnAction = true) :
    ((s.takeAction a).moveNo = s.moveNo + 1 ↔ (endsTurn pp a = true ∧ s.p1Turn = false)) ∧
    (¬ (endsTurn pp a = true ∧ s.p1Turn = false) → (s.takeAction a).moveNo = s.moveNo) := by
  cases a with
  | place p => cases ha
  | pass =>
    show (s.pass.moveNo = _ ↔ _) ∧ (_ → s.pass.moveNo = _)
    rw [pass_play s pp hph]
    cases hp : s.p1Turn <;> simp [endsTurn]
  | move sq d =>
    show ((s.movePiece sq d).moveNo = _ ↔ _) ∧ (_ → (s.movePiece sq d).moveNo = _)
    by_cases hlt : pp.step < 3
    · rw [movePiece_lt3 s pp sq d hph hlt]
      have : ¬ pp.step ≥ 3 := by omega
      simp [endsTurn, this]
    · rw [movePiece_ge3 s pp sq d hph (by omega)]
      have : pp.step ≥ 3 := by omega
      cases hp : s.p1Turn <;> simp [endsTurn, this]

/-- The same, in the words of the property: the move number changes (by exactly one) iff the side to
move changes from Silver to Gold. -/
theorem C03_move_number_iff_silver_turn_ends (s : GameState) (pp : PlayPhase) (a : Action)
    (hph : s.phase = .play pp) (ha : a.isTurnAction = true) :
    (s.takeAction a).moveNo =
      s.moveNo + (if s.p1Turn = false ∧ (s.takeAction a).p1Turn = true then 1 else 0) := by
  have h1 := C03_move_number s pp a hph ha
  have h2 := C03_endsTurn_iff_side_changes s pp a hph ha
  by_cases hc : endsTurn pp a = true ∧ s.p1Turn = false
  · have := h2.1 hc.1
    rw [if_pos ⟨hc.2, by simp [this, hc.2]⟩]
    exact h1.1.2 hc
  · have hn : ¬ (s.p1Turn = false ∧ (s.takeAction a).p1Turn = true) := by
      rintro ⟨hs, ht⟩
      exact hc ⟨h2.2 (by simp [hs, ht]), hs⟩
    rw [if_neg hn]
    exact h1.2 hc

/-- **Move number during setup.**  A placement sets the move number to 2 exactly when it switches
to the play phase (the last Silver placement, i.e. the end of Silver's setup turn) and to 1
otherwise; so in a game from `GameState.initial` (move number 1) the number stays 1 through the
setup and becomes 2 when Silver's setup turn ends. -/
theorem C03_move_number_setup (s : GameState) (p : Piece) :
    ((s.takeAction (.place p)).moveNo = 2 ∧ (s.takeAction (.place p)).isPlay = true) ∨
    ((s.takeAction (.place p)).moveNo = 1 ∧ (s.takeAction (.place p)).isPlay = false) := by
  simp only [takeAction]
  by_cases h : (s.board.placementBit == Gen.LAST_P2_PLACEMENT_MASK) = true
  · left; simp [place, h, isPlay, playPhase?, Gen.placeMoveNumberPlay]
  · right; simp [place, h, isPlay, playPhase?, Gen.placeMoveNumberSetup]

/-- **Finding F4 (overflow point), as a model-level fact.**  With the move number at
`usize::MAX = 2^64 - 1`, Silver ending a turn (by a pass or by a fourth step) makes the model's
unbounded move number `2^64`, which no longer fits a 64-bit `usize`: this is where the code's
`move_number + 1` overflows (panic in debug, wrap-around to 0 in release).  Every other theorem of
C03 is about the unbounded number and is exact for the code as long as `moveNo < 2^64 - 1`. -/
theorem C03_overflow_point (s : GameState) (pp : PlayPhase) (hph : s.phase = .play pp)
    (hmax : s.moveNo = usizeMax) (hsilver : s.p1Turn = false) :
    (s.takeAction .pass).moveNo = 2 ^ 64 ∧ (s.takeAction .pass).moveNo > usizeMax ∧
    (pp.step = 3 → ∀ sq d, (s.takeAction (.move sq d)).moveNo = 2 ^ 64 ∧
      (s.takeAction (.move sq d)).moveNo > usizeMax) := by
  have hp := (C03_move_number s pp .pass hph rfl).1.2 ⟨rfl, hsilver⟩
  have hu : usizeMax = 2 ^ 64 - 1 := rfl
  refine ⟨by omega, by omega, ?_⟩
  intro h3 sq d
  have hm := (C03_move_number s pp (.move sq d) hph rfl).1.2 ⟨by simp [endsTurn, h3], hsilver⟩
  exact ⟨by omega, by omega⟩

/-- **Step range (one action).**  The turn invariant `TurnInv` — `step ≤ 3`, and at step 0 nothing
is pending and no capture is recorded — is preserved by every action. -/
theorem C03_turnInv_preserved (s : GameState) (a : Action) (h : TurnInv s) :
    TurnInv (s.takeAction a) :=
  turnInv_takeAction s a h

/-- **Step range (whole games).**  From any state satisfying `TurnInv` — in particular
`GameState.initial`, every successfully parsed position, and the state after the last setup
placement — every state reached by any list of actions of any length satisfies `TurnInv`; so its
step counter (`GameState.step`, 0 in setup) is between 0 and 3. -/
theorem C03_step_range (s : GameState) (as : List Action) (h : TurnInv s) :
    TurnInv (s.run as) ∧ (s.run as).step ≤ 3 := by
  have hi := turnInv_run s as h
  refine ⟨hi, ?_⟩
  unfold TurnInv at hi
  unfold GameState.step
  split <;> simp_all

/-- The starting points of the property's quantifier satisfy `TurnInv`: the initial state, every
parsed position, every state just built with `PlayPhase.initial` (which is what the 32nd placement,
a fourth step and a pass build), and in fact any state right after a placement. -/
theorem C03_turnInv_starts :
    TurnInv GameState.initial ∧
    (∀ t s, parseState t = .ok s → TurnInv s) ∧
    (∀ (s : GameState) h hist, s.phase = .play (PlayPhase.initial h hist) → TurnInv s) ∧
    (∀ (s : GameState) p, TurnInv (s.place p)) :=
  ⟨turnInv_initial, turnInv_parseState, turnInv_of_initial, turnInv_place⟩

/-- Games from the initial state: the step counter never leaves `0..3`. -/
theorem C03_step_range_from_initial (as : List Action) : (GameState.initial.run as).step ≤ 3 :=
  (C03_step_range _ as turnInv_initial).2

/-- Games from any parsed position, with any starting move number: the step counter never leaves
`0..3`. -/
theorem C03_step_range_from_parsed (t : List Char) (s : GameState) (h : parseState t = .ok s)
    (as : List Action) : (s.run as).step ≤ 3 :=
  (C03_step_range _ as (turnInv_parseState t s h)).2

/-! ## Non-vacuity -/

/-- a concrete play-phase state at step 0 (empty board; the theorems do not look at the board) -/
private def ex0_C03 : GameState :=
  { p1Turn := false, moveNo := 7, phase := .play (PlayPhase.initial 0 [0]), board := Board.empty,
    hash := 0 }

example : ex0_C03.phase = .play (PlayPhase.initial 0 [0]) ∧ (PlayPhase.initial 0 [0]).step < 3 :=
  ⟨rfl, by decide⟩
example : TurnInv ex0_C03 := turnInv_of_initial _ _ _ rfl
/-- a state at step 3 exists and is reached by three steps -/
example : ∃ pp, (ex0_C03.runMoves [(0, .up), (0, .up), (0, .up)]).phase = .play pp ∧ pp.step = 3 :=
  ⟨_, rfl, rfl⟩
/-- Silver ends a turn by the fourth step: the move number goes from 7 to 8, Gold is on move -/
example : (ex0_C03.runMoves [(0, .up), (0, .up), (0, .up), (0, .up)]).moveNo = 8 ∧
    (ex0_C03.runMoves [(0, .up), (0, .up), (0, .up), (0, .up)]).p1Turn = true := ⟨rfl, rfl⟩
/-- the hypotheses of `C03_overflow_point` are satisfiable -/
example : ∃ (s : GameState) (pp : PlayPhase), s.phase = .play pp ∧ s.moveNo = usizeMax ∧ s.p1Turn = false :=
  ⟨{ ex0_C03 with moveNo := usizeMax }, _, rfl, rfl, rfl⟩
/-- a parsed position exists -/
example : ∃ s, parseState "2g".toList = .ok s := ⟨_, rfl⟩

end Arimaa
