import Arimaa.Lemmas.History

/-!
# C06 (second part) — what the repetition rules withhold, against exact boards

Property text: the offered action list equals, in the same order, the rule-only list minus exactly
those turn-ending actions (pass, or a fourth step) whose result would equal the turn's starting
board or would be the third start-of-turn occurrence of that board with that side to move; actions
that do not end the turn are never withheld.  Forgetting the history at a capture never changes
which actions are offered.

`Props/C06.lean` proves the shape: `validActions = validActionsNoRep.filter (¬ withheld)`, same
order, and `withheld` is false for actions that do not end the turn.  This file relates the engine's
hash-level test `withheld` to the board-level condition, using the ghost history of
`Lemmas/History.lean` (`turnStarts`, `turnStartBoard`; see `Props/C05.lean` for their meaning):

* `C06_sound` (FULL strength, no extra hypothesis): every turn-ending action of the rule-only list
  whose result equals the turn-start board, or whose resulting (board, side) already occurred twice
  at a start of turn, IS withheld.
* `C06_exact_partial`: the converse — a withheld action really breaks a repetition rule — and hence
  the exact characterisation of the offered list (`C06_offered_iff_partial`) hold under the added
  hypothesis `CollisionFree`: no start-of-turn position of the game so far has the 64-bit hash of a
  board that a turn-ending action of the rule-only list leads to, taken with either side to move,
  unless it is that very board with that side.  The FULL statement (without `CollisionFree`) is
  false for the implementation: finding F8 of DESIGN.md §6 is a 56-action legal game at whose end a
  pass is withheld although the resulting position never occurred before (two distinct legal boards
  with equal Zobrist value); `Props/C06F8.lean` proves this as the theorem
  `C06_full_strength_is_false`.  What is missing from full strength is exactly `CollisionFree`.
* `C06_forget_at_capture_partial`: under the same hypothesis the offered list equals that of the
  variant state which never cleared its hash history at captures (`neverForget`).  Again the full
  statement needs `CollisionFree` (a collision between a pre-capture position and a result would make
  the two lists differ).

All theorems are for every start state (`StartOk`) and every game of any length played through
actions of the rule-only list `validActionsNoRep` — a superset of the games played through offered
actions (`offered_offeredNR`), so "all reachable states with all possible histories" is covered.
-/
namespace Arimaa
open GameState

/-- **Soundness of the repetition test, full strength.**  At the state reached by any game `as`
from a start state, a turn-ending action `a` of the rule-only list whose resulting board equals the
board at the start of the turn, or whose resulting (board, side to move) occurs at least twice among
the starts of turn so far, is withheld by the hash-level test and therefore not offered. -/
theorem C06_sound (s0 : GameState) (h0 : StartOk s0) (as : List Action) (ho : OfferedNR s0 as)
    (pp : PlayPhase) (hph : (s0.run as).phase = .play pp) (a : Action)
    (ha : a ∈ (s0.run as).validActionsNoRep) (hend : endsTurn pp a = true)
    (hrep : ((s0.run as).takeAction a).board = turnStartBoard s0 as ∨
      2 ≤ (turnStarts s0 as).count
        (((s0.run as).takeAction a).board, ((s0.run as).takeAction a).p1Turn)) :
    (s0.run as).withheld pp a = true ∧ a ∉ (s0.run as).validActions := by
  have h := histInv_game_pp s0 h0 as ho pp hph
  have hw := withheld_of_repeat _ _ pp h a ha hend hrep
  refine ⟨hw, fun hin => ?_⟩
  have := ((C06_mem_iff _ pp hph a).mp hin).2
  rw [hw] at this
  cases this

/-- the `CollisionFree` hypothesis at the state reached by the game `as` from `s0`: for every board
`nb` that a turn-ending action of the rule-only list leads to, every start-of-turn position `p` so
far and either side `sd`: if `p` has the hash of (`nb`, `sd`) then `p` is (`nb`, `sd`) -/
def CollisionFreeAt (s0 : GameState) (as : List Action) (pp : PlayPhase) : Prop :=
  CollisionFree (turnStarts s0 as) (turnEndResults (s0.run as) pp)

/-- `CollisionFreeAt` spelled out. -/
theorem C06_collisionFreeAt_iff (s0 : GameState) (as : List Action) (pp : PlayPhase) :
    CollisionFreeAt s0 as pp ↔
      ∀ a ∈ (s0.run as).validActionsNoRep, endsTurn pp a = true →
        ∀ p ∈ turnStarts s0 as, ∀ sd : Bool,
          zFromPieceBoard p.1 p.2 0 = zFromPieceBoard ((s0.run as).takeAction a).board sd 0 →
            p = (((s0.run as).takeAction a).board, sd) := by
  unfold CollisionFreeAt CollisionFree turnEndResults
  constructor
  · intro h a ha he p hp sd
    exact h _ (List.mem_map.mpr ⟨a, List.mem_filter.mpr ⟨ha, he⟩, rfl⟩) p hp sd
  · intro h nb hnb p hp sd
    obtain ⟨a, ha, rfl⟩ := List.mem_map.mp hnb
    obtain ⟨ha1, ha2⟩ := List.mem_filter.mp ha
    exact h a ha1 ha2 p hp sd

/-- it follows from injectivity of the start-of-turn hash on (board, side) pairs -/
theorem C06_collisionFreeAt_of_injective (s0 : GameState) (as : List Action) (pp : PlayPhase)
    (hinj : ∀ b sd b' sd', zFromPieceBoard b sd 0 = zFromPieceBoard b' sd' 0 → b = b' ∧ sd = sd') :
    CollisionFreeAt s0 as pp :=
  collisionFree_of_injective _ _ hinj

/-- **Exactness, PARTIAL: added hypothesis `CollisionFreeAt`.**  Full statement (false for the
implementation, finding F8): the same without `hcf`.  Under `CollisionFreeAt`, a turn-ending action
of the rule-only list is withheld if and only if its resulting board equals the board at the start
of the turn or its resulting (board, side to move) already occurred at least twice among the starts
of turn (so that it would be the third occurrence). -/
theorem C06_exact_partial (s0 : GameState) (h0 : StartOk s0) (as : List Action)
    (ho : OfferedNR s0 as) (pp : PlayPhase) (hph : (s0.run as).phase = .play pp) (a : Action)
    (ha : a ∈ (s0.run as).validActionsNoRep) (hend : endsTurn pp a = true)
    (hcf : CollisionFreeAt s0 as pp) :
    (s0.run as).withheld pp a = true ↔
      (((s0.run as).takeAction a).board = turnStartBoard s0 as ∨
        2 ≤ (turnStarts s0 as).count
          (((s0.run as).takeAction a).board, ((s0.run as).takeAction a).p1Turn)) :=
  withheld_iff_repeat _ _ pp (histInv_game_pp s0 h0 as ho pp hph) a ha hend hcf

/-- **The offered list, PARTIAL: added hypothesis `CollisionFreeAt`.**  An action is offered iff it
is in the rule-only list and is not a turn-ending action whose result equals the turn-start board
or would be a third occurrence.  (Order: `C06_filter_shape`, `C06_sublist`.) -/
theorem C06_offered_iff_partial (s0 : GameState) (h0 : StartOk s0) (as : List Action)
    (ho : OfferedNR s0 as) (pp : PlayPhase) (hph : (s0.run as).phase = .play pp)
    (hcf : CollisionFreeAt s0 as pp) (a : Action) :
    a ∈ (s0.run as).validActions ↔
      a ∈ (s0.run as).validActionsNoRep ∧
        ¬ (endsTurn pp a = true ∧
          (((s0.run as).takeAction a).board = turnStartBoard s0 as ∨
            2 ≤ (turnStarts s0 as).count
              (((s0.run as).takeAction a).board, ((s0.run as).takeAction a).p1Turn))) := by
  rw [C06_mem_iff _ pp hph a]
  constructor
  · rintro ⟨ha, hw⟩
    refine ⟨ha, fun ⟨he, hrep⟩ => ?_⟩
    rw [(C06_exact_partial s0 h0 as ho pp hph a ha he hcf).mpr hrep] at hw
    cases hw
  · rintro ⟨ha, hn⟩
    refine ⟨ha, ?_⟩
    cases he : endsTurn pp a
    · exact withheld_false_of_not_endsTurn _ pp a he
    · cases hw : (s0.run as).withheld pp a
      · rfl
      · exact absurd ⟨he, (C06_exact_partial s0 h0 as ho pp hph a ha he hcf).mp hw⟩ hn

/-- **Forgetting at a capture, PARTIAL: added hypothesis `CollisionFreeAt`.**  Full statement: the
same without `hcf`.  The offered list of the reached state equals the offered list of the variant
state `neverForget` — identical except that its hash history holds the hashes of ALL starts of turn
since the start state (nothing was dropped at captures) and its capture flag is cleared, so that the
fourth-step filter is always on. -/
theorem C06_forget_at_capture_partial (s0 : GameState) (h0 : StartOk s0) (as : List Action)
    (ho : OfferedNR s0 as) (pp : PlayPhase) (hph : (s0.run as).phase = .play pp)
    (hcf : CollisionFreeAt s0 as pp) :
    (s0.run as).validActions = (neverForget (s0.run as) pp (turnStarts s0 as)).validActions :=
  validActions_neverForget _ _ pp (histInv_game_pp s0 h0 as ho pp hph) hcf

/-- what `neverForget` is: same board, side, move number, hash, step record, status and turn-start
hash; the history is the full list of start-of-turn hashes, newest first; capture flag cleared -/
theorem C06_neverForget_fields (s : GameState) (pp : PlayPhase) (G : List (Board × Bool)) :
    (neverForget s pp G).board = s.board ∧ (neverForget s pp G).p1Turn = s.p1Turn ∧
    (neverForget s pp G).moveNo = s.moveNo ∧ (neverForget s pp G).hash = s.hash ∧
    (neverForget s pp G).phase = .play
      { prev := pp.prev, pps := pp.pps, initHash := pp.initHash,
        hist := (G.map (fun p => zFromPieceBoard p.1 p.2 0)).reverse, trapped := false } :=
  ⟨rfl, rfl, rfl, rfl, rfl⟩

/-! ## Non-vacuity -/

section Examples

/-- Gold elephant on e4 (square 36), Silver elephant on b7 (square 9). -/
private def exB : Board := Board.new (sqBit 36) (sqBit 36 ||| sqBit 9) 0 0 0 0 0

private def ex0 : GameState :=
  { p1Turn := true, moveNo := 2, board := exB, hash := zPos exB true
    phase := .play (PlayPhase.initial (zPos exB true) [zPos exB true]) }

private theorem ex0_start : StartOk ex0 := ⟨wf_of_wfCheck _ (by decide +kernel), rfl, rfl⟩

private def exThere : List Action := [.move 36 .up, .move 28 .down, .move 36 .up]

private def exThereState : GameState := ex0.run exThere

private def exTherePP : PlayPhase :=
  match exThereState.phase with
  | .play pp => pp
  | .place => default

/-- `C06_sound` applies: after e4n e5s e4n the fourth step e5s restores the turn-start board, so it
is withheld. -/
example : Action.move 28 .down ∉ (ex0.run exThere).validActions :=
  (C06_sound ex0 ex0_start exThere
    (offered_offeredNR _ _ (offered_of_offeredB _ _ (by decide +kernel))) exTherePP
    (by decide +kernel) (.move 28 .down) (by decide +kernel) (by decide +kernel)
    (Or.inl (by decide +kernel))).2

/-- `CollisionFreeAt` is satisfiable: it holds at that state (one start-of-turn position, four
fourth steps; checked by evaluating the hashes). -/
example : CollisionFreeAt ex0 exThere exTherePP := by
  rw [C06_collisionFreeAt_iff]
  decide +kernel

end Examples

end Arimaa
