import Arimaa.Props.C10
import Arimaa.Lemmas.RsAgreeStep
import Arimaa.Lemmas.RsAgreeShow
import Arimaa.Gen.Bridge.GameState_fmt
import Arimaa.Gen.Bridge.GameState_take_action
import Arimaa.Gen.Bridge.PieceBoardState_bits_by_piece_type
import Arimaa.Gen.Bridge.PieceBoardState_bits_for_piece
import Arimaa.Gen.Bridge.PieceBoardState_piece_type_at_square
import Arimaa.Gen.Bridge.PieceBoardState_player_piece_mask

/-!
# C10 — the property at the level of the REGENERATED code

`Gen/Rs.lean` is written by `tools/rs2lean2.py` from the current text of engine.rs / zobrist.rs on every
run.  `Gen/Bridge/<fn>.lean` (generated) proves `@Rs.fn = @RsBase.fn` — the current text against the
baseline text — and `Lemmas/RsAgree*.lean` prove that each baseline function equals
`Res.guard (hand panic guard) (hand total function)`.  This file puts both, for the functions C10 rests
on, into the property's proof closure and restates them as one named obligation (`C10_code_agrees`) about
the CURRENT functions, plus corollaries that speak about them directly.  A change of the Rust text of one
of these functions that alters behaviour breaks an obligation here without any test having to find the input.
(written by tools/mkrprops.py)
-/
namespace Arimaa
open Gen GameState Arimaa.Gen.Rs Arimaa.Rt Arimaa.Gen.Bridge Spec

theorem C10_value_of_ok {α : Type} {x : Res α} {p : Bool} {v w : α} (h : x = Res.guard p v) (hx : x = .ok w) :
    p = false ∧ w = v := by
  rw [h] at hx
  obtain ⟨hp, hv⟩ := Res.guard_eq_ok.mp hx
  exact ⟨hp, hv.symm⟩

/-- the agreement theorems C10 rests on, about the CURRENT functions, as one obligation -/
theorem C10_code_agrees :
    (∀ (s : GameState) (a : Action), GameState_take_action s a = Res.guard (s.takeActionPanics a) (s.takeAction a)) ∧
    (∀ (b : Board) (p : Piece) (p1 : Bool), PieceBoardState_bits_for_piece b p p1 = b.bitsForPiece p p1) ∧
    (∀ (b : Board) (p1 : Bool), PieceBoardState_player_piece_mask b p1 = b.playerPieceMask p1) ∧
    (∀ (b : Board) (p : Piece), PieceBoardState_bits_by_piece_type b p = b.bitsByPieceType p) ∧
    (∀ (b : Board) (sq : Nat), PieceBoardState_piece_type_at_square b sq = Res.guard (b.pieceTypeAtSquarePanics sq) (b.pieceTypeAtSquare sq)) ∧
    (∀ (s : GameState) (f : List Char), GameState_fmt s f = .ok (f ++ showState s)) :=
  ⟨(by simp only [bridge_GameState_take_action]; exact RsAgree.take_action_eq),
   (by simp only [bridge_PieceBoardState_bits_for_piece]; exact RsAgree.bits_for_piece),
   (by simp only [bridge_PieceBoardState_player_piece_mask]; exact RsAgree.player_piece_mask),
   (by simp only [bridge_PieceBoardState_bits_by_piece_type]; exact RsAgree.bits_by_piece_type),
   (by simp only [bridge_PieceBoardState_piece_type_at_square]; exact RsAgree.piece_type_at_square),
   (by simp only [bridge_GameState_fmt]; exact RsAgree.game_state_fmt)⟩


/-- **C10 for the code as it is now**: on a well-formed board the regenerated views (`bits_for_piece`,
`player_piece_mask`, `bits_by_piece_type`, `piece_type_at_square`) all describe the one abstract position -/
theorem C10_code_views_agree (b : Board) (hw : WF b) (k : Nat) (hk : k < 64) :
    (∀ p g, bit (PieceBoardState_bits_for_piece b p g) k = (absBoard b k == some ⟨g, toSpec p⟩)) ∧
    (∀ g, bit (PieceBoardState_player_piece_mask b g) k = ownedBy (absBoard b) g k) ∧
    (∀ p, bit (PieceBoardState_bits_by_piece_type b p) k = (typeAt b k == some p)) ∧
    PieceBoardState_piece_type_at_square b k = .ok (typeAt b k) := by
  obtain ⟨h1, h2, h3, _, h5, _⟩ := C10_views_agree b hw k hk
  simp only [bridge_PieceBoardState_bits_for_piece, bridge_PieceBoardState_player_piece_mask,
    bridge_PieceBoardState_bits_by_piece_type, bridge_PieceBoardState_piece_type_at_square,
    RsAgree.bits_for_piece, RsAgree.player_piece_mask, RsAgree.bits_by_piece_type, RsAgree.piece_type_at_square]
  refine ⟨h1, h2, h3, ?_⟩
  have : b.pieceTypeAtSquarePanics k = false := by simp [Board.pieceTypeAtSquarePanics, sqBitPanics]; omega
  rw [this, h5]; rfl

end Arimaa
