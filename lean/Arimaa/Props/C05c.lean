import Arimaa.Props.C05

/-!
History length (stated with C05's bookkeeping theorem, used by C20's argument; kept in the C05 group so
that the proof closure of C20 stays the list model and the type inventory).  C20, engine side: how long the persistent history list of a reachable state is.  Together with
`C20_loop_bounded` (Props/C20.lean: dropping, cloning and iterating a list of ANY length needs a
constant number of frames) this is the model-level reason why the stack use of clone / drop / query
does not grow with the game: the list grows by one node per capture-free turn and is the only
recursive data structure of a state.
-/
namespace Arimaa
open GameState

/-- **History length.**  Along every game played through the rule-only lists from a start state
(a finished setup or a parsed position), the recorded hash history has exactly one entry per start
of turn since the last capture — in particular never more entries than turns played plus one —
and every forgotten turn start has strictly more pieces than the current board. -/
theorem C05_history_length (s0 : GameState) (h0 : StartOk s0) (as : List Action)
    (ho : OfferedNR s0 as) :
    ∃ pp, (s0.run as).phase = .play pp ∧
      pp.hist.length ≤ (turnStarts s0 as).length ∧
      ∃ old recent, turnStarts s0 as = old ++ recent ∧ pp.hist.length = recent.length ∧
        (∀ p ∈ old, popcount (s0.run as).board.all < popcount p.1.all) := by
  obtain ⟨pp, hph, _, _, old, recent, hsplit, hhist, hold, _, _⟩ := C05_hash_bookkeeping s0 h0 as ho
  refine ⟨pp, hph, ?_, old, recent, hsplit, ?_, hold⟩
  · rw [hhist, hsplit]; simp
  · rw [hhist]; simp

/-- One action changes the history by at most one node: a step or pass either keeps the list,
clears it (capture) or conses one entry (turn end) — a bounded number of list operations, none of
which depends on the length of the list. -/
theorem C05_history_step (s : GameState) (pp : PlayPhase) (hph : s.phase = .play pp) (a : Action)
    (hmv : a = .pass ∨ ∃ i d, a = .move i d) :
    ∃ pp', (s.takeAction a).phase = .play pp' ∧ pp'.hist.length ≤ pp.hist.length + 1 := by
  rcases hmv with rfl | ⟨i, d, rfl⟩
  · simp only [takeAction]
    rw [GameState.pass_play s pp hph]
    refine ⟨_, rfl, ?_⟩
    simp only [PlayPhase.initial, List.length_cons]
    split <;> simp
  · simp only [takeAction]
    by_cases hlt : pp.step < 3
    · rw [movePiece_lt3 s pp i d hph hlt]
      refine ⟨_, rfl, ?_⟩
      simp only
      split <;> simp
    · rw [movePiece_ge3 s pp i d hph (by omega)]
      refine ⟨_, rfl, ?_⟩
      simp only [PlayPhase.initial, List.length_cons]
      split <;> simp

end Arimaa
