import Arimaa.Props.C02
import Arimaa.Lemmas.RsAgreeStep
import Arimaa.Lemmas.RsAgreeGen
import Arimaa.Gen.Bridge.GameState_take_action
import Arimaa.Gen.Bridge.GameState_valid_actions_no_rep
import Arimaa.Gen.Bridge.PieceBoardState_trapped_piece_bits
import Arimaa.Gen.Bridge.PieceBoard_remove_trapped_pieces
import Arimaa.Gen.Bridge.PieceBoard_take_action

/-!
# C02 — the property at the level of the REGENERATED code

`Gen/Rs.lean` is written by `tools/rs2lean2.py` from the current text of engine.rs / zobrist.rs on every
run.  `Gen/Bridge/<fn>.lean` (generated) proves `@Rs.fn = @RsBase.fn` — the current text against the
baseline text — and `Lemmas/RsAgree*.lean` prove that each baseline function equals
`Res.guard (hand panic guard) (hand total function)`.  This file puts both, for the functions C02 rests
on, into the property's proof closure and restates them as one named obligation (`C02_code_agrees`) about
the CURRENT functions, plus corollaries that speak about them directly.  A change of the Rust text of one
of these functions that alters behaviour breaks an obligation here without any test having to find the input.
(written by tools/mkrprops.py)
-/
namespace Arimaa
open Gen GameState Arimaa.Gen.Rs Arimaa.Rt Arimaa.Gen.Bridge Spec

theorem C02_value_of_ok {α : Type} {x : Res α} {p : Bool} {v w : α} (h : x = Res.guard p v) (hx : x = .ok w) :
    p = false ∧ w = v := by
  rw [h] at hx
  obtain ⟨hp, hv⟩ := Res.guard_eq_ok.mp hx
  exact ⟨hp, hv.symm⟩

/-- the agreement theorems C02 rests on, about the CURRENT functions, as one obligation -/
theorem C02_code_agrees :
    (∀ (s : GameState) (a : Action), GameState_take_action s a = Res.guard (s.takeActionPanics a) (s.takeAction a)) ∧
    (∀ (b : Board) (sq : Nat) (d : Dir), PieceBoard_take_action b (.move sq d) = Res.guard (sqBitPanics sq) (b.takeMove sq d)) ∧
    (∀ b : Board, PieceBoard_remove_trapped_pieces b = (b.removeTrappedPieces.2, b.removeTrappedPieces.1)) ∧
    (∀ b : Board, PieceBoardState_trapped_piece_bits b = b.trappedPieceBits) :=
  ⟨(by simp only [bridge_GameState_take_action]; exact RsAgree.take_action_eq),
   (by simp only [bridge_PieceBoard_take_action]; exact RsAgree.board_take_action_move),
   (by simp only [bridge_PieceBoard_remove_trapped_pieces]; exact RsAgree.remove_trapped_pieces),
   (by simp only [bridge_PieceBoardState_trapped_piece_bits]; exact RsAgree.trapped_piece_bits)⟩

/-- whatever the regenerated `take_action` returns is the successor the C02 theorems are about -/
theorem C02_code_successor (s r : GameState) (a : Action)
    (h : GameState_take_action s a = .ok r) : r = s.takeAction a := by
  simp only [bridge_GameState_take_action] at h
  exact (C02_value_of_ok (RsAgree.take_action_eq s a) h).2

theorem C02_code_rule_only (s : GameState) (l : List Action) (hl : GameState_valid_actions_no_rep s = .ok l) :
    l = s.validActionsNoRep := by
  simp only [bridge_GameState_valid_actions_no_rep] at hl
  exact (C02_value_of_ok (RsAgree.valid_actions_no_rep_direct s) hl).2

/-- **C02 for the code as it is now**: a step taken from the list the regenerated `valid_actions_no_rep` returned,
applied by the regenerated `take_action`, moves exactly that piece onto the empty neighbour and then removes
exactly the unsupported trap pieces (`Spec.capture (Spec.move ..)`); the new board is well formed -/
theorem C02_code_step_refines (s s' : GameState) (pp : PlayPhase) (h : PlayInv s pp) (l : List Action)
    (hl : GameState_valid_actions_no_rep s = .ok l) (i : Nat) (d : Dir) (ha : Action.move i d ∈ l)
    (ht : GameState_take_action s (.move i d) = .ok s') :
    ∃ c j, absBoard s.board i = some c ∧ nbr i (dirSpec d) = some j ∧ absBoard s.board j = none ∧
      absBoard s'.board = capture (move (absBoard s.board) i j) ∧ WF s'.board := by
  have h1 := C02_code_rule_only s l hl
  have h2 := C02_code_successor s s' _ ht
  subst h1 h2
  obtain ⟨c, j, hc, hn, hj, hb, _, hw⟩ := C02_refines s pp h i d ha
  exact ⟨c, j, hc, hn, hj, hb, hw⟩

end Arimaa
