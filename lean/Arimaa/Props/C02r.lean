import Arimaa.Props.C02
import Arimaa.Lemmas.RsAgreeStep

/-!
# C02 — the property at the level of the REGENERATED code

`Gen/Rs.lean` is written by `tools/rs2lean2.py` from the current text of engine.rs / zobrist.rs on every
run; `Lemmas/RsAgree*.lean` prove that each regenerated function equals
`Res.guard (hand panic guard) (hand total function)`.  This file puts the agreement theorems of the
functions C02 rests on into the property's proof closure and restates them as one named obligation
(`C02_code_agrees`), plus corollaries that speak about the regenerated functions directly.  A change of
the Rust text of one of these functions breaks an obligation here without any test having to find the input.
-/
namespace Arimaa
open Gen GameState Arimaa.Gen.Rs Arimaa.Rt

theorem C02_value_of_ok {α : Type} {x : Res α} {p : Bool} {v w : α} (h : x = Res.guard p v) (hx : x = .ok w) :
    p = false ∧ w = v := by
  rw [h] at hx
  obtain ⟨hp, hv⟩ := Res.guard_eq_ok.mp hx
  exact ⟨hp, hv.symm⟩

/-- the agreement theorems C02 rests on, as one obligation -/
theorem C02_code_agrees :
    (∀ (s : GameState) (a : Action), GameState_take_action s a = Res.guard (s.takeActionPanics a) (s.takeAction a)) ∧
    (∀ (b : Board) (sq : Nat) (d : Dir), PieceBoard_take_action b (.move sq d) = Res.guard (sqBitPanics sq) (b.takeMove sq d)) ∧
    (∀ b : Board, PieceBoard_remove_trapped_pieces b = (b.removeTrappedPieces.2, b.removeTrappedPieces.1)) ∧
    (∀ b : Board, PieceBoardState_trapped_piece_bits b = b.trappedPieceBits) :=
  ⟨RsAgree.take_action_eq, RsAgree.board_take_action_move, RsAgree.remove_trapped_pieces, RsAgree.trapped_piece_bits⟩

/-- whatever the regenerated `take_action` returns is the successor the C02 theorems are about -/
theorem C02_code_successor (s s' : GameState) (a : Action) (h : GameState_take_action s a = .ok s') :
    s' = s.takeAction a := (C02_value_of_ok (RsAgree.take_action_eq s a) h).2

end Arimaa
