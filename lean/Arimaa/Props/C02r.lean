import Arimaa.Props.C02
import Arimaa.Lemmas.RsAgreeStep
import Arimaa.Gen.Bridge.GameState_take_action
import Arimaa.Gen.Bridge.PieceBoardState_trapped_piece_bits
import Arimaa.Gen.Bridge.PieceBoard_remove_trapped_pieces
import Arimaa.Gen.Bridge.PieceBoard_take_action

/-!
# C02 — the property at the level of the REGENERATED code

`Gen/Rs.lean` is written by `tools/rs2lean2.py` from the current text of engine.rs / zobrist.rs on every
run.  `Gen/Bridge/<fn>.lean` (generated) proves `@Rs.fn = @RsBase.fn` — the current text against the
baseline text — and `Lemmas/RsAgree*.lean` prove that each baseline function equals
`Res.guard (hand panic guard) (hand total function)`.  This file puts both, for the functions C02 rests
on, into the property's proof closure and restates them as one named obligation (`C02_code_agrees`) about
the CURRENT functions, plus corollaries that speak about them directly.  A change of the Rust text of one
of these functions that alters behaviour breaks an obligation here without any test having to find the input.
(written by tools/mkrprops.py)
-/
namespace Arimaa
open Gen GameState Arimaa.Gen.Rs Arimaa.Rt Arimaa.Gen.Bridge

theorem C02_value_of_ok {α : Type} {x : Res α} {p : Bool} {v w : α} (h : x = Res.guard p v) (hx : x = .ok w) :
    p = false ∧ w = v := by
  rw [h] at hx
  obtain ⟨hp, hv⟩ := Res.guard_eq_ok.mp hx
  exact ⟨hp, hv.symm⟩

/-- the agreement theorems C02 rests on, about the CURRENT functions, as one obligation -/
theorem C02_code_agrees :
    (∀ (s : GameState) (a : Action), GameState_take_action s a = Res.guard (s.takeActionPanics a) (s.takeAction a)) ∧
    (∀ (b : Board) (sq : Nat) (d : Dir), PieceBoard_take_action b (.move sq d) = Res.guard (sqBitPanics sq) (b.takeMove sq d)) ∧
    (∀ b : Board, PieceBoard_remove_trapped_pieces b = (b.removeTrappedPieces.2, b.removeTrappedPieces.1)) ∧
    (∀ b : Board, PieceBoardState_trapped_piece_bits b = b.trappedPieceBits) :=
  ⟨(by simp only [bridge_GameState_take_action]; exact RsAgree.take_action_eq),
   (by simp only [bridge_PieceBoard_take_action]; exact RsAgree.board_take_action_move),
   (by simp only [bridge_PieceBoard_remove_trapped_pieces]; exact RsAgree.remove_trapped_pieces),
   (by simp only [bridge_PieceBoardState_trapped_piece_bits]; exact RsAgree.trapped_piece_bits)⟩

/-- whatever the regenerated `take_action` returns is the successor the C02 theorems are about -/
theorem C02_code_successor (s r : GameState) (a : Action)
    (h : GameState_take_action s a = .ok r) : r = s.takeAction a := by
  simp only [bridge_GameState_take_action] at h
  exact (C02_value_of_ok (RsAgree.take_action_eq s a) h).2

end Arimaa
