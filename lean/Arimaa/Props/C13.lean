import Arimaa.Lemmas.Preview

/-!
C13 — The capture preview predicts exactly what applying the step removes.

`NoHanging b`: no piece stands on a trap square without a friendly neighbour.  It holds after every
finished setup and after every step whatsoever (the capture rule establishes it), and a pass keeps
it; a hand-written diagram with an unsupported trap piece is the only way to start without it
(DESIGN.md section 5), and then the first step removes every such piece.
-/
namespace Arimaa
open Gen Spec GameState

/-- **At most one capture per step** (specification level): from a position without unsupported
trap pieces, after one piece moved one square onto an empty square, at most one square holds an
unsupported trap piece (the mover on its destination, or a friend of the mover on a trap next to the
source: both at once would put the source next to two traps). -/
theorem C13_at_most_one (b : Spec.Board) (hb : NoHanging b) (i j : Nat) (d : Spec.Dir) (hi : i < 64)
    (hn : nbr i d = some j) (hej : b j = none) (k1 k2 : Nat) (hk1 : k1 < 64) (hk2 : k2 < 64)
    (h1 : hanging (move b i j) k1 = true) (h2 : hanging (move b i j) k2 = true) : k1 = k2 :=
  at_most_one_hanging b hb i j d hi hn hej k1 k2 hk1 hk2 h1 h2

/-- the board after an offered step, in terms of what is removed -/
theorem C13_step_removes (s : GameState) (pp : PlayPhase) (h : PlayInv s pp) (i : Nat) (d : Dir)
    (ha : Action.move i d ∈ s.validActionsNoRep) :
    ∃ j, nbr i (dirSpec d) = some j ∧
      ∀ k, absBoard (s.takeAction (.move i d)).board k =
        if hanging (move (absBoard s.board) i j) k then none else move (absBoard s.board) i j k := by
  obtain ⟨hi, j, hn, hj, hej, _⟩ := offered_step_facts s pp h i d ha
  refine ⟨j, hn, fun k => ?_⟩
  have hboard : (s.takeAction (.move i d)).board = (s.board.takeMove i d).1 := by
    simp only [takeAction]
    by_cases hlt : pp.step < 3
    · rw [movePiece_lt3 s pp i d h.phase hlt]
    · rw [movePiece_ge3 s pp i d h.phase (by omega)]
  rw [hboard, (abs_takeMove s.board h.wf i d j hi hn hej).1]
  simp only [applyStep, hn]
  rw [capture_apply]

/-- **The preview is exact.**  For a state satisfying the play invariant whose board has no
unsupported trap piece, and every offered step `(i, d)` with destination `j`:
* the preview returns nothing exactly when no square of the moved board is unsupported, i.e. when
  applying the step removes no piece (`C13_step_removes`);
* if it returns `(k, p, g)` then `k` is on the board, the moved board holds exactly the piece `p`
  of colour `g` on `k`, that piece is removed by applying the step, and no other piece is. -/
theorem C13_preview_exact (s : GameState) (pp : PlayPhase) (h : PlayInv s pp)
    (hno : NoHanging (absBoard s.board)) (i : Nat) (d : Dir)
    (ha : Action.move i d ∈ s.validActionsNoRep) :
    ∃ j, nbr i (dirSpec d) = some j ∧
      (s.trappedAnimalForAction (.move i d) = none ↔
        ∀ k, k < 64 → hanging (move (absBoard s.board) i j) k = false) ∧
      (∀ k p g, s.trappedAnimalForAction (.move i d) = some (k, p, g) →
        k < 64 ∧ move (absBoard s.board) i j k = some ⟨g, toSpec p⟩ ∧
          hanging (move (absBoard s.board) i j) k = true ∧
          ∀ k', k' < 64 → hanging (move (absBoard s.board) i j) k' = true → k' = k) := by
  obtain ⟨hi, j, hn, _, hej, _⟩ := offered_step_facts s pp h i d ha
  exact ⟨j, hn, preview_exact s h.wf hno i d j hi hn hej⟩

/-- The preview of a pass or a placement is nothing. -/
theorem C13_preview_non_step (s : GameState) : s.trappedAnimalForAction .pass = none ∧
    ∀ p, s.trappedAnimalForAction (.place p) = none := ⟨rfl, fun _ => rfl⟩

/-- **No unsupported trap piece after any step**, whatever the board was before. -/
theorem C13_no_hanging_after_step (s : GameState) (pp : PlayPhase) (h : PlayInv s pp) (i : Nat) (d : Dir)
    (ha : Action.move i d ∈ s.validActionsNoRep) : NoHanging (absBoard (s.takeAction (.move i d)).board) := by
  obtain ⟨hi, j, hn, hj, hej, _⟩ := offered_step_facts s pp h i d ha
  have hboard : (s.takeAction (.move i d)).board = (s.board.takeMove i d).1 := by
    simp only [takeAction]
    by_cases hlt : pp.step < 3
    · rw [movePiece_lt3 s pp i d h.phase hlt]
    · rw [movePiece_ge3 s pp i d h.phase (by omega)]
  rw [hboard, (abs_takeMove s.board h.wf i d j hi hn hej).1]
  simp only [applyStep, hn]
  exact noHanging_capture _

/-- `NoHanging` is kept by every offered action (a pass does not change the board) -/
theorem C13_no_hanging_preserved (s : GameState) (pp : PlayPhase) (h : PlayInv s pp)
    (hno : NoHanging (absBoard s.board)) (a : Action) (ha : a ∈ s.validActionsNoRep) :
    NoHanging (absBoard (s.takeAction a).board) := by
  cases a with
  | move i d => exact C13_no_hanging_after_step s pp h i d ha
  | pass => simp only [takeAction]; rw [pass_play s pp h.phase]; exact hno
  | place p =>
    exfalso
    unfold validActionsNoRep at ha
    cases hm : pp.pps.isMustCompletePush
    · rw [validActions__free s pp h.phase hm false] at ha
      simp only [Bool.false_eq_true, if_false, List.mem_append] at ha
      rcases ha with ha | ha
      · have := isMove_of_mem_stepList s pp _ ha
        simp [Action.isMove] at this
      · cases s.canPass false <;> simp at ha
    · rw [validActions__mcp s pp h.phase hm false] at ha
      simp only [Bool.false_eq_true, if_false] at ha
      have := isMove_of_mem_mustCompletePushActions s pp s.board _ ha
      simp [Action.isMove] at this

/-- a finished setup has no piece on a trap square at all -/
theorem C13_no_hanging_after_setup {ps : List Piece} {s : GameState} (hr : SetupRun ps s) :
    NoHanging (absBoard s.board) := by
  obtain ⟨hall, _, hu, hd, _⟩ := C09_board_shape hr
  intro k c hk hc ht
  exfalso
  have hk4 : k = 18 ∨ k = 21 ∨ k = 42 ∨ k = 45 := by
    simp only [isTrap, Bool.or_eq_true, beq_iff_eq] at ht; omega
  have hlen := setupRun_length_le hr
  have hnot : bit s.board.all k = false := by
    cases hb : bit s.board.all k
    · rfl
    · have := (hall k hk).mp hb
      omega
  -- an occupied abstract cell needs a type bit, hence an `all` bit
  unfold absBoard typeAt at hc
  rw [hu] at hnot
  simp only [bit_or, Bool.or_eq_false_iff] at hnot
  obtain ⟨⟨⟨⟨⟨h1, h2⟩, h3⟩, h4⟩, h5⟩, h6⟩ := hnot
  simp [h1, h2, h3, h4, h5, h6] at hc

/-! ### non-vacuity -/

/-- Gold cat on c3 supported only by the Gold rabbit on c2; the rabbit steps away -/
def exC13 : GameState :=
  { p1Turn := true, moveNo := 5, hash := 0
    board := Board.new (sqBit 42 ||| sqBit 50) 0 0 0 0 (sqBit 42) (sqBit 50 ||| sqBit 9)
    phase := .play (PlayPhase.initial 0 [0]) }

example : exC13.trappedAnimalForAction (.move 50 .right) = some (42, .cat, true) := by decide +kernel
example : exC13.trappedAnimalForAction (.move 42 .left) = none := by decide +kernel

end Arimaa
