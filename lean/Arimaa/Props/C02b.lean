import Arimaa.Props.C02
import Arimaa.Lemmas.Material

/-!
C02 (continued) — "Consequently material never increases".

`cellCount b c` is the number of squares `0..63` of the specification board `b` that hold the cell
`c` (one colour, one piece type); `pieceCount b` (Props/C02) is the number of occupied squares;
`countOn P b` counts the squares whose content satisfies any predicate `P` with `P none = false`.
All statements are about `absBoard s.board`, the square-indexed reading of the eight bitboards.
-/
namespace Arimaa
open Gen Spec GameState

/-- the number of pieces (`pieceCount`, Props/C02) is the count of the occupied squares `0..63` -/
theorem C02_pieceCount_eq_countOn (b : Spec.Board) : pieceCount b = countOn Option.isSome b := by
  unfold pieceCount countOn
  rw [List.countP_eq_length_filter]

/-- **A move keeps material, a capture cannot add any** (specification level).  Moving the piece
of `i` onto an empty square `j ≠ i` (both on the board) leaves the number of cells of every colour
and type, and the number of pieces, unchanged; the capture rule never raises any of them; hence a
step `applyStep b i d` whose destination is empty never raises any of them. -/
theorem C02_material_spec (b : Spec.Board) (c : Cell) :
    (∀ i j, i < 64 → j < 64 → i ≠ j → b j = none →
      cellCount (move b i j) c = cellCount b c ∧ pieceCount (move b i j) = pieceCount b) ∧
    (cellCount (capture b) c ≤ cellCount b c ∧ pieceCount (capture b) ≤ pieceCount b) ∧
    (∀ i d, i < 64 → (∀ j, nbr i d = some j → b j = none) →
      cellCount (applyStep b i d) c ≤ cellCount b c ∧ pieceCount (applyStep b i d) ≤ pieceCount b) := by
  refine ⟨fun i j hi hj hij hbj => ⟨cellCount_move b c i j hi hj hij hbj, ?_⟩,
    ⟨cellCount_capture_le b c, ?_⟩, fun i d hi he => ⟨cellCount_applyStep_le b c i d hi he, ?_⟩⟩
  · rw [C02_pieceCount_eq_countOn, C02_pieceCount_eq_countOn]; exact countOn_move _ rfl b i j hi hj hij hbj
  · rw [C02_pieceCount_eq_countOn, C02_pieceCount_eq_countOn]; exact countOn_capture_le _ rfl b
  · rw [C02_pieceCount_eq_countOn, C02_pieceCount_eq_countOn]; exact countOn_applyStep_le _ rfl b i d hi he

/-- **No count of pieces ever increases by an offered action** (general form): in a state
satisfying the play invariant, for every action `a` of the rule-only list and every property `P` of
square contents that an empty square does not have, the number of squares with `P` does not grow;
a pass keeps it. -/
theorem C02_count_antitone (s : GameState) (pp : PlayPhase) (h : PlayInv s pp) (a : Action)
    (ha : a ∈ s.validActionsNoRep) (P : Option Cell → Bool) (hP : P none = false) :
    countOn P (absBoard (s.takeAction a).board) ≤ countOn P (absBoard s.board) ∧
    (a = .pass → countOn P (absBoard (s.takeAction a).board) = countOn P (absBoard s.board)) := by
  cases a with
  | place p => exact (validActions_play_notPlace s pp h.phase false _ ha).elim
  | pass =>
    rw [C02_pass_board s pp h.phase]
    exact ⟨Nat.le_refl _, fun _ => rfl⟩
  | move i d =>
    obtain ⟨hi, _⟩ := offered_step_facts s pp h i d ha
    obtain ⟨_, j, _, hn, hj, _, happ, _⟩ := C02_refines s pp h i d ha
    refine ⟨?_, fun e => by cases e⟩
    rw [happ]
    apply countOn_applyStep_le P hP _ i _ hi
    intro j' hn'
    rw [hn] at hn'; cases hn'; exact hj

/-- **Material never increases (one action).**  In a state satisfying the play invariant, for every
action `a` of the rule-only list and every cell `c` (a colour and a piece type): the board after `a`
holds at most as many `c` as before, and at most as many pieces in total; after a pass exactly as
many. -/
theorem C02_material_antitone (s : GameState) (pp : PlayPhase) (h : PlayInv s pp) (a : Action)
    (ha : a ∈ s.validActionsNoRep) (c : Cell) :
    cellCount (absBoard (s.takeAction a).board) c ≤ cellCount (absBoard s.board) c ∧
    pieceCount (absBoard (s.takeAction a).board) ≤ pieceCount (absBoard s.board) ∧
    (a = .pass → cellCount (absBoard (s.takeAction a).board) c = cellCount (absBoard s.board) c ∧
      pieceCount (absBoard (s.takeAction a).board) = pieceCount (absBoard s.board)) := by
  obtain ⟨h1, h2⟩ := C02_count_antitone s pp h a ha (fun o => o == some c) rfl
  obtain ⟨h3, h4⟩ := C02_count_antitone s pp h a ha Option.isSome rfl
  simp only [cellCount_eq_countOn, C02_pieceCount_eq_countOn]
  exact ⟨h1, h3, fun e => ⟨h2 e, h4 e⟩⟩

/-- **Material never increases along a run** (from its start): from a state satisfying the play
invariant, after any list of actions each taken from the rule-only list of the state where it is
applied, every cell count and the number of pieces are at most what they were at the start. -/
theorem C02_material_antitone_from_start (s : GameState) (pp : PlayPhase) (h : PlayInv s pp) (as : List Action)
    (ho : OfferedNR s as) (c : Cell) :
    cellCount (absBoard (s.run as).board) c ≤ cellCount (absBoard s.board) c ∧
    pieceCount (absBoard (s.run as).board) ≤ pieceCount (absBoard s.board) := by
  induction as generalizing s pp with
  | nil => exact ⟨Nat.le_refl _, Nat.le_refl _⟩
  | cons a as ih =>
    obtain ⟨pp2, h2⟩ := playInv_step s pp h a ho.1
    obtain ⟨hc, hp, _⟩ := C02_material_antitone s pp h a ho.1 c
    obtain ⟨ihc, ihp⟩ := ih (s.takeAction a) pp2 h2 ho.2
    rw [run_cons]
    exact ⟨Nat.le_trans ihc hc, Nat.le_trans ihp hp⟩

/-- **Material never increases along a game.**  From a state satisfying the play invariant, along
every list of actions each taken from the rule-only list of the state where it is applied (so also
along every list of offered actions, `offered_offeredNR`): at every later point of the run, the
number of cells of each colour and type, and the number of pieces, is at most what it was at every
earlier point (`as` = the run up to the earlier point, `bs` = the continuation). -/
theorem C02_material_antitone_run (s : GameState) (pp : PlayPhase) (h : PlayInv s pp) (as bs : List Action)
    (ho : OfferedNR s (as ++ bs)) (c : Cell) :
    cellCount (absBoard (s.run (as ++ bs)).board) c ≤ cellCount (absBoard (s.run as).board) c ∧
    pieceCount (absBoard (s.run (as ++ bs)).board) ≤ pieceCount (absBoard (s.run as).board) := by
  obtain ⟨ho1, ho2⟩ := (offeredNR_append s as bs).mp ho
  obtain ⟨pp1, h1⟩ := playInv_run s pp h as ho1
  rw [run_append]
  exact C02_material_antitone_from_start (s.run as) pp1 h1 bs ho2 c

/-! ### non-vacuity -/

/-- `exC02` (Props/C02): Gold cat on the trap c3 supported only by the Gold rabbit on c2, a Silver
rabbit on b7.  The play invariant holds there and the rabbit's step to d2 is in the rule-only list … -/
example : ∃ pp, PlayInv exC02 pp ∧ Action.move 50 .right ∈ exC02.validActionsNoRep := by
  refine ⟨PlayPhase.initial 0 [0], ⟨rfl, ?_, trivial, by decide⟩, by decide +kernel⟩
  apply wf_of_union_disjoint
  · rfl
  · intro t u _; cases t <;> cases u <;> first | contradiction | decide +kernel
  · intro i hi
    have : ∀ j : Fin 64, bit exC02.board.p1 j.1 = true → bit exC02.board.all j.1 = true := by decide +kernel
    exact this ⟨i, hi⟩

/-- … and the inequality is strict there: the Gold cat is captured (1 before, 0 after), the Gold
rabbit and the Silver rabbit stay (1 each), three pieces before and two after. -/
example :
    cellCount (absBoard exC02.board) ⟨true, .cat⟩ = 1 ∧
    cellCount (absBoard (exC02.takeAction (.move 50 .right)).board) ⟨true, .cat⟩ = 0 ∧
    cellCount (absBoard exC02.board) ⟨true, .rabbit⟩ = 1 ∧
    cellCount (absBoard (exC02.takeAction (.move 50 .right)).board) ⟨true, .rabbit⟩ = 1 ∧
    cellCount (absBoard (exC02.takeAction (.move 50 .right)).board) ⟨false, .rabbit⟩ = 1 ∧
    pieceCount (absBoard exC02.board) = 3 ∧
    pieceCount (absBoard (exC02.takeAction (.move 50 .right)).board) = 2 := by decide +kernel

/-- a two-action offered run from `exC02` (step, then pass) -/
example : OfferedNR exC02 [.move 50 .right, .pass] := by
  refine ⟨by decide +kernel, by decide +kernel, trivial⟩

end Arimaa
