import Arimaa.Impl.Engine
