def main : IO Unit := pure ()
