import Driver.Proto
import Arimaa.Spec.Rules

/-!
Specification-mode driver: answers the line protocol with the L2 specification ONLY (imports
nothing generated and nothing of the implementation model), evaluated on the states the real code
reported.  It is the direct "rules" oracle for C01 (enabled steps, pass), C02 (result of a step),
C04 (result at turn start) and C12 (status after a step), from the very definitions the theorems
are about.
-/
open Arimaa.Spec Proto

def bitOf (w : Nat) (i : Nat) : Bool := w.testBit i

/-- board words are p1 all e m h d c r -/
def specBoard (ws : List Nat) : Board := fun i =>
  if i ≥ 64 then none else
  match ws with
  | [p1, _all, e, m, h, d, c, r] =>
    let g := bitOf p1 i
    if bitOf e i then some ⟨g, .elephant⟩
    else if bitOf m i then some ⟨g, .camel⟩
    else if bitOf h i then some ⟨g, .horse⟩
    else if bitOf d i then some ⟨g, .dog⟩
    else if bitOf c i then some ⟨g, .cat⟩
    else if bitOf r i then some ⟨g, .rabbit⟩
    else none
  | _ => none

def wordsOfSpec (b : Board) : List Nat :=
  let sumBits (f : Nat → Bool) : Nat := (List.range 64).foldl (fun acc i => if f i then acc + 2 ^ i else acc) 0
  let isP (p : Piece) (i : Nat) : Bool := match b i with
    | some c => c.piece == p
    | none => false
  [sumBits (fun i => match b i with | some c => c.gold | none => false),
   sumBits (fun i => (b i).isSome),
   sumBits (isP .elephant), sumBits (isP .camel), sumBits (isP .horse), sumBits (isP .dog),
   sumBits (isP .cat), sumBits (isP .rabbit)]

def pieceOfLetter (c : Char) : Option Piece :=
  match c with
  | 'r' => some .rabbit | 'c' => some .cat | 'd' => some .dog | 'h' => some .horse
  | 'm' => some .camel | 'e' => some .elephant | _ => none

def letterOfPiece : Piece → Char
  | .rabbit => 'r' | .cat => 'c' | .dog => 'd' | .horse => 'h' | .camel => 'm' | .elephant => 'e'

def pendOfString (s : String) : Option Pending :=
  match s.toList with
  | ['-'] => some .none
  | k :: rest =>
    match rest.reverse with
    | pc :: ds =>
      match (String.ofList ds.reverse).toNat?, pieceOfLetter pc with
      | some sq, some p => if k == 'L' then some (.pull sq p) else if k == 'U' then some (.push sq p) else none
      | _, _ => none
    | [] => none
  | [] => none

def stringOfPend : Pending → String
  | .none => "-"
  | .pull q x => s!"L{q}{letterOfPiece x}"
  | .push q v => s!"U{q}{letterOfPiece v}"

def dirLetter : Dir → Char
  | .n => 'n' | .e => 'e' | .s => 's' | .w => 'w'

def dirOfLetter (c : Char) : Option Dir :=
  match c with
  | 'n' => some .n | 'e' => some .e | 's' => some .s | 'w' => some .w | _ => none

def sqName (i : Nat) : String := String.ofList [Char.ofNat (97 + i % 8), Char.ofNat (48 + (8 - i / 8))]

def moveOfString (s : String) : Option (Nat × Dir) :=
  match s.toList with
  | [f, r, d] =>
    if 'a' ≤ f ∧ f ≤ 'h' ∧ '1' ≤ r ∧ r ≤ '8' then
      match dirOfLetter d with
      | some dd => some ((f.toNat - 97) + (8 - (r.toNat - 48)) * 8, dd)
      | none => none
    else none
  | _ => none

structure SpecState where
  board : Board
  gold : Bool
  step : Nat
  pend : Pending
  play : Bool

def stateOfRaw (r : RawState) : Option SpecState :=
  match r.play with
  | none => some { board := specBoard r.board, gold := r.gold, step := 0, pend := .none, play := false }
  | some p =>
    match pendOfString p.pps with
    | some pd => some { board := specBoard r.board, gold := r.gold, step := p.prev.length, pend := pd, play := true }
    | none => none

def sortStrings (l : List String) : List String := (l.toArray.qsort (· < ·)).toList

def observe (s : SpecState) : String :=
  if !s.play then "setup" else
  let moves := (List.range 64).flatMap fun i => Dir.all.filterMap fun d =>
    if enabledMove s.board s.gold s.step s.pend i d then some (sqName i ++ String.ofList [dirLetter d]) else none
  let all := if passEnabled s.step s.pend then moves ++ ["p"] else moves
  let vanr := if all.isEmpty then "-" else ",".intercalate (sortStrings all)
  let term := if s.step == 0 then
      (match result s.board s.gold with
       | none => "-"
       | some .goldWin => "G"
       | some .silverWin => "S")
    else "?"
  s!"vanr={vanr} term={term}"

def handle (cur : Option SpecState) (line : String) : Option SpecState × String :=
  match splitWords line with
  | "S" :: ws =>
    match parseState ws with
    | some r => match stateOfRaw r with
      | some s => (some s, "ok")
      | none => (none, "bad-state")
    | none => (none, "bad-state")
  | ["O"] =>
    match cur with
    | some s => (cur, observe s)
    | none => (cur, "no-state")
  | ["T", a] =>
    match cur with
    | some s =>
      if !s.play then (cur, "setup")
      else if a == "p" then
        (cur, "board=" ++ "/".intercalate ((wordsOfSpec s.board).map toHex16) ++ " pps=-")
      else match moveOfString a with
        | some (i, d) =>
          let b' := applyStep s.board i d
          let pps := if s.step < 3 then stringOfPend (nextPending s.board s.gold s.pend i d) else "-"
          (cur, "board=" ++ "/".intercalate ((wordsOfSpec b').map toHex16) ++ " pps=" ++ pps)
        | none => (cur, "skip")
    | none => (cur, "no-state")
  | [] => (cur, "")
  | _ => (cur, "skip")

partial def loop (hin : IO.FS.Stream) (hout : IO.FS.Stream) (cur : Option SpecState) : IO Unit := do
  let line ← hin.getLine
  if line.isEmpty then return ()
  let (cur', out) := handle cur line
  hout.putStrLn out
  loop hin hout cur'

def main : IO Unit := do
  let hin ← IO.getStdin
  let hout ← IO.getStdout
  loop hin hout none
  hout.flush
