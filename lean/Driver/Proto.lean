/-!
Line protocol shared by the two drivers.  Imports nothing of the model or the specification.

  S <g|s> <moveNo> P <b0..b7> <hash> <k> <k*8 prev words> <pps> <initHash> <trapped> <n> <n hist words>
  S <g|s> <moveNo> L <b0..b7> <hash>                                  (place phase)
  O                         observe the current state (all queries in one answer line)
  T <action>                apply an action to the current state, answer = successor encoding
  P <pct-text>              GameState::from_str
  A/Q/C/D <pct-text>        Action / Square / Piece / Direction from_str
  W a <action> | W q <n>    Display of an action / square conversions
board words are in the order p1 all e m h d c r, hex without prefix.
pps is `-` | `L<sq><piece letter>` (possible pull) | `U<sq><piece letter>` (must complete push),
<sq> decimal, e.g. `U42r`.
-/
namespace Proto

def hexDigit (c : Char) : Option Nat :=
  if '0' ≤ c ∧ c ≤ '9' then some (c.toNat - 48)
  else if 'a' ≤ c ∧ c ≤ 'f' then some (c.toNat - 87)
  else if 'A' ≤ c ∧ c ≤ 'F' then some (c.toNat - 55)
  else none

def parseHex (s : String) : Option Nat :=
  if s.isEmpty then none else
  s.toList.foldl (fun acc c => match acc, hexDigit c with
    | some a, some d => some (a * 16 + d)
    | _, _ => none) (some 0)

def hexChar (n : Nat) : Char := if n < 10 then Char.ofNat (48 + n) else Char.ofNat (87 + n)

def toHex16 (n : Nat) : String :=
  String.ofList ((List.range 16).reverse.map fun i => hexChar ((n >>> (4 * i)) % 16))

/-- percent-decoding to UTF-8 text; `none` on malformed input -/
def pctDecode (s : String) : Option String :=
  let rec go : List Char → ByteArray → Option ByteArray
    | [], acc => some acc
    | '%' :: a :: b :: rest, acc =>
      match hexDigit a, hexDigit b with
      | some x, some y => go rest (acc.push (UInt8.ofNat (x * 16 + y)))
      | _, _ => none
    | '%' :: _, _ => none
    | c :: rest, acc => if c.toNat < 128 then go rest (acc.push (UInt8.ofNat c.toNat)) else none
  match go s.toList ByteArray.empty with
  | some bytes => String.fromUTF8? bytes
  | none => none

def pctSafe (b : UInt8) : Bool :=
  let n := b.toNat
  (48 ≤ n && n ≤ 57) || (65 ≤ n && n ≤ 90) || (97 ≤ n && n ≤ 122) || n == 45 || n == 95 || n == 46 || n == 43

def pctEncode (s : String) : String :=
  String.ofList (s.toUTF8.toList.flatMap fun b =>
    if pctSafe b then [Char.ofNat b.toNat]
    else ['%', hexChar (b.toNat / 16), hexChar (b.toNat % 16)])

structure RawPlay where
  prev : List (List Nat)      -- each 8 words
  pps : String
  initHash : Nat
  trapped : Bool
  hist : List Nat             -- newest first

structure RawState where
  gold : Bool
  moveNo : Nat
  board : List Nat            -- 8 words: p1 all e m h d c r
  hash : Nat
  play : Option RawPlay

def takeHex (n : Nat) (ws : List String) : Option (List Nat × List String) :=
  if ws.length < n then none else
  match (ws.take n).mapM parseHex with
  | some xs => some (xs, ws.drop n)
  | none => none

def takeBoards : Nat → List String → Option (List (List Nat) × List String)
  | 0, ws => some ([], ws)
  | k + 1, ws => do
    let (b, ws) ← takeHex 8 ws
    let (bs, ws) ← takeBoards k ws
    pure (b :: bs, ws)

/-- parses the words after `S` -/
def parseState (ws : List String) : Option RawState := do
  match ws with
  | side :: mv :: ph :: rest =>
    let gold ← (if side == "g" then some true else if side == "s" then some false else none)
    let moveNo ← mv.toNat?
    let (board, rest) ← takeHex 8 rest
    match rest with
    | h :: rest =>
      let hash ← parseHex h
      if ph == "L" then
        if rest.isEmpty then pure { gold, moveNo, board, hash, play := none } else none
      else if ph == "P" then
        match rest with
        | k :: rest =>
          let k ← k.toNat?
          let (prev, rest) ← takeBoards k rest
          match rest with
          | pps :: ih :: tr :: n :: rest =>
            let initHash ← parseHex ih
            let trapped ← (if tr == "1" then some true else if tr == "0" then some false else none)
            let n ← n.toNat?
            let (hist, rest) ← takeHex n rest
            if rest.isEmpty then
              pure { gold, moveNo, board, hash, play := some { prev, pps, initHash, trapped, hist } }
            else none
          | _ => none
        | _ => none
      else none
    | _ => none
  | _ => none

def showState (s : RawState) : String :=
  let b := " ".intercalate (s.board.map toHex16)
  let base := s!"{if s.gold then "g" else "s"} {s.moveNo} "
  match s.play with
  | none => base ++ s!"L {b} {toHex16 s.hash}"
  | some p =>
    let prev := String.join (p.prev.map fun bd => " " ++ " ".intercalate (bd.map toHex16))
    let hist := String.join (p.hist.map fun h => " " ++ toHex16 h)
    base ++ s!"P {b} {toHex16 s.hash} {p.prev.length}{prev} {p.pps} {toHex16 p.initHash} {if p.trapped then "1" else "0"} {p.hist.length}{hist}"

def splitWords (line : String) : List String :=
  (line.trimAscii.toString.splitOn " ").filter (· ≠ "")

end Proto
