import Driver.Proto
import Arimaa.Impl.Text
import Arimaa.Impl.Panics

/-!
Implementation-model driver: answers the line protocol of `Driver/Proto.lean` with the L1 model.
Imports no Mathlib, so it links as a `lean_exe`.
-/
open Arimaa Proto

def bb (n : Nat) : BB := BitVec.ofNat 64 n

def boardOfWords : List Nat → Option Board
  | [p1, all, e, m, h, d, c, r] =>
    some { p1 := bb p1, all := bb all, elephants := bb e, camels := bb m, horses := bb h,
           dogs := bb d, cats := bb c, rabbits := bb r }
  | _ => none

def wordsOfBoard (b : Board) : List Nat :=
  [b.p1, b.all, b.elephants, b.camels, b.horses, b.dogs, b.cats, b.rabbits].map BitVec.toNat

def pieceOfLetter (c : Char) : Option Piece :=
  [Piece.rabbit, .cat, .dog, .horse, .camel, .elephant].find? (fun p => Gen.pieceLetter p == c)

def ppsOfString (s : String) : Option PPS :=
  match s.toList with
  | ['-'] => some .none
  | k :: rest =>
    match rest.reverse with
    | pc :: ds =>
      match (String.ofList ds.reverse).toNat?, pieceOfLetter pc with
      | some sq, some p =>
        if k == 'L' then some (.possiblePull sq p) else if k == 'U' then some (.mustCompletePush sq p) else none
      | _, _ => none
    | [] => none
  | [] => none

def stringOfPPS : PPS → String
  | .none => "-"
  | .possiblePull sq p => s!"L{sq}{Gen.pieceLetter p}"
  | .mustCompletePush sq p => s!"U{sq}{Gen.pieceLetter p}"

def stateOfRaw (r : RawState) : Option GameState := do
  let board ← boardOfWords r.board
  let phase ← match r.play with
    | none => some Phase.place
    | some p => do
      let prev ← p.prev.mapM boardOfWords
      let pps ← ppsOfString p.pps
      pure (Phase.play { prev, pps, initHash := bb p.initHash, hist := p.hist.map bb, trapped := p.trapped })
  pure { p1Turn := r.gold, moveNo := r.moveNo, phase, board, hash := bb r.hash }

def rawOfState (s : GameState) : RawState :=
  { gold := s.p1Turn, moveNo := s.moveNo, board := wordsOfBoard s.board, hash := s.hash.toNat,
    play := match s.phase with
      | .place => none
      | .play pp => some { prev := pp.prev.map wordsOfBoard, pps := stringOfPPS pp.pps,
                           initHash := pp.initHash.toNat, trapped := pp.trapped,
                           hist := pp.hist.map BitVec.toNat } }

def dirOfLetter (c : Char) : Option Dir := [Dir.up, .right, .down, .left].find? (fun d => Gen.dirLetter d == c)

/-- protocol encoding of actions: printed form for on-board squares, `#<sq><dir>` otherwise -/
def actionOfString (s : String) : Option Action :=
  match s.toList with
  | '#' :: rest =>
    match rest.reverse with
    | dc :: ds => match (String.ofList ds.reverse).toNat?, dirOfLetter dc with
      | some sq, some d => some (.move sq d)
      | _, _ => none
    | [] => none
  | cs => match parseAction cs with
    | .ok a => some a
    | _ => none

def stringOfAction (a : Action) : String :=
  match a with
  | .move sq d => if sq < 64 then String.ofList (showAction a) else s!"#{sq}{Gen.dirLetter d}"
  | _ => String.ofList (showAction a)

def sortStrings (l : List String) : List String := (l.toArray.qsort (· < ·)).toList

def joinOr (l : List String) : String := if l.isEmpty then "-" else ",".intercalate l

def showTerm : Option Terminal → String
  | none => "-"
  | some .goldWin => "G"
  | some .silverWin => "S"

def hexBoard (b : Board) : String := "/".intercalate ((wordsOfBoard b).map toHex16)

def observe (s : GameState) : String :=
  let pVA := panics_valid_actions s
  let pNR := panics_valid_actions_no_rep s
  let vanrRaw := if pNR then [] else s.validActionsNoRep
  let va := if pVA then "PANIC" else joinOr (sortStrings (s.validActions.map stringOfAction))
  let vanr := if pNR then "PANIC" else joinOr (sortStrings (vanrRaw.map stringOfAction))
  let pv := if pNR then "PANIC" else joinOr (sortStrings (vanrRaw.map fun a =>
    stringOfAction a ++ ":" ++ (if panics_preview s a then "PANIC" else match s.trappedAnimalForAction a with
      | none => "-"
      | some (sq, p, g) => String.ofList (showSquare sq) ++ String.ofList [Gen.pieceLetter p] ++ (if g then "g" else "s"))))
  let pbs := match s.phase with
    | .play pp =>
      if panics_current_step s then "PANIC" else
      joinOr ((List.range (pp.step + 1)).map fun i => if panics_pbs s i then "PANIC" else hexBoard (s.pieceBoardForStep i))
    | .place => "-"
  let placebit := match s.phase with
    | .place => if s.board.placementBitPanics then "PANIC" else toHex16 s.board.placementBit.toNat
    | .play _ => "-"
  let at_ := String.ofList ((List.range 64).map fun i => match s.board.pieceTypeAtSquare i with
    | some p => Gen.pieceLetter p
    | none => '.')
  let views := " ".intercalate (
    (Gen.Piece_ALL.flatMap fun p => [toHex16 (s.board.bitsForPiece p true).toNat, toHex16 (s.board.bitsForPiece p false).toNat,
      toHex16 (s.board.bitsByPieceType p).toNat]) ++
    [toHex16 (s.board.playerPieceMask true).toNat, toHex16 (s.board.playerPieceMask false).toNat])
  let thash := if panics_transposition_hash s then "PANIC" else toHex16 s.transpositionHash.toNat
  let scratch := if panics_transposition_hash s then "PANIC" else match s.phase with
    | .play pp => toHex16 (zWithPPS (zFromPieceBoard s.board s.p1Turn pp.step) pp.pps).toNat
    | .place => toHex16 s.hash.toNat
  let term := if panics_is_terminal s then "PANIC" else showTerm s.isTerminal
  let cp0 := if panics_can_pass s false then "PANIC" else (if s.canPass false then "1" else "0")
  let cp1 := if panics_can_pass s true then "PANIC" else (if s.canPass true then "1" else "0")
  let hm := if panics_has_move s then "PANIC" else showTerm (s.hasMove s.board)
  let shown := if panics_display s then "PANIC" else pctEncode (String.ofList (showState s))
  s!"va={va} vanr={vanr} term={term} cp0={cp0} cp1={cp1} hm={hm} thash={thash} scratch={scratch} pv={pv} pbs={pbs} placebit={placebit} at={at_} views={views.replace " " "/"} show={shown}"

def outcomeStr {α} (f : α → String) : Outcome α → String
  | .ok a => "ok " ++ f a
  | .err => "err"
  | .panic => "panic"

def sqConv (n : Nat) : String :=
  -- from_index n: index, as_bit_board, from_bit_board(as_bit_board), column_char, row, Display, new(column,row)
  let bit := sqBit n
  s!"idx={n} bit={toHex16 bit.toNat} back={sqOfBit bit} col={sqColumnChar n} row={sqRow n} show={String.ofList (showSquare n)} new={sqNew (sqColumnChar n) (sqRow n)}"

/-- `impl PartialEq for GameState`: equality of the board-state hashes -/
def stateEq (a b : GameState) : Bool := a.hash == b.hash

/-- the persistent list of linked_list.rs as a Lean list (head = newest) -/
def listOp (l : List Nat) (ws : List String) : List Nat × String :=
  match ws with
  | ["new"] => ([], "ok")
  | ["append", x] => (match x.toNat? with
      | some v => (v :: l, "ok")
      | none => (l, "bad-op"))
  | ["tail"] => (l.tail, "ok")
  | ["head"] => (l, match l.head? with
      | some v => toString v
      | none => "none")
  | ["len"] => (l, toString l.length)
  | ["empty"] => (l, if l.isEmpty then "1" else "0")
  | ["iter"] => (l, if l.isEmpty then "-" else ",".intercalate (l.map toString))
  | _ => (l, "bad-op")

def handle (cur : Option GameState) (line : String) : Option GameState × String :=
  match splitWords line with
  | "S" :: ws =>
    match parseState ws with
    | some r => match stateOfRaw r with
      | some s => (some s, "ok")
      | none => (none, "bad-state")
    | none => (none, "bad-state")
  | ["O"] =>
    match cur with
    | some s => (cur, observe s)
    | none => (cur, "no-state")
  | ["T", a] =>
    match cur, actionOfString a with
    | some s, some act =>
      if panics_take s act then (cur, "panic") else (cur, showState (rawOfState (s.takeAction act)))
    | _, _ => (cur, "bad-op")
  | ["I"] => (cur, showState (rawOfState GameState.initial))
  | ["B", i] =>
    match cur, i.toNat? with
    | some s, some i => (cur, if panics_pbs s i then "PANIC" else hexBoard (s.pieceBoardForStep i))
    | _, _ => (cur, "bad-op")
  | ["N"] =>
    match cur with
    | some s => (cur, if panics_current_step s then "PANIC" else toString s.step)
    | none => (cur, "no-state")
  | ["X", a] =>
    match cur, actionOfString a with
    | some s, some act =>
      (cur, if panics_preview s act then "PANIC" else match s.trappedAnimalForAction act with
        | none => "-"
        | some (sq, p, g) => String.ofList (showSquare sq) ++ String.ofList [Gen.pieceLetter p] ++ (if g then "g" else "s"))
    | _, _ => (cur, "bad-op")
  | ["P", t] =>
    match pctDecode t with
    | some txt => (cur, outcomeStr (fun s => showState (rawOfState s)) (parseState txt.toList))
    | none => (cur, "bad-op")
  | ["P"] => (cur, outcomeStr (fun s => showState (rawOfState s)) (parseState []))
  | [k, t] =>
    match pctDecode t with
    | some txt =>
      if k == "A" then (cur, outcomeStr stringOfAction (parseAction txt.toList))
      else if k == "Q" then (cur, outcomeStr (fun (n : Nat) => toString n) (parseSquare txt.toList))
      else if k == "C" then (cur, outcomeStr (fun p => String.ofList (showPiece p)) (parsePiece txt.toList))
      else if k == "D" then (cur, outcomeStr (fun d => String.ofList (showDir d)) (parseDir txt.toList))
      else (cur, "bad-op")
    | none => (cur, "bad-op")
  | [k] =>
    if k == "A" then (cur, outcomeStr stringOfAction (parseAction []))
    else if k == "Q" then (cur, outcomeStr (fun (n : Nat) => toString n) (parseSquare []))
    else if k == "C" then (cur, outcomeStr (fun p => String.ofList (showPiece p)) (parsePiece []))
    else if k == "D" then (cur, outcomeStr (fun d => String.ofList (showDir d)) (parseDir []))
    else (cur, "bad-op")
  | ["W", "a", a] =>
    match actionOfString a with
    | some act => (cur, String.ofList (showAction act))
    | none => (cur, "bad-op")
  | ["W", "q", n] =>
    match n.toNat? with
    | some n => (cur, sqConv n)
    | none => (cur, "bad-op")
  | [] => (cur, "")
  | _ => (cur, "bad-op")

partial def loop (hin : IO.FS.Stream) (hout : IO.FS.Stream) (cur saved : Option GameState) (lst : List Nat) : IO Unit := do
  let line ← hin.getLine
  if line.isEmpty then return ()
  match splitWords line with
  | ["K"] =>
    hout.putStrLn "ok"
    loop hin hout cur cur lst
  | ["E"] =>
    hout.putStrLn (match cur, saved with
      | some a, some b => if stateEq a b then "1" else "0"
      | _, _ => "no-state")
    loop hin hout cur saved lst
  | "L" :: ws =>
    let (lst', out) := listOp lst ws
    hout.putStrLn out
    loop hin hout cur saved lst'
  | _ =>
    let (cur', out) := handle cur line
    hout.putStrLn out
    loop hin hout cur' saved lst

def main : IO Unit := do
  let hin ← IO.getStdin
  let hout ← IO.getStdout
  loop hin hout none none []
  hout.flush
