//! G7: text streams for C15 (diagrams) and C16 (actions, squares, pieces, directions).
use crate::enc::*;
use crate::oracle::*;
use crate::refmodel::*;
use crate::util::*;
use arimaa_engine_step::*;

pub const ALPHABET: [char; 26] = [
    'a', 'h', 'i', '1', '8', '0', '9', 'n', 'e', 's', 'w', 'p', 'r', 'R', 'm', 'M', 'A', '`', '+', 'é', 'š', '€', '٣', ' ', 'x', 'q',
];

fn all_strings(max_len: usize) -> Vec<String> {
    let mut out = vec![String::new()];
    let mut layer = vec![String::new()];
    for _ in 0..max_len {
        let mut next = vec![];
        for s in &layer {
            for c in ALPHABET {
                let mut t = s.clone();
                t.push(c);
                next.push(t);
            }
        }
        out.extend(next.iter().cloned());
        layer = next;
    }
    out
}

fn op(kind: char, s: &str) -> String {
    if s.is_empty() {
        kind.to_string()
    } else {
        format!("{} {}", kind, pct_encode(s))
    }
}

fn upper_piece_form(p: Piece) -> String {
    piece_letter(p).to_ascii_uppercase().to_string()
}

pub fn all_actions() -> Vec<Action> {
    let mut v = vec![Action::Pass];
    for p in Piece::ALL.iter() {
        v.push(Action::Place(*p));
    }
    for i in 0..64u8 {
        for d in Direction::ALL.iter() {
            v.push(Action::Move(Square::from_index(i), *d));
        }
    }
    v
}

/// Long texts: every byte length up to a bound, with one multi-byte character (2, 3 and 4 bytes) starting at every
/// byte offset, the rest ASCII; beyond the bound only around the powers of two.  A parser (or the code that builds
/// its error value) that cuts the text at a fixed BYTE offset meets a character straddling that offset here.
fn long_strings(thorough: bool) -> Vec<String> {
    let mut out = vec![];
    let wide = ['é', '€', '𝄞'];
    let bound = if thorough { 272 } else { 136 };
    let mut lens: Vec<usize> = (5..=bound).collect();
    for b in [256usize, 512, 1024, 4096, 65536] {
        if b > bound {
            lens.extend(b - 1..=b + 4);
        }
    }
    for (li, &len) in lens.iter().enumerate() {
        for (wi, &c) in wide.iter().enumerate() {
            let w = c.len_utf8();
            let offsets: Vec<usize> = if len <= bound {
                (0..=len - w).collect()
            } else {
                // around every power of two below the length
                let mut v = vec![];
                let mut b = 8;
                while b < len {
                    v.extend((b.saturating_sub(3)..=b).filter(|o| o + w <= len));
                    b *= 2;
                }
                v
            };
            for o in offsets {
                // half of them start like a printed action, so that a parser which looks at a prefix goes further
                let head = if (li + wi + o) % 2 == 0 { "a1n" } else { "" };
                let mut t = String::with_capacity(len);
                t.push_str(&head[..head.len().min(o)]);
                while t.len() < o {
                    t.push('a');
                }
                t.push(c);
                while t.len() < len {
                    t.push('1');
                }
                out.push(t);
            }
        }
    }
    out
}

pub fn notation(rng: &mut Rng, max_len: usize, extra_random: usize, rep: &mut Report, sink: &mut Sink) {
    let mut strings = all_strings(max_len);
    // sampled beyond the bound: longer strings built from printed forms with one mutation
    let acts = all_actions();
    for _ in 0..extra_random {
        let mut s: Vec<char> = format!("{}", rng.pick(&acts)).chars().collect();
        match rng.below(4) {
            0 => s.insert(rng.below(s.len() + 1), *rng.pick(&ALPHABET)),
            1 => {
                let k = rng.below(s.len());
                s[k] = *rng.pick(&ALPHABET);
            }
            2 => s.extend(format!("{}", rng.pick(&acts)).chars()),
            _ => {
                let k = rng.below(s.len());
                s[k] = char::from_u32(s[k] as u32 + 0x100).unwrap_or('x');
            }
        }
        strings.push(s.into_iter().collect());
    }
    strings.extend(long_strings(max_len >= 4));
    for s in &strings {
        let n = s.chars().count();
        rep.eval("C16");
        if n >= 1 {
            rep.nontriv("C16", fnv(&s.bytes().map(|b| b as u64).collect::<Vec<_>>()));
        }
        // Action
        let r = guard(|| s.parse::<Action>());
        sink.emit(&op('A', s), &parse_outcome(r.as_ref().map(|x| x.as_ref().map_err(|_| ())), |a| enc_action(a)));
        match &r {
            None => rep.fail_raw("C16", "action-parse-panics", format!("Action {:?}", s), vec![], String::new()),
            Some(Ok(a)) => {
                rep.count("C16-action-ok");
                let printed = format!("{}", a);
                let ok = *s == printed || matches!(a, Action::Place(p) if *s == upper_piece_form(*p));
                if !ok {
                    rep.fail_raw("C16", "action-accepts-unprinted-form", format!("Action {:?}", s), vec![], format!("parsed as {}", printed));
                }
            }
            Some(Err(_)) => rep.count("C16-action-err"),
        }
        // Square
        let r = guard(|| s.parse::<Square>());
        sink.emit(&op('Q', s), &parse_outcome(r.as_ref().map(|x| x.as_ref().map_err(|_| ())), |q| q.index().to_string()));
        match &r {
            None => rep.fail_raw("C16", "square-parse-panics", format!("Square {:?}", s), vec![], String::new()),
            Some(Ok(q)) => {
                rep.count("C16-square-ok");
                if *s != format!("{}", q) {
                    rep.fail_raw("C16", "square-accepts-unprinted-form", format!("Square {:?}", s), vec![], format!("parsed as {}", q));
                }
            }
            Some(Err(_)) => rep.count("C16-square-err"),
        }
        if n <= 2 {
            let r = guard(|| s.parse::<Piece>());
            sink.emit(&op('C', s), &parse_outcome(r.as_ref().map(|x| x.as_ref().map_err(|_| ())), |p| piece_letter(**p).to_string()));
            match &r {
                None => rep.fail_raw("C16", "piece-parse-panics", format!("Piece {:?}", s), vec![], String::new()),
                Some(Ok(p)) => {
                    if *s != format!("{}", p) && *s != upper_piece_form(*p) {
                        rep.fail_raw("C16", "piece-accepts-unprinted-form", format!("Piece {:?}", s), vec![], format!("{}", p));
                    }
                }
                _ => {}
            }
            let r = guard(|| s.parse::<Direction>());
            sink.emit(&op('D', s), &parse_outcome(r.as_ref().map(|x| x.as_ref().map_err(|_| ())), |d| dir_letter(**d).to_string()));
            match &r {
                None => rep.fail_raw("C16", "direction-parse-panics", format!("Direction {:?}", s), vec![], String::new()),
                Some(Ok(d)) => {
                    if *s != format!("{}", d) {
                        rep.fail_raw("C16", "direction-accepts-unprinted-form", format!("Direction {:?}", s), vec![], format!("{}", d));
                    }
                }
                _ => {}
            }
        }
    }
    // round trips of all values
    for a in &acts {
        rep.eval("C16");
        let printed = guard(|| format!("{}", a));
        sink.emit(&format!("W a {}", enc_action(a)), &printed.clone().unwrap_or("PANIC".to_string()));
        match printed {
            None => rep.fail_raw("C16", "action-display-panics", enc_action(a), vec![], String::new()),
            Some(t) => {
                if t != enc_action(a) {
                    rep.fail_raw("C16", "action-prints-unexpected-text", enc_action(a), vec![], t.clone());
                }
                match guard(|| t.parse::<Action>()) {
                    Some(Ok(b)) if b == *a => {}
                    other => rep.fail_raw("C16", "action-round-trip", enc_action(a), vec![], format!("{:?} parsed as {:?}", t, other.map(|r| r.ok()))),
                }
                if let Action::Place(p) = a {
                    match guard(|| upper_piece_form(*p).parse::<Action>()) {
                        Some(Ok(b)) if b == *a => {}
                        _ => rep.fail_raw("C16", "upper-case-piece-letter-rejected", upper_piece_form(*p), vec![], String::new()),
                    }
                }
            }
        }
    }
    for p in Piece::ALL.iter() {
        if format!("{}", p).parse::<Piece>().ok() != Some(*p) {
            rep.fail_raw("C16", "piece-round-trip", format!("{:?}", p), vec![], String::new());
        }
    }
    for d in Direction::ALL.iter() {
        if format!("{}", d).parse::<Direction>().ok() != Some(*d) {
            rep.fail_raw("C16", "direction-round-trip", format!("{:?}", d), vec![], String::new());
        }
    }
    for i in 0..64u8 {
        rep.eval("C16");
        let q = Square::from_index(i);
        let name = format!("{}{}", (b'a' + i % 8) as char, 8 - i / 8);
        let exp = format!(
            "idx={} bit={:016x} back={} col={} row={} show={} new={}",
            q.index(),
            q.as_bit_board(),
            Square::from_bit_board(q.as_bit_board()).index(),
            q.column_char(),
            q.row(),
            q,
            Square::new(q.column_char(), q.row() as usize).index()
        );
        sink.emit(&format!("W q {}", i), &exp);
        let ok = q.index() == i as usize
            && q.as_bit_board() == 1u64 << i
            && Square::from_bit_board(1u64 << i) == q
            && Square::new(q.column_char(), q.row() as usize) == q
            && format!("{}", q) == name
            && name.parse::<Square>().ok() == Some(q);
        if !ok {
            rep.fail_raw("C16", "square-conversions", name, vec![], exp);
        }
    }
    for _ in 0..200 {
        let x = rng.next() & rng.next();
        let sq: Vec<usize> = map_bit_board_to_squares(x).iter().map(|q| q.index()).collect();
        let exp: Vec<usize> = (0..64).filter(|i| x >> i & 1 == 1).collect();
        if sq != exp {
            rep.fail_raw("C16", "squares-of-bitboard", format!("{:016x}", x), vec![], format!("{:?}", sq));
        }
    }
}

/// Structured mutations of a printed diagram plus raw noise.
pub fn diagram_mutations(rng: &mut Rng, base: &str, n: usize) -> Vec<String> {
    let headers = [
        "", "2g", "2s", "17w", "17b", "0g", "00002s", "18446744073709551615s", "18446744073709551616g", "99999999999999999999999g", "٣g", "1٣s", "３g",
        " \t2g", "\u{a0}2g", "\u{2003}7s", "\u{85}9b", "2 g", "g2", "2x", "-2g", "+2g", "2gs", "2g2s", "x2g", "2G", "२s", "1e3g",
    ];
    let mut out = vec![];
    let lines: Vec<&str> = base.lines().collect();
    let body = lines[1..].join("\n");
    for h in headers {
        out.push(format!("{}\n{}\n", h, body));
    }
    // very tall and very wide diagrams: the cell index passes 255 / 65535 (a narrower index type would
    // wrap or overflow), with blank extra cells and with a piece in the far corner
    for extra in [1usize, 8, 23, 24, 25, 31, 32, 33, 64, 300, 9000] {
        for piece_at_end in [false, true] {
            let mut rows: Vec<String> = lines[2..10].iter().map(|s| s.to_string()).collect();
            for k in 0..extra {
                let last = piece_at_end && k + 1 == extra;
                rows.push(format!("0| {} |", (0..8).map(|c| if last && c == 7 { "r" } else { " " }).collect::<Vec<_>>().join(" ")));
            }
            out.push(format!("{}\n{}\n{}\n", lines[0], lines[1], rows.join("\n")));
        }
    }
    for cells in [9usize, 31, 32, 33, 255, 256, 257, 300, 70000] {
        for (row, piece_at_end) in [(0usize, false), (7, false), (3, true), (7, true)] {
            let mut rows: Vec<String> = lines[2..10].iter().map(|s| s.to_string()).collect();
            rows[row] = format!("{}| {} |", 8 - row, (0..cells).map(|c| if piece_at_end && c + 1 == cells { "C" } else { " " }).collect::<Vec<_>>().join(" "));
            out.push(format!("{}\n{}\n{}\n", lines[0], lines[1], rows.join("\n")));
        }
    }
    for _ in 0..n {
        let mut rows: Vec<String> = lines[2..10].iter().map(|s| s.to_string()).collect();
        let mut header = if rng.chance(1, 3) { rng.pick(&headers).to_string() } else { lines[0].to_string() };
        match rng.below(10) {
            0 => {
                // extra rows
                for _ in 0..1 + rng.below(3) {
                    rows.push(format!("0| {} |", (0..8).map(|_| if rng.chance(1, 4) { 'r' } else { ' ' }.to_string()).collect::<Vec<_>>().join(" ")));
                }
            }
            1 => {
                // fewer rows
                rows.truncate(rng.below(8));
            }
            2 => {
                // long row
                let k = rng.below(rows.len());
                let cells = 9 + rng.below(70);
                rows[k] = format!("{}| {} |", 8 - k, (0..cells).map(|_| if rng.chance(1, 3) { *rng.pick(&['R', 'c', 'E', 'x', ' ']) } else { ' ' }.to_string()).collect::<Vec<_>>().join(" "));
            }
            3 => {
                // stray bar
                let k = rng.below(rows.len());
                let pos = rng.below(rows[k].chars().count());
                let mut cs: Vec<char> = rows[k].chars().collect();
                cs.insert(pos, '|');
                rows[k] = cs.into_iter().collect();
            }
            4 => {
                // non-ascii cell
                let k = rng.below(rows.len());
                let mut cs: Vec<char> = rows[k].chars().collect();
                let pos = rng.below(cs.len());
                cs[pos] = *rng.pick(&['é', 'š', '€', 'Ｒ', 'ℝ', 'ǅ', 'ß', 'İ']);
                rows[k] = cs.into_iter().collect();
            }
            5 => {
                // shifted columns (drop or add a space after the bar)
                let k = rng.below(rows.len());
                rows[k] = rows[k].replacen("| ", if rng.chance(1, 2) { "|" } else { "|  " }, 1);
            }
            6 => {
                // two letters into one cell region / duplicate pieces over material
                let k = rng.below(rows.len());
                rows[k] = rows[k].replace(' ', if rng.chance(1, 2) { "E" } else { "r" });
            }
            7 => {
                header = format!("{}{}", rng.next() % 100000, rng.pick(&['g', 's', 'w', 'b', 'x']));
            }
            8 => {
                // raw noise
                let len = rng.below(120);
                let bytes: Vec<u8> = (0..len).map(|_| if rng.chance(1, 4) { b'|' } else { (rng.next() % 256) as u8 }).collect();
                out.push(String::from_utf8_lossy(&bytes).to_string());
                continue;
            }
            _ => {
                // hanging trap piece / goal rabbits (illegal but parseable)
                let k = [2usize, 5][rng.below(2)];
                let mut cs: Vec<char> = rows[k].chars().collect();
                let pos = [7usize, 13][rng.below(2)];
                if pos < cs.len() {
                    cs[pos] = *rng.pick(&['R', 'r', 'C', 'e']);
                }
                rows[k] = cs.into_iter().collect();
            }
        }
        out.push(format!("{}\n +-----------------+\n{}\n +-----------------+\n   a b c d e f g h\n", header, rows.join("\n")));
    }
    out
}

pub fn parse_stream(texts: &[String], rep: &mut Report, sink: &mut Sink) -> Vec<Game> {
    let mut games = vec![];
    for t in texts {
        rep.eval("C15");
        let r = guard(|| t.parse::<GameState>());
        let exp = match &r {
            None => "panic".to_string(),
            Some(Err(_)) => "err".to_string(),
            Some(Ok(s)) => format!("ok {}", enc_state(s, raw_hash(s))),
        };
        sink.emit(&op('P', t), &exp);
        rep.nontriv("C15", fnv(&t.bytes().map(|b| b as u64).collect::<Vec<_>>()));
        match r {
            None => {
                rep.count("C15-parse-panic");
                rep.fail_raw("C15", "parse-panics", t.clone(), vec![], String::new());
            }
            Some(Err(_)) => rep.count("C15-parse-err"),
            Some(Ok(s)) => {
                rep.count("C15-parse-ok");
                if arr_raw(&words(s.piece_board())).is_none() {
                    rep.fail_raw("C10", "parsed-state-not-well-formed", t.clone(), vec![], String::new());
                } else if let Some(g) = Game::parse(t) {
                    games.push(g);
                }
            }
        }
    }
    games
}
