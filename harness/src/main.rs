//! Correspondence + direct-oracle harness for arimaa-engine-step (see /verif/DESIGN.md §3b, §4).
//!
//! harness trace --prop C01 --tier quick --seed 0 --out DIR [--repo /repo]
//!   writes DIR/ops.txt (protocol operations), DIR/expect.txt (what the real code answered) and
//!   DIR/report.json (oracle failures, coverage counts, samples).
//! harness replay FILE
//!   re-runs the game stored in a replay file on the real code and prints what it observes.
mod crafted;
mod enc;
mod feat;
mod gens;
mod oracle;
mod refmodel;
mod sym;
mod text;
mod unreach;
mod util;

use enc::*;
use gens::*;
use oracle::*;
use refmodel::*;
use std::io::Write;
use util::*;

struct Args {
    prop: String,
    tier: String,
    seed: u64,
    out: String,
    repo: String,
}

fn scale(tier: &str) -> usize {
    if tier == "thorough" {
        20
    } else {
        1
    }
}

fn mk_game(b: &B, side: bool, mv: &str) -> Option<Game> {
    Game::parse(&diagram(b, side, mv))
}

/// Playouts from synthesized positions.
fn run_positions(rng: &mut Rng, n: usize, densities: &[usize], policies: &[Policy], plies: usize, clustered: bool, rep: &mut Report, sink: &mut Sink, em: Emit) {
    for k in 0..n {
        let dens = densities[k % densities.len()];
        let cl = clustered && rng.chance(1, 2);
        let (b, side) = random_position(rng, dens, true, cl);
        let mv = random_move_number(rng);
        let Some(mut g) = mk_game(&b, side, &mv) else { continue };
        let pol = policies[k % policies.len()];
        let mut player = Player::new(pol, !rng.chance(1, 8));
        playout(&mut g, &mut player, plies, rng, rep, sink, em);
    }
}

fn run_motifs(rng: &mut Rng, limit: usize, plies: usize, rep: &mut Report, sink: &mut Sink, em: Emit) {
    let ms = motifs(rng, limit);
    rep.count_n("motif-positions", ms.len() as u64);
    for (k, (b, side)) in ms.iter().enumerate() {
        let Some(mut g) = mk_game(b, *side, "2") else { continue };
        let pol = [Policy::PushPull, Policy::Capture, Policy::Uniform][k % 3];
        let mut player = Player::new(pol, false);
        playout(&mut g, &mut player, plies, rng, rep, sink, em);
    }
}

/// states only (no playout): every oracle on the position itself and on one step from it
fn run_static(positions: &[(B, bool)], rng: &mut Rng, rep: &mut Report, sink: &mut Sink, em: Emit) {
    for (b, side) in positions {
        let Some(mut g) = mk_game(b, *side, "6") else { continue };
        let mut player = Player::new(Policy::PushPull, false);
        playout(&mut g, &mut player, 2, rng, rep, sink, em);
    }
}

/// tiny boards on which both sides walk into dead ends and undo their turns: the repetition rules
/// then empty the action list in the middle of a turn (fourth step, nothing to move, pass withheld)
fn stale_games(rng: &mut Rng, n: usize, rep: &mut Report, sink: &mut Sink) {
    for k in 0..n {
        let (b, side) = random_position(rng, [2, 3, 3, 4][k % 4], true, k % 2 == 0);
        if let Some(mut g) = mk_game(&b, side, "3") {
            let mut player = Player::new(Policy::StaleSeek, true);
            playout(&mut g, &mut player, 120, rng, rep, sink, Emit { obs_pm: 60, all_t_pm: 0 });
        }
    }
}

/// C08, last clause: all states of one turn tree that have the same board, side and step must
/// compare equal and feed the same word to a hasher, whatever path led there and whatever is
/// pending (a step that starts a push in one order completes a pull in another).
fn transposition_groups(rng: &mut Rng, n: usize, rep: &mut Report) {
    use std::collections::HashMap;
    for k in 0..n {
        let (b, side) = if k % 3 == 0 {
            let ms = motifs(rng, 40);
            if ms.is_empty() {
                continue;
            }
            ms[rng.below(ms.len())]
        } else {
            random_position(rng, [4, 8, 14][k % 3], true, true)
        };
        let Some(g) = mk_game(&b, side, "7") else { continue };
        let mut frontier = vec![(g.state.clone(), Vec::<String>::new())];
        let mut groups: HashMap<(Words, usize), Vec<(arimaa_engine_step::GameState, Vec<String>)>> = HashMap::new();
        let mut nodes = 0usize;
        for _depth in 0..3 {
            let mut next = vec![];
            for (st, path) in &frontier {
                let Some(va) = util::guard(|| st.valid_actions_no_rep()) else { continue };
                for a in va {
                    if !matches!(a, arimaa_engine_step::Action::Move(q, _) if q.index() < 64) || nodes > 2500 {
                        continue;
                    }
                    let Some(nx) = util::guard(|| st.take_action(&a)) else { continue };
                    if nx.is_p1_turn_to_move() != side || !nx.is_play_phase() {
                        continue;
                    }
                    nodes += 1;
                    let mut p2 = path.clone();
                    p2.push(enc_action(&a));
                    groups.entry((words(nx.piece_board()), nx.current_step())).or_default().push((nx.clone(), p2.clone()));
                    next.push((nx, p2));
                }
            }
            frontier = next;
        }
        for (_, members) in groups {
            if members.len() < 2 {
                continue;
            }
            let (first, fpath) = &members[0];
            for (other, opath) in members.iter().skip(1) {
                rep.eval("C08");
                let differ_status = enc_pps(first.as_play_phase().unwrap().push_pull_state()) != enc_pps(other.as_play_phase().unwrap().push_pull_state());
                if differ_status {
                    rep.count("transposition-pairs-with-different-status");
                    rep.nontriv("C08", fnv(&[9, state_key(first), state_key(other)]));
                }
                let eq = util::guard(|| (first == other, other == first, hash_impl_word(first) == hash_impl_word(other)));
                if eq != Some((true, true, true)) {
                    let mut gg = Game::parse(&g.start).unwrap();
                    gg.actions = fpath.clone();
                    rep.fail("C08", "same-board-side-step-but-not-equal", &gg, format!("after [{}] and after [{}]: (a == b, b == a, same hash word) = {:?}", fpath.join(" "), opath.join(" "), eq));
                    break;
                }
            }
        }
    }
}


/// Exhaustive (capped) walk of the turn tree below each start position: every state reached by one
/// to four offered actions of the same turn, and the state after the turn ended, goes through all
/// oracles (which look at every outgoing action of the state).  Children are explored completely on
/// the first two levels and sampled below; states in the middle of a push or right after a capture
/// are always kept.
fn run_turn_trees(positions: &[(B, bool)], cap: usize, rng: &mut Rng, rep: &mut Report, sink: &mut Sink, em: Emit) {
    use arimaa_engine_step::Action;
    rep.count_n("turn-tree-roots", positions.len() as u64);
    for (b, side) in positions {
        let text = diagram(b, *side, "5");
        let mut stack: Vec<Vec<Action>> = vec![vec![]];
        let mut nodes = 0usize;
        while let Some(path) = stack.pop() {
            if nodes >= cap {
                break;
            }
            let Some(mut g) = Game::parse(&text) else { break };
            let mut ok = true;
            for a in &path {
                if !g.step(a, rep) {
                    ok = false;
                    break;
                }
            }
            if !ok {
                continue;
            }
            nodes += 1;
            rep.count("turn-tree-nodes");
            g.check_state(rep);
            g.emit_state(sink, rng, em);
            let ended = !path.is_empty() && g.state.is_play_phase() && g.state.current_step() == 0;
            if ended || path.len() >= 4 {
                continue;
            }
            let Some(va) = util::guard(|| g.state.valid_actions_no_rep()) else { continue };
            let before = popcount_all(&g.state);
            let mut kids: Vec<Vec<Action>> = vec![];
            for a in va {
                if matches!(a, Action::Move(q, _) if q.index() >= 64) {
                    continue;
                }
                let keep = if path.len() < 1 {
                    true
                } else {
                    // always follow pushes in progress and captures; sample the rest
                    let special = util::guard(|| {
                        let n = g.state.take_action(&a);
                        let mid_push = n.as_play_phase().map_or(false, |pp| matches!(pp.push_pull_state(), arimaa_engine_step::PushPullState::MustCompletePush(_, _)));
                        mid_push || popcount_all(&n) < before
                    })
                    .unwrap_or(false);
                    special || rng.chance(if path.len() == 1 { 350 } else { 200 }, 1000)
                };
                if keep {
                    let mut p = path.clone();
                    p.push(a);
                    kids.push(p);
                }
            }
            // depth first, in random order, so that a capped tree still reaches the fourth step
            while !kids.is_empty() {
                let k = rng.below(kids.len());
                stack.push(kids.swap_remove(k));
            }
        }
    }
}

fn popcount_all(s: &arimaa_engine_step::GameState) -> u32 {
    s.piece_board().all_pieces.count_ones()
}

/// all complete turns of the side to move (rule-only lists): sequences of one to four actions that
/// end the turn, with the state they lead to; capped
fn all_turns(s: &arimaa_engine_step::GameState, cap: usize, rng: &mut Rng) -> Vec<(Vec<arimaa_engine_step::Action>, arimaa_engine_step::GameState)> {
    use arimaa_engine_step::Action;
    let side = s.is_p1_turn_to_move();
    let mut out = vec![];
    let mut stack: Vec<(arimaa_engine_step::GameState, Vec<Action>)> = vec![(s.clone(), vec![])];
    let mut nodes = 0;
    while let Some((st, path)) = stack.pop() {
        nodes += 1;
        if nodes > cap {
            break;
        }
        let Some(mut va) = util::guard(|| st.valid_actions_no_rep()) else { continue };
        // random order so that a capped search is not biased towards one corner of the tree
        for i in (1..va.len()).rev() {
            let j = rng.below(i + 1);
            va.swap(i, j);
        }
        for a in va {
            if matches!(a, Action::Move(q, _) if q.index() >= 64) {
                continue;
            }
            let Some(n) = util::guard(|| st.take_action(&a)) else { continue };
            let mut p = path.clone();
            p.push(a);
            if !n.is_play_phase() {
                continue;
            }
            if n.is_p1_turn_to_move() != side {
                out.push((p, n));
            } else {
                stack.push((n, p));
            }
        }
    }
    out
}

/// Shortest possible repetition cycles on a fresh history: from a start position X the mover plays a
/// turn that displaces an enemy piece, the opponent answers with a turn that restores X exactly —
/// one representative for every (number of steps, ended by pass / by the fourth step) — and both
/// repeat.  The third occurrence then falls on a history of exactly four entries, on a pass as well
/// as on a fourth step, with and without a push pending on the last step.  Returns (start text,
/// three rounds of the cycle).
fn short_cycle_scripts(rng: &mut Rng, n: usize, rep: &mut Report) -> Vec<(String, Vec<arimaa_engine_step::Action>)> {
    use arimaa_engine_step::Action;
    use std::collections::HashMap;
    let mut out = vec![];
    let starts = trap_clusters(rng, n);
    for (k, (b, side)) in starts.into_iter().enumerate() {
        // low move numbers too: a shortcut keyed on the move number is wrong right after a parsed start
        let text = diagram(&b, side, ["3", "1", "2", "4", "7"][k % 5]);
        let Some(g0) = Game::parse(&text) else { continue };
        let x_words = words(g0.state.piece_board());
        let a_turns = all_turns(&g0.state, 1500, rng);
        // first turns that moved an enemy piece (only those can be undone completely)
        let enemy_mask = |w: &Words| if side { w[1] & !w[0] } else { w[0] };
        let mut cands: Vec<&(Vec<Action>, arimaa_engine_step::GameState)> =
            a_turns.iter().filter(|(_, y)| enemy_mask(&words(y.piece_board())) != enemy_mask(&x_words) && words(y.piece_board())[1].count_ones() == x_words[1].count_ones()).collect();
        for i in (1..cands.len()).rev() {
            let j = rng.below(i + 1);
            cands.swap(i, j);
        }
        for (a_path, y) in cands.into_iter().take(40) {
            // opponent turns that restore X exactly, one per (length, ending kind)
            let mut reps: HashMap<(usize, bool), Vec<Action>> = HashMap::new();
            for (p, z) in all_turns(y, 2500, rng) {
                if words(z.piece_board()) == x_words {
                    let by_pass = matches!(p.last(), Some(Action::Pass));
                    reps.entry((p.len(), by_pass)).or_insert(p);
                }
            }
            rep.count_n("short-cycle-restoring-turn-kinds", reps.len() as u64);
            for (_, b_path) in reps {
                let mut script = vec![];
                for _round in 0..3 {
                    script.extend(a_path.iter().cloned());
                    script.extend(b_path.iter().cloned());
                }
                out.push((text.clone(), script));
            }
        }
    }
    out
}

fn short_cycles(rng: &mut Rng, n: usize, rep: &mut Report, sink: &mut Sink) {
    for (text, script) in short_cycle_scripts(rng, n, rep) {
        let Some(mut g) = Game::parse(&text) else { continue };
        rep.count("short-cycle-games");
        for a in &script {
            g.check_state(rep);
            if rng.chance(60, 1000) {
                sink.emit(&format!("S {}", enc_state(&g.state, g.init_hash)), "ok");
                sink.emit("O", &observe(&g.state));
            }
            let offered = util::guard(|| g.state.valid_actions()).map_or(false, |v| v.contains(a));
            if !offered {
                rep.count("short-cycle-stopped-by-repetition-rule");
                break;
            }
            if !g.step(a, rep) {
                break;
            }
        }
        g.check_state(rep);
    }
}

/// Positions with as many offered actions as possible (hill climbing on the length of the list from
/// full-material positions: pieces spread out, many pushable neighbours): lists beyond any "16 pieces
/// x 4 directions" estimate.
fn crowded_lists(rng: &mut Rng, n: usize, rep: &mut Report) -> Vec<(B, bool)> {
    let mut out = vec![];
    for k in 0..n {
        let (mut b, side) = random_position(rng, 32, true, false);
        let len_of = |b: &B| -> usize { mk_game(b, side, "9").and_then(|g| util::guard(|| g.state.valid_actions_no_rep().len())).unwrap_or(0) };
        let mut best = len_of(&b);
        for _ in 0..(if k % 2 == 0 { 3000 } else { 1000 }) {
            let from: Vec<usize> = (0..64).filter(|i| b[*i].is_some()).collect();
            let to: Vec<usize> = (0..64).filter(|i| b[*i].is_none()).collect();
            if from.is_empty() || to.is_empty() {
                break;
            }
            let (f, t) = (*rng.pick(&from), *rng.pick(&to));
            let mut c = b;
            c[t] = c[f];
            c[f] = None;
            if let Some((g, 0)) = c[t] {
                if (g && t / 8 == 0) || (!g && t / 8 == 7) {
                    continue;
                }
            }
            if !no_hanging(&c) {
                continue;
            }
            let l = len_of(&c);
            if l >= best {
                best = l;
                b = c;
            }
        }
        let key = format!("crowded-list-length-{}", if best >= 66 { "66+" } else if best >= 51 { "51-65" } else { "<=50" });
        rep.count(&key);
        out.push((b, side));
    }
    out
}

/// plays a fixed script (as long as each action is offered), checking every state
fn run_scripts(rng: &mut Rng, rep: &mut Report, sink: &mut Sink, em: Emit) {
    let scripts = double_capture_scripts();
    rep.count_n("double-capture-scripts", scripts.len() as u64);
    for (b, side, script) in scripts {
        let Some(mut g) = mk_game(&b, side, "8") else { continue };
        for (i, d) in script {
            g.check_state(rep);
            let a = arimaa_engine_step::Action::Move(arimaa_engine_step::Square::from_index(i as u8), dir_of(d));
            let offered = util::guard(|| g.state.valid_actions()).map_or(false, |v| v.contains(&a));
            if rng.chance(em.obs_pm, 1000) {
                // `T` answers refer to the state of the last `S` line
                sink.emit(&format!("S {}", enc_state(&g.state, g.init_hash)), "ok");
                sink.emit("O", &observe(&g.state));
                if offered {
                    g.emit_take(sink, &a);
                }
            }
            if !offered {
                break;
            }
            if !g.step(&a, rep) {
                break;
            }
        }
        g.check_state(rep);
    }
}

fn run_corpus(repo: &str, rng: &mut Rng, plies: usize, rep: &mut Report, sink: &mut Sink, em: Emit) {
    let c = corpus(repo);
    rep.count_n("corpus-diagrams", c.len() as u64);
    for (k, d) in c.iter().enumerate() {
        let Some(mut g) = Game::parse(d) else { continue };
        let mut player = Player::new(POLICIES[k % POLICIES.len()], true);
        playout(&mut g, &mut player, plies, rng, rep, sink, em);
    }
    // stored games (known findings, minimised past failures)
    if let Ok(rd) = std::fs::read_dir("/verif/corpus") {
        let mut files: Vec<_> = rd.flatten().map(|e| e.path()).filter(|p| p.extension().map_or(false, |x| x == "game")).collect();
        files.sort();
        for f in files {
            if let Ok(t) = std::fs::read_to_string(&f) {
                replay_game_text(&t, rep, sink, em, rng);
            }
        }
    }
}

/// A stored game: diagram text (or the line INIT), a line `--`, then space separated actions.
fn replay_game_text(t: &str, rep: &mut Report, sink: &mut Sink, em: Emit, rng: &mut Rng) {
    let Some((start, acts)) = t.split_once("\n--\n") else { return };
    let mut g = if start.trim() == "INIT" { Game::initial() } else { match Game::parse(start) { Some(g) => g, None => return } };
    for a in acts.split_whitespace() {
        g.check_state(rep);
        if rng.chance(em.obs_pm, 1000) {
            sink.emit(&format!("S {}", enc_state(&g.state, g.init_hash)), "ok");
            sink.emit("O", &observe(&g.state));
        }
        let Ok(act) = a.parse::<arimaa_engine_step::Action>() else { return };
        if !g.step(&act, rep) {
            return;
        }
    }
    g.check_state(rep);
    sink.emit(&format!("S {}", enc_state(&g.state, g.init_hash)), "ok");
    sink.emit("O", &observe(&g.state));
}

fn campaign(a: &Args, rng: &mut Rng, rep: &mut Report, sink: &mut Sink) {
    let sc = scale(&a.tier);
    let p = a.prop.as_str();
    let all = POLICIES;
    let full = Emit { obs_pm: 1000, all_t_pm: 150 };
    let light = Emit { obs_pm: 250, all_t_pm: 100 };
    let none = Emit { obs_pm: 0, all_t_pm: 0 };
    // corpus first (minimised past failures, crate's own diagrams)
    run_corpus(&a.repo, rng, 12, rep, sink, if p == "C16" || p == "C17" || p == "C18" || p == "C20" { none } else { light });
    match p {
        "C01" | "C12" => {
            let cl = crowded_lists(rng, 6 * sc, rep);
            run_static(&cl, rng, rep, sink, Emit { obs_pm: 1000, all_t_pm: 0 });
            let tc = trap_clusters(rng, 30 * sc);
            run_turn_trees(&tc, 400, rng, rep, sink, Emit { obs_pm: 60, all_t_pm: 60 });
            let ec = edge_clusters(rng);
            run_turn_trees(&ec, 60, rng, rep, sink, Emit { obs_pm: 20, all_t_pm: 20 });
            run_motifs(rng, 1500 * sc, 6, rep, sink, Emit { obs_pm: 400, all_t_pm: 60 });
            run_positions(rng, 150 * sc, &[6, 12, 20, 30], &[Policy::PushPull, Policy::Uniform, Policy::FourSteps, Policy::Capture], 40, true, rep, sink, light);
        }
        "C02" | "C13" => {
            let tc = trap_clusters(rng, 30 * sc);
            run_turn_trees(&tc, 400, rng, rep, sink, Emit { obs_pm: 30, all_t_pm: 300 });
            run_scripts(rng, rep, sink, Emit { obs_pm: 300, all_t_pm: 0 });
            run_motifs(rng, 1200 * sc, 6, rep, sink, Emit { obs_pm: 400, all_t_pm: 300 });
            run_positions(rng, 120 * sc, &[8, 16, 26], &[Policy::Capture, Policy::PushPull, Policy::Uniform], 50, true, rep, sink, Emit { obs_pm: 300, all_t_pm: 300 });
        }
        "C03" | "C14" => {
            let tc = trap_clusters(rng, 30 * sc);
            run_turn_trees(&tc, 400, rng, rep, sink, Emit { obs_pm: 30, all_t_pm: 0 });
            for _ in 0..6 * sc {
                let pol = *rng.pick(&all);
                setup_walk(rng, rep, sink, light, 40, pol);
            }
            run_positions(rng, 200 * sc, &[4, 10, 20, 32], &all, 60, false, rep, sink, light);
        }
        "C04" => {
            run_motifs(rng, 1500 * sc, 4, rep, sink, Emit { obs_pm: 500, all_t_pm: 0 });
            let bx = boxed_positions(rng, 1500 * sc);
            rep.count_n("boxed-positions", bx.len() as u64);
            run_static(&bx, rng, rep, sink, Emit { obs_pm: 300, all_t_pm: 0 });
            let mg = material_grid(rng, if sc > 1 { 1 } else { 7 });
            rep.count_n("material-grid-positions", mg.len() as u64);
            for (b, side) in &mg {
                if let Some(g) = mk_game(b, *side, "4") {
                    g.check_state(rep);
                    if rng.chance(40, 1000) {
                        sink.emit(&format!("S {}", enc::enc_state(&g.state, g.init_hash)), "ok");
                        sink.emit("O", &enc::observe(&g.state));
                    }
                }
            }
            // sparse endgames without keep-alive: rabbits reach goals, last rabbits get captured
            for k in 0..200 * sc {
                let (b, side) = random_position(rng, [3, 5, 8][k % 3], true, true);
                if let Some(mut g) = mk_game(&b, side, "9") {
                    let mut player = Player::new([Policy::Uniform, Policy::Capture, Policy::FourSteps][k % 3], false);
                    playout(&mut g, &mut player, 80, rng, rep, sink, light);
                }
            }
        }
        "C05" | "C06" | "C07" => {
            if p != "C07" {
                // the history container: its iterator adaptors against the elements `next()` yields
                list_ops(rng, 1500 * sc, if p == "C05" { "C05" } else { "C06" }, rep, sink);
            }
            // games from the initial state through a full setup: the opening position itself can repeat
            for k in 0..8 * sc {
                setup_walk(rng, rep, sink, Emit { obs_pm: 150, all_t_pm: 0 }, 70, [Policy::Shuttle, Policy::RepSeek, Policy::Shuttle, Policy::Restore][k % 4]);
            }
            for k in 0..250 * sc {
                let (b, side) = random_position(rng, [2, 3, 4, 6][k % 4], true, k % 2 == 0);
                if let Some(mut g) = mk_game(&b, side, "3") {
                    let mut player = Player::new(if k % 5 == 4 { Policy::PassOften } else if k % 5 >= 2 { Policy::Restore } else { Policy::RepSeek }, true);
                    playout(&mut g, &mut player, 160, rng, rep, sink, Emit { obs_pm: 120, all_t_pm: 50 });
                }
            }
            run_positions(rng, 40 * sc, &[10, 24], &[Policy::RepSeek, Policy::Capture], 120, false, rep, sink, Emit { obs_pm: 100, all_t_pm: 50 });
            stale_games(rng, 150 * sc, rep, sink);
            short_cycles(rng, 40 * sc, rep, sink);
            crafted::run(rng, 4000 * sc, rep, sink);
            if p == "C07" {
                let bx = boxed_positions(rng, 800 * sc);
                run_static(&bx, rng, rep, sink, Emit { obs_pm: 300, all_t_pm: 0 });
                let im = immobilised_edges(rng, 1500 * sc);
                rep.count_n("immobilised-edge-positions", im.len() as u64);
                run_static(&im, rng, rep, sink, Emit { obs_pm: 300, all_t_pm: 0 });
            }
        }
        "C08" => {
            transposition_groups(rng, 60 * sc, rep);
            let tc = trap_clusters(rng, 25 * sc);
            run_turn_trees(&tc, 400, rng, rep, sink, Emit { obs_pm: 30, all_t_pm: 0 });
            list_ops(rng, 3000 * sc, "C08", rep, sink);
            for _ in 0..5 * sc {
                setup_walk(rng, rep, sink, light, 60, Policy::Capture);
            }
            run_motifs(rng, 600 * sc, 8, rep, sink, light);
            run_positions(rng, 150 * sc, &[6, 14, 24, 32], &[Policy::Capture, Policy::PassOften, Policy::FourSteps, Policy::RepSeek], 80, true, rep, sink, light);
        }
        "C09" => {
            setup_corners(rng, rep, sink, light, 4);
            for _ in 0..40 * sc {
                setup_walk(rng, rep, sink, full, 4, Policy::Uniform);
            }
        }
        "C10" | "C19" => {
            let cl = crowded_lists(rng, 6 * sc, rep);
            run_static(&cl, rng, rep, sink, Emit { obs_pm: 1000, all_t_pm: 0 });
            let tc = trap_clusters(rng, 25 * sc);
            run_turn_trees(&tc, 400, rng, rep, sink, Emit { obs_pm: 30, all_t_pm: 0 });
            run_scripts(rng, rep, sink, Emit { obs_pm: 200, all_t_pm: 0 });
            if p == "C19" {
                unreach::run(rng, 3000 * sc, rep, sink);
            }
            for _ in 0..8 * sc {
                let pol = *rng.pick(&all);
                setup_walk(rng, rep, sink, light, 60, pol);
            }
            stale_games(rng, 100 * sc, rep, sink);
            run_motifs(rng, 500 * sc, 5, rep, sink, light);
            run_positions(rng, 150 * sc, &[3, 8, 16, 32], &all, 60, true, rep, sink, light);
            // parseable but illegal diagrams as game starts
            let base = diagram(&random_position(rng, 20, true, false).0, true, "2");
            let texts = text::diagram_mutations(rng, &base, 150 * sc);
            let games = text::parse_stream(&texts, rep, sink);
            for (k, mut g) in games.into_iter().enumerate() {
                let mut player = Player::new(all[k % all.len()], false);
                playout(&mut g, &mut player, 12, rng, rep, sink, light);
            }
        }
        "C11" => {
            if let Ok(rd) = std::fs::read_dir("/verif/corpus") {
                let mut files: Vec<_> = rd.flatten().map(|e| e.path()).filter(|p| p.extension().map_or(false, |x| x == "game")).collect();
                files.sort();
                for f in files {
                    if let Ok(t) = std::fs::read_to_string(&f) {
                        for s in [sym::Sym::Mirror, sym::Sym::Swap, sym::Sym::Both] {
                            sym::lockstep_game(&t, s, rng, rep);
                        }
                    }
                }
            }
            for k in 0..120 * sc {
                let (b, side) = random_position(rng, [3, 6, 12, 24][k % 4], true, k % 2 == 0);
                for s in [sym::Sym::Mirror, sym::Sym::Swap, sym::Sym::Both] {
                    let pol = [Policy::RepSeek, Policy::PushPull, Policy::Capture, Policy::Uniform][(k / 4) % 4];
                    let mut r2 = rng.fork();
                    sym::lockstep(&b, side, ["4", "1", "2", "3", "40"][k % 5], s, pol, 80, &mut r2, rep);
                }
            }
            for (k, (b, side)) in immobilised_edges(rng, 400 * sc).iter().enumerate() {
                rep.count("immobilised-edge-positions");
                for s in [sym::Sym::Mirror, sym::Sym::Swap, sym::Sym::Both] {
                    let mut r2 = rng.fork();
                    sym::lockstep(b, *side, ["1", "2", "7"][k % 3], s, Policy::Uniform, 3, &mut r2, rep);
                }
            }
            for (text, script) in short_cycle_scripts(rng, 12 * sc, rep) {
                for s in [sym::Sym::Mirror, sym::Sym::Swap, sym::Sym::Both] {
                    let n = script.len() + 1;
                    sym::lockstep_from(&text, s, Policy::Uniform, n, Some(script.clone()), rng, rep);
                }
            }
            for (k, (b, side)) in crowded_lists(rng, 6 * sc, rep).iter().enumerate() {
                for s in [sym::Sym::Mirror, sym::Sym::Swap, sym::Sym::Both] {
                    let mut r2 = rng.fork();
                    sym::lockstep(b, *side, ["1", "2", "3", "9"][k % 4], s, Policy::PushPull, 6, &mut r2, rep);
                }
            }
            let ms = motifs(rng, 300 * sc);
            for (k, (b, side)) in ms.iter().enumerate() {
                let s = [sym::Sym::Mirror, sym::Sym::Swap, sym::Sym::Both][k % 3];
                let mut r2 = rng.fork();
                sym::lockstep(b, *side, "2", s, Policy::PushPull, 8, &mut r2, rep);
            }
        }
        "C15" => {
            for _ in 0..3 * sc {
                setup_walk(rng, rep, sink, light, 30, Policy::Uniform);
            }
            run_positions(rng, 60 * sc, &[4, 16, 32], &all, 30, false, rep, sink, light);
            for _ in 0..6 * sc {
                let dens = 4 + rng.below(28);
                let bb = random_position(rng, dens, true, false).0;
                let sd = rng.chance(1, 2);
                let base = diagram(&bb, sd, &random_move_number(rng));
                let texts = text::diagram_mutations(rng, &base, 120);
                text::parse_stream(&texts, rep, sink);
            }
        }
        "C16" => {
            text::notation(rng, if a.tier == "thorough" { 4 } else { 3 }, 2000 * sc, rep, sink);
        }
        "C17" => {
            let mut bgs = vec![[None; 64], random_position(rng, 16, true, false).0, random_position(rng, 30, true, false).0];
            for _ in 0..2 * (sc - 1) {
                let dens = 4 + rng.below(28);
                bgs.push(random_position(rng, dens, true, false).0);
            }
            feat::single_feature(rng, &bgs, 250, rep, sink);
            // reached states (incremental hashes) against their from-scratch neighbours
            rep.c17_neighbours = true;
            run_motifs(rng, 400 * sc, 6, rep, sink, none);
            run_positions(rng, 40 * sc, &[6, 14, 26], &[Policy::Capture, Policy::PushPull, Policy::Uniform], 40, true, rep, sink, none);
            // turn trees around traps, also with more than one camel / elephant of a colour on the board
            let tc = trap_clusters(rng, 8 * sc);
            run_turn_trees(&tc, 150, rng, rep, sink, none);
            let tx = trap_clusters_with(rng, 12 * sc, [8, 3, 3, 3, 3, 3]);
            run_turn_trees(&tx, 150, rng, rep, sink, none);
            rep.c17_neighbours = false;
        }
        _ => {
            // C18, C20 have their own binaries; as a trace they get a general mix
            for _ in 0..2 * sc {
                setup_walk(rng, rep, sink, light, 40, Policy::Uniform);
            }
            run_positions(rng, 60 * sc, &[6, 16, 32], &all, 40, true, rep, sink, light);
        }
    }
}

fn write_report(a: &Args, rep: &Report, sink: &Sink, wall: f64) {
    let mut j = String::from("{\n");
    j += &format!("  \"prop\": {},\n  \"tier\": {},\n  \"seed\": {},\n  \"wall_s\": {:.3},\n", json_str(&a.prop), json_str(&a.tier), a.seed, wall);
    j += &format!("  \"trace_lines\": {},\n", sink.lines);
    j += "  \"trace_kinds\": {";
    j += &sink.kinds.iter().map(|(k, v)| format!("{}: {}", json_str(&k.to_string()), v)).collect::<Vec<_>>().join(", ");
    j += "},\n  \"evals\": {";
    j += &rep.evals.iter().map(|(k, v)| format!("{}: {}", json_str(k), v)).collect::<Vec<_>>().join(", ");
    j += "},\n  \"nontrivial\": {";
    let mut nt: Vec<_> = rep.nontrivial.iter().map(|(k, v)| (k.to_string(), v.len())).collect();
    nt.sort();
    j += &nt.iter().map(|(k, v)| format!("{}: {}", json_str(k), v)).collect::<Vec<_>>().join(", ");
    j += "},\n  \"counts\": {";
    j += &rep.counts.iter().map(|(k, v)| format!("{}: {}", json_str(k), v)).collect::<Vec<_>>().join(", ");
    j += "},\n  \"fail_counts\": {";
    j += &rep.fail_counts.iter().map(|(k, v)| format!("{}: {}", json_str(k), v)).collect::<Vec<_>>().join(", ");
    j += "},\n  \"fails\": [\n";
    j += &rep
        .fails
        .iter()
        .map(|f| {
            format!(
                "    {{\"prop\": {}, \"what\": {}, \"start\": {}, \"actions\": [{}], \"detail\": {}}}",
                json_str(f.prop),
                json_str(&f.what),
                json_str(&f.start),
                f.actions.iter().map(|x| json_str(x)).collect::<Vec<_>>().join(", "),
                json_str(&f.detail)
            )
        })
        .collect::<Vec<_>>()
        .join(",\n");
    j += "\n  ],\n  \"samples\": [";
    j += &rep.samples.iter().map(|s| json_str(s)).collect::<Vec<_>>().join(", ");
    j += "]\n}\n";
    std::fs::write(format!("{}/report.json", a.out), j).unwrap();
}

fn cmd_trace(a: Args) {
    std::fs::create_dir_all(&a.out).unwrap();
    let t0 = std::time::Instant::now();
    let mut sink = Sink {
        ops: Box::new(std::io::BufWriter::new(std::fs::File::create(format!("{}/ops.txt", a.out)).unwrap())),
        exp: Box::new(std::io::BufWriter::new(std::fs::File::create(format!("{}/expect.txt", a.out)).unwrap())),
        lines: 0,
        kinds: Default::default(),
    };
    let mut rep = Report::new();
    let mut rng = Rng::new(a.seed ^ fnv(&a.prop.bytes().map(|b| b as u64).collect::<Vec<_>>()));
    campaign(&a, &mut rng, &mut rep, &mut sink);
    sink.ops.flush().unwrap();
    sink.exp.flush().unwrap();
    write_report(&a, &rep, &sink, t0.elapsed().as_secs_f64());
    if !rep.internal_errors.is_empty() {
        // the check reports a run that exits non-zero as "harness-run no longer works", not as a violation
        eprintln!("HARNESS-INTERNAL: {} panics in oracle code; first: {}", rep.internal_errors.len(), rep.internal_errors[0]);
        std::process::exit(3);
    }
}

/// replay: FILE holds `start` (INIT or diagram), `--`, actions; prints every oracle failure.
fn cmd_replay(file: &str) {
    let t = std::fs::read_to_string(file).expect("replay file");
    let mut rep = Report::new();
    rep.max_fails = 1000;
    let mut sink = Sink { ops: Box::new(std::io::sink()), exp: Box::new(std::io::sink()), lines: 0, kinds: Default::default() };
    let mut rng = Rng::new(0);
    if let Some(seed) = t.trim().strip_prefix("CRAFT ").and_then(|x| x.split_whitespace().next()).and_then(|x| x.parse::<u64>().ok()) {
        let mut r = Rng(seed);
        if let Some((s, _)) = crafted::craft(&mut r) {
            println!("constructed state (GameState::new / PlayPhase::new):\n{}step {} status {:?} history length {}", s, s.current_step(), s.unwrap_play_phase().push_pull_state(), s.unwrap_play_phase().hash_history().len());
            crafted::check(&s, seed, &mut rep);
        }
    } else {
        replay_game_text(&t, &mut rep, &mut sink, Emit { obs_pm: 0, all_t_pm: 0 }, &mut rng);
    }
    for f in &rep.fails {
        println!("FAIL property={} {} after {} actions: {}", f.prop, f.what, f.actions.len(), f.detail);
    }
    println!("replayed: {} failures", rep.fails.len());
    std::process::exit(if rep.fails.is_empty() { 0 } else { 1 });
}

fn main() {
    silence_panics();
    let argv: Vec<String> = std::env::args().collect();
    if argv.len() >= 3 && argv[1] == "replay" {
        return cmd_replay(&argv[2]);
    }
    if argv.len() < 2 || argv[1] != "trace" {
        eprintln!("usage: harness trace --prop Cxx --tier quick|thorough --seed N --out DIR [--repo /repo] | harness replay FILE");
        std::process::exit(2);
    }
    let mut a = Args { prop: "C01".into(), tier: "quick".into(), seed: 0, out: "/verif/harness/out".into(), repo: "/repo".into() };
    let mut i = 2;
    while i + 1 < argv.len() {
        match argv[i].as_str() {
            "--prop" => a.prop = argv[i + 1].clone(),
            "--tier" => a.tier = argv[i + 1].clone(),
            "--seed" => a.seed = argv[i + 1].parse().unwrap_or(0),
            "--out" => a.out = argv[i + 1].clone(),
            "--repo" => a.repo = argv[i + 1].clone(),
            _ => {}
        }
        i += 2;
    }
    cmd_trace(a);
}
