//! Correspondence + direct-oracle harness for arimaa-engine-step (see /verif/DESIGN.md §3b, §4).
//!
//! harness trace --prop C01 --tier quick --seed 0 --out DIR [--repo /repo]
//!   writes DIR/ops.txt (protocol operations), DIR/expect.txt (what the real code answered) and
//!   DIR/report.json (oracle failures, coverage counts, samples).
//! harness replay FILE
//!   re-runs the game stored in a replay file on the real code and prints what it observes.
mod crafted;
mod enc;
mod feat;
mod gens;
mod oracle;
mod refmodel;
mod sym;
mod text;
mod unreach;
mod util;

use enc::*;
use gens::*;
use oracle::*;
use refmodel::*;
use std::io::Write;
use util::*;

struct Args {
    prop: String,
    tier: String,
    seed: u64,
    out: String,
    repo: String,
}

fn scale(tier: &str) -> usize {
    if tier == "thorough" {
        20
    } else {
        1
    }
}

fn mk_game(b: &B, side: bool, mv: &str) -> Option<Game> {
    Game::parse(&diagram(b, side, mv))
}

/// Playouts from synthesized positions.
fn run_positions(rng: &mut Rng, n: usize, densities: &[usize], policies: &[Policy], plies: usize, clustered: bool, rep: &mut Report, sink: &mut Sink, em: Emit) {
    for k in 0..n {
        let dens = densities[k % densities.len()];
        let cl = clustered && rng.chance(1, 2);
        let (b, side) = random_position(rng, dens, true, cl);
        let mv = random_move_number(rng);
        let Some(mut g) = mk_game(&b, side, &mv) else { continue };
        let pol = policies[k % policies.len()];
        let mut player = Player::new(pol, !rng.chance(1, 8));
        playout(&mut g, &mut player, plies, rng, rep, sink, em);
    }
}

fn run_motifs(rng: &mut Rng, limit: usize, plies: usize, rep: &mut Report, sink: &mut Sink, em: Emit) {
    let ms = motifs(rng, limit);
    rep.count_n("motif-positions", ms.len() as u64);
    for (k, (b, side)) in ms.iter().enumerate() {
        let Some(mut g) = mk_game(b, *side, "2") else { continue };
        let pol = [Policy::PushPull, Policy::Capture, Policy::Uniform][k % 3];
        let mut player = Player::new(pol, false);
        playout(&mut g, &mut player, plies, rng, rep, sink, em);
    }
}

/// states only (no playout): every oracle on the position itself and on one step from it
fn run_static(positions: &[(B, bool)], rng: &mut Rng, rep: &mut Report, sink: &mut Sink, em: Emit) {
    for (b, side) in positions {
        let Some(mut g) = mk_game(b, *side, "6") else { continue };
        let mut player = Player::new(Policy::PushPull, false);
        playout(&mut g, &mut player, 2, rng, rep, sink, em);
    }
}

/// tiny boards on which both sides walk into dead ends and undo their turns: the repetition rules
/// then empty the action list in the middle of a turn (fourth step, nothing to move, pass withheld)
fn stale_games(rng: &mut Rng, n: usize, rep: &mut Report, sink: &mut Sink) {
    for k in 0..n {
        let (b, side) = random_position(rng, [2, 3, 3, 4][k % 4], true, k % 2 == 0);
        if let Some(mut g) = mk_game(&b, side, "3") {
            let mut player = Player::new(Policy::StaleSeek, true);
            playout(&mut g, &mut player, 120, rng, rep, sink, Emit { obs_pm: 60, all_t_pm: 0 });
        }
    }
}

/// plays a fixed script (as long as each action is offered), checking every state
fn run_scripts(rng: &mut Rng, rep: &mut Report, sink: &mut Sink, em: Emit) {
    let scripts = double_capture_scripts();
    rep.count_n("double-capture-scripts", scripts.len() as u64);
    for (b, side, script) in scripts {
        let Some(mut g) = mk_game(&b, side, "8") else { continue };
        for (i, d) in script {
            g.check_state(rep);
            let a = arimaa_engine_step::Action::Move(arimaa_engine_step::Square::from_index(i as u8), dir_of(d));
            let offered = util::guard(|| g.state.valid_actions()).map_or(false, |v| v.contains(&a));
            if rng.chance(em.obs_pm, 1000) {
                // `T` answers refer to the state of the last `S` line
                sink.emit(&format!("S {}", enc_state(&g.state, g.init_hash)), "ok");
                sink.emit("O", &observe(&g.state));
                if offered {
                    g.emit_take(sink, &a);
                }
            }
            if !offered {
                break;
            }
            if !g.step(&a, rep) {
                break;
            }
        }
        g.check_state(rep);
    }
}

fn run_corpus(repo: &str, rng: &mut Rng, plies: usize, rep: &mut Report, sink: &mut Sink, em: Emit) {
    let c = corpus(repo);
    rep.count_n("corpus-diagrams", c.len() as u64);
    for (k, d) in c.iter().enumerate() {
        let Some(mut g) = Game::parse(d) else { continue };
        let mut player = Player::new(POLICIES[k % POLICIES.len()], true);
        playout(&mut g, &mut player, plies, rng, rep, sink, em);
    }
    // stored games (known findings, minimised past failures)
    if let Ok(rd) = std::fs::read_dir("/verif/corpus") {
        let mut files: Vec<_> = rd.flatten().map(|e| e.path()).filter(|p| p.extension().map_or(false, |x| x == "game")).collect();
        files.sort();
        for f in files {
            if let Ok(t) = std::fs::read_to_string(&f) {
                replay_game_text(&t, rep, sink, em, rng);
            }
        }
    }
}

/// A stored game: diagram text (or the line INIT), a line `--`, then space separated actions.
fn replay_game_text(t: &str, rep: &mut Report, sink: &mut Sink, em: Emit, rng: &mut Rng) {
    let Some((start, acts)) = t.split_once("\n--\n") else { return };
    let mut g = if start.trim() == "INIT" { Game::initial() } else { match Game::parse(start) { Some(g) => g, None => return } };
    for a in acts.split_whitespace() {
        g.check_state(rep);
        if rng.chance(em.obs_pm, 1000) {
            sink.emit(&format!("S {}", enc_state(&g.state, g.init_hash)), "ok");
            sink.emit("O", &observe(&g.state));
        }
        let Ok(act) = a.parse::<arimaa_engine_step::Action>() else { return };
        if !g.step(&act, rep) {
            return;
        }
    }
    g.check_state(rep);
    sink.emit(&format!("S {}", enc_state(&g.state, g.init_hash)), "ok");
    sink.emit("O", &observe(&g.state));
}

fn campaign(a: &Args, rng: &mut Rng, rep: &mut Report, sink: &mut Sink) {
    let sc = scale(&a.tier);
    let p = a.prop.as_str();
    let all = POLICIES;
    let full = Emit { obs_pm: 1000, all_t_pm: 150 };
    let light = Emit { obs_pm: 250, all_t_pm: 100 };
    let none = Emit { obs_pm: 0, all_t_pm: 0 };
    // corpus first (minimised past failures, crate's own diagrams)
    run_corpus(&a.repo, rng, 12, rep, sink, if p == "C16" || p == "C17" || p == "C18" || p == "C20" { none } else { light });
    match p {
        "C01" | "C12" => {
            run_motifs(rng, 1500 * sc, 6, rep, sink, Emit { obs_pm: 400, all_t_pm: 60 });
            run_positions(rng, 150 * sc, &[6, 12, 20, 30], &[Policy::PushPull, Policy::Uniform, Policy::FourSteps, Policy::Capture], 40, true, rep, sink, light);
        }
        "C02" | "C13" => {
            run_scripts(rng, rep, sink, Emit { obs_pm: 300, all_t_pm: 0 });
            run_motifs(rng, 1200 * sc, 6, rep, sink, Emit { obs_pm: 400, all_t_pm: 300 });
            run_positions(rng, 120 * sc, &[8, 16, 26], &[Policy::Capture, Policy::PushPull, Policy::Uniform], 50, true, rep, sink, Emit { obs_pm: 300, all_t_pm: 300 });
        }
        "C03" | "C14" => {
            for _ in 0..6 * sc {
                let pol = *rng.pick(&all);
                setup_walk(rng, rep, sink, light, 40, pol);
            }
            run_positions(rng, 200 * sc, &[4, 10, 20, 32], &all, 60, false, rep, sink, light);
        }
        "C04" => {
            run_motifs(rng, 1500 * sc, 4, rep, sink, Emit { obs_pm: 500, all_t_pm: 0 });
            let bx = boxed_positions(rng, 1500 * sc);
            rep.count_n("boxed-positions", bx.len() as u64);
            run_static(&bx, rng, rep, sink, Emit { obs_pm: 300, all_t_pm: 0 });
            // sparse endgames without keep-alive: rabbits reach goals, last rabbits get captured
            for k in 0..200 * sc {
                let (b, side) = random_position(rng, [3, 5, 8][k % 3], true, true);
                if let Some(mut g) = mk_game(&b, side, "9") {
                    let mut player = Player::new([Policy::Uniform, Policy::Capture, Policy::FourSteps][k % 3], false);
                    playout(&mut g, &mut player, 80, rng, rep, sink, light);
                }
            }
        }
        "C05" | "C06" | "C07" => {
            // games from the initial state through a full setup: the opening position itself can repeat
            for k in 0..8 * sc {
                setup_walk(rng, rep, sink, Emit { obs_pm: 150, all_t_pm: 0 }, 70, [Policy::Shuttle, Policy::RepSeek, Policy::Shuttle, Policy::Restore][k % 4]);
            }
            for k in 0..250 * sc {
                let (b, side) = random_position(rng, [2, 3, 4, 6][k % 4], true, k % 2 == 0);
                if let Some(mut g) = mk_game(&b, side, "3") {
                    let mut player = Player::new(if k % 5 == 4 { Policy::PassOften } else if k % 5 >= 2 { Policy::Restore } else { Policy::RepSeek }, true);
                    playout(&mut g, &mut player, 160, rng, rep, sink, Emit { obs_pm: 120, all_t_pm: 50 });
                }
            }
            run_positions(rng, 40 * sc, &[10, 24], &[Policy::RepSeek, Policy::Capture], 120, false, rep, sink, Emit { obs_pm: 100, all_t_pm: 50 });
            stale_games(rng, 150 * sc, rep, sink);
            crafted::run(rng, 4000 * sc, rep, sink);
            if p == "C07" {
                let bx = boxed_positions(rng, 800 * sc);
                run_static(&bx, rng, rep, sink, Emit { obs_pm: 300, all_t_pm: 0 });
            }
        }
        "C08" => {
            list_ops(rng, 3000 * sc, rep, sink);
            for _ in 0..5 * sc {
                setup_walk(rng, rep, sink, light, 60, Policy::Capture);
            }
            run_motifs(rng, 600 * sc, 8, rep, sink, light);
            run_positions(rng, 150 * sc, &[6, 14, 24, 32], &[Policy::Capture, Policy::PassOften, Policy::FourSteps, Policy::RepSeek], 80, true, rep, sink, light);
        }
        "C09" => {
            setup_corners(rng, rep, sink, light, 4);
            for _ in 0..40 * sc {
                setup_walk(rng, rep, sink, full, 4, Policy::Uniform);
            }
        }
        "C10" | "C19" => {
            run_scripts(rng, rep, sink, Emit { obs_pm: 200, all_t_pm: 0 });
            if p == "C19" {
                unreach::run(rng, 3000 * sc, rep, sink);
            }
            for _ in 0..8 * sc {
                let pol = *rng.pick(&all);
                setup_walk(rng, rep, sink, light, 60, pol);
            }
            stale_games(rng, 100 * sc, rep, sink);
            run_motifs(rng, 500 * sc, 5, rep, sink, light);
            run_positions(rng, 150 * sc, &[3, 8, 16, 32], &all, 60, true, rep, sink, light);
            // parseable but illegal diagrams as game starts
            let base = diagram(&random_position(rng, 20, true, false).0, true, "2");
            let texts = text::diagram_mutations(rng, &base, 150 * sc);
            let games = text::parse_stream(&texts, rep, sink);
            for (k, mut g) in games.into_iter().enumerate() {
                let mut player = Player::new(all[k % all.len()], false);
                playout(&mut g, &mut player, 12, rng, rep, sink, light);
            }
        }
        "C11" => {
            if let Ok(rd) = std::fs::read_dir("/verif/corpus") {
                let mut files: Vec<_> = rd.flatten().map(|e| e.path()).filter(|p| p.extension().map_or(false, |x| x == "game")).collect();
                files.sort();
                for f in files {
                    if let Ok(t) = std::fs::read_to_string(&f) {
                        for s in [sym::Sym::Mirror, sym::Sym::Swap, sym::Sym::Both] {
                            sym::lockstep_game(&t, s, rng, rep);
                        }
                    }
                }
            }
            for k in 0..120 * sc {
                let (b, side) = random_position(rng, [3, 6, 12, 24][k % 4], true, k % 2 == 0);
                for s in [sym::Sym::Mirror, sym::Sym::Swap, sym::Sym::Both] {
                    let pol = [Policy::RepSeek, Policy::PushPull, Policy::Capture, Policy::Uniform][(k / 4) % 4];
                    let mut r2 = rng.fork();
                    sym::lockstep(&b, side, "4", s, pol, 80, &mut r2, rep);
                }
            }
            let ms = motifs(rng, 300 * sc);
            for (k, (b, side)) in ms.iter().enumerate() {
                let s = [sym::Sym::Mirror, sym::Sym::Swap, sym::Sym::Both][k % 3];
                let mut r2 = rng.fork();
                sym::lockstep(b, *side, "2", s, Policy::PushPull, 8, &mut r2, rep);
            }
        }
        "C15" => {
            for _ in 0..3 * sc {
                setup_walk(rng, rep, sink, light, 30, Policy::Uniform);
            }
            run_positions(rng, 60 * sc, &[4, 16, 32], &all, 30, false, rep, sink, light);
            for _ in 0..6 * sc {
                let dens = 4 + rng.below(28);
                let bb = random_position(rng, dens, true, false).0;
                let sd = rng.chance(1, 2);
                let base = diagram(&bb, sd, &random_move_number(rng));
                let texts = text::diagram_mutations(rng, &base, 120);
                text::parse_stream(&texts, rep, sink);
            }
        }
        "C16" => {
            text::notation(rng, if a.tier == "thorough" { 4 } else { 3 }, 2000 * sc, rep, sink);
        }
        "C17" => {
            let mut bgs = vec![[None; 64], random_position(rng, 16, true, false).0, random_position(rng, 30, true, false).0];
            for _ in 0..2 * (sc - 1) {
                let dens = 4 + rng.below(28);
                bgs.push(random_position(rng, dens, true, false).0);
            }
            feat::single_feature(rng, &bgs, 250, rep, sink);
            // reached states (incremental hashes) against their from-scratch neighbours
            rep.c17_neighbours = true;
            run_motifs(rng, 400 * sc, 6, rep, sink, none);
            run_positions(rng, 40 * sc, &[6, 14, 26], &[Policy::Capture, Policy::PushPull, Policy::Uniform], 40, true, rep, sink, none);
            rep.c17_neighbours = false;
        }
        _ => {
            // C18, C20 have their own binaries; as a trace they get a general mix
            for _ in 0..2 * sc {
                setup_walk(rng, rep, sink, light, 40, Policy::Uniform);
            }
            run_positions(rng, 60 * sc, &[6, 16, 32], &all, 40, true, rep, sink, light);
        }
    }
}

fn write_report(a: &Args, rep: &Report, sink: &Sink, wall: f64) {
    let mut j = String::from("{\n");
    j += &format!("  \"prop\": {},\n  \"tier\": {},\n  \"seed\": {},\n  \"wall_s\": {:.3},\n", json_str(&a.prop), json_str(&a.tier), a.seed, wall);
    j += &format!("  \"trace_lines\": {},\n", sink.lines);
    j += "  \"trace_kinds\": {";
    j += &sink.kinds.iter().map(|(k, v)| format!("{}: {}", json_str(&k.to_string()), v)).collect::<Vec<_>>().join(", ");
    j += "},\n  \"evals\": {";
    j += &rep.evals.iter().map(|(k, v)| format!("{}: {}", json_str(k), v)).collect::<Vec<_>>().join(", ");
    j += "},\n  \"nontrivial\": {";
    let mut nt: Vec<_> = rep.nontrivial.iter().map(|(k, v)| (k.to_string(), v.len())).collect();
    nt.sort();
    j += &nt.iter().map(|(k, v)| format!("{}: {}", json_str(k), v)).collect::<Vec<_>>().join(", ");
    j += "},\n  \"counts\": {";
    j += &rep.counts.iter().map(|(k, v)| format!("{}: {}", json_str(k), v)).collect::<Vec<_>>().join(", ");
    j += "},\n  \"fail_counts\": {";
    j += &rep.fail_counts.iter().map(|(k, v)| format!("{}: {}", json_str(k), v)).collect::<Vec<_>>().join(", ");
    j += "},\n  \"fails\": [\n";
    j += &rep
        .fails
        .iter()
        .map(|f| {
            format!(
                "    {{\"prop\": {}, \"what\": {}, \"start\": {}, \"actions\": [{}], \"detail\": {}}}",
                json_str(f.prop),
                json_str(&f.what),
                json_str(&f.start),
                f.actions.iter().map(|x| json_str(x)).collect::<Vec<_>>().join(", "),
                json_str(&f.detail)
            )
        })
        .collect::<Vec<_>>()
        .join(",\n");
    j += "\n  ],\n  \"samples\": [";
    j += &rep.samples.iter().map(|s| json_str(s)).collect::<Vec<_>>().join(", ");
    j += "]\n}\n";
    std::fs::write(format!("{}/report.json", a.out), j).unwrap();
}

fn cmd_trace(a: Args) {
    std::fs::create_dir_all(&a.out).unwrap();
    let t0 = std::time::Instant::now();
    let mut sink = Sink {
        ops: Box::new(std::io::BufWriter::new(std::fs::File::create(format!("{}/ops.txt", a.out)).unwrap())),
        exp: Box::new(std::io::BufWriter::new(std::fs::File::create(format!("{}/expect.txt", a.out)).unwrap())),
        lines: 0,
        kinds: Default::default(),
    };
    let mut rep = Report::new();
    let mut rng = Rng::new(a.seed ^ fnv(&a.prop.bytes().map(|b| b as u64).collect::<Vec<_>>()));
    campaign(&a, &mut rng, &mut rep, &mut sink);
    sink.ops.flush().unwrap();
    sink.exp.flush().unwrap();
    write_report(&a, &rep, &sink, t0.elapsed().as_secs_f64());
}

/// replay: FILE holds `start` (INIT or diagram), `--`, actions; prints every oracle failure.
fn cmd_replay(file: &str) {
    let t = std::fs::read_to_string(file).expect("replay file");
    let mut rep = Report::new();
    rep.max_fails = 1000;
    let mut sink = Sink { ops: Box::new(std::io::sink()), exp: Box::new(std::io::sink()), lines: 0, kinds: Default::default() };
    let mut rng = Rng::new(0);
    if let Some(seed) = t.trim().strip_prefix("CRAFT ").and_then(|x| x.split_whitespace().next()).and_then(|x| x.parse::<u64>().ok()) {
        let mut r = Rng(seed);
        if let Some((s, _)) = crafted::craft(&mut r) {
            println!("constructed state (GameState::new / PlayPhase::new):\n{}step {} status {:?} history length {}", s, s.current_step(), s.unwrap_play_phase().push_pull_state(), s.unwrap_play_phase().hash_history().len());
            crafted::check(&s, seed, &mut rep);
        }
    } else {
        replay_game_text(&t, &mut rep, &mut sink, Emit { obs_pm: 0, all_t_pm: 0 }, &mut rng);
    }
    for f in &rep.fails {
        println!("FAIL property={} {} after {} actions: {}", f.prop, f.what, f.actions.len(), f.detail);
    }
    println!("replayed: {} failures", rep.fails.len());
    std::process::exit(if rep.fails.is_empty() { 0 } else { 1 });
}

fn main() {
    silence_panics();
    let argv: Vec<String> = std::env::args().collect();
    if argv.len() >= 3 && argv[1] == "replay" {
        return cmd_replay(&argv[2]);
    }
    if argv.len() < 2 || argv[1] != "trace" {
        eprintln!("usage: harness trace --prop Cxx --tier quick|thorough --seed N --out DIR [--repo /repo] | harness replay FILE");
        std::process::exit(2);
    }
    let mut a = Args { prop: "C01".into(), tier: "quick".into(), seed: 0, out: "/verif/harness/out".into(), repo: "/repo".into() };
    let mut i = 2;
    while i + 1 < argv.len() {
        match argv[i].as_str() {
            "--prop" => a.prop = argv[i + 1].clone(),
            "--tier" => a.tier = argv[i + 1].clone(),
            "--seed" => a.seed = argv[i + 1].parse().unwrap_or(0),
            "--out" => a.out = argv[i + 1].clone(),
            "--repo" => a.repo = argv[i + 1].clone(),
            _ => {}
        }
        i += 2;
    }
    cmd_trace(a);
}
