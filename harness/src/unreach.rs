//! G8: deliberately unreachable states (GameState::new / PlayPhase::new with inconsistent parts)
//! and non-offered actions, to validate the panic guards of lean/Arimaa/Impl/Panics.lean in BOTH
//! directions: the model must print PANIC exactly where the real code panics (overflow checks on).
use crate::enc::*;
use crate::oracle::*;
use crate::refmodel::piece_of;
use crate::util::*;
use arimaa_engine_step::*;

const ODD_SQ: [u8; 10] = [64, 65, 70, 71, 72, 79, 127, 128, 200, 255];

fn sq(r: &mut Rng) -> u8 {
    if r.chance(1, 4) {
        *r.pick(&ODD_SQ)
    } else {
        r.below(64) as u8
    }
}

pub fn run(rng: &mut Rng, n: usize, rep: &mut Report, sink: &mut Sink) {
    let dirs = [Direction::Up, Direction::Right, Direction::Down, Direction::Left];
    for _ in 0..n {
        let gold = rng.chance(1, 2);
        let move_no: usize = match rng.below(4) {
            0 => 1,
            1 => 5,
            2 => usize::MAX - 1,
            _ => usize::MAX,
        };
        let is_play = !rng.chance(1, 8);
        let mut w = [0u64; 7]; // p1 e m h d c r
        let style = rng.below(4);
        if style == 0 {
            for k in 0..7 {
                w[k] = rng.next() & rng.next() & rng.next();
            }
        } else {
            let dens = 2 + rng.below(6);
            for i in 0..64 {
                if rng.below(dens) == 0 {
                    let t = 1 + rng.below(6);
                    w[t] |= 1 << i;
                    if rng.chance(1, 2) {
                        w[0] |= 1 << i;
                    }
                }
            }
            if style == 1 {
                w[6] |= 0xFFFF00000000FFFF & !(w[1] | w[2] | w[3] | w[4] | w[5]);
                w[0] |= 0xFFFF000000000000;
            }
        }
        let nprev = rng.below(6);
        let pps = match rng.below(3) {
            0 => PushPullState::None,
            1 => PushPullState::PossiblePull(Square::from_index(sq(rng)), piece_of(rng.below(6) as u8)),
            _ => PushPullState::MustCompletePush(Square::from_index(sq(rng)), piece_of(rng.below(6) as u8)),
        };
        let trapped = rng.chance(1, 2);
        let board = || PieceBoard::new(w[0], w[1], w[2], w[3], w[4], w[5], w[6]);
        let h = Zobrist::initial();
        let phase = if is_play {
            let prev: Vec<PieceBoard> = (0..nprev).map(|_| board()).collect();
            Phase::PlayPhase(PlayPhase::new(h, List::new(), prev, pps, trapped))
        } else {
            Phase::PlacePhase
        };
        let s = GameState::new(gold, move_no, phase, board(), h);
        let a = match rng.below(6) {
            0 => Action::Pass,
            1 => Action::Place(piece_of(rng.below(6) as u8)),
            _ => Action::Move(Square::from_index(sq(rng)), dirs[rng.below(4)]),
        };
        let i = rng.below(7);
        rep.eval("C19");
        rep.count("unreachable-states");
        sink.emit(&format!("S {}", enc_state(&s, raw_hash(&s))), "ok");
        let obs = observe(&s);
        for f in obs.split(' ') {
            if f.contains("PANIC") {
                rep.count(&format!("G8-panic-{}", f.split('=').next().unwrap_or("")));
            }
        }
        sink.emit("O", &obs);
        sink.emit("N", &guard(|| s.current_step().to_string()).unwrap_or("PANIC".to_string()));
        sink.emit(&format!("B {}", i), &guard(|| hex_words(&words(s.piece_board_for_step(i)), "/")).unwrap_or("PANIC".to_string()));
        let pv = match guard(|| s.trapped_animal_for_action(&a)) {
            None => "PANIC".to_string(),
            Some(None) => "-".to_string(),
            Some(Some((q, pc, g))) => format!("{}{}{}{}", (b'a' + (q.index() % 8) as u8) as char, 8 - q.index() / 8, piece_letter(pc), if g { "g" } else { "s" }),
        };
        sink.emit(&format!("X {}", enc_action(&a)), &pv);
        let exp = match guard(|| s.take_action(&a)) {
            None => {
                rep.count("G8-panic-take");
                "panic".to_string()
            }
            Some(nx) => enc_state(&nx, 0),
        };
        sink.emit(&format!("T {}", enc_action(&a)), &exp);
        rep.nontriv("C19", fnv(&[state_key(&s), i as u64, move_no as u64]));
    }
}
