//! Independent mailbox rendering of the Arimaa rules used by the direct property oracle.
//! It shares no code with the crate under test and none with the Lean model.
use arimaa_engine_step::*;

pub type Cell = Option<(bool, u8)>; // (gold, strength 0..5 = rabbit..elephant)
pub type B = [Cell; 64];

pub const TRAPS: [usize; 4] = [18, 21, 42, 45];
const D: [(i32, i32); 4] = [(0, -1), (1, 0), (0, 1), (-1, 0)]; // n e s w as (dfile, drow)

pub fn nb(i: usize, d: usize) -> Option<usize> {
    let (f, r) = ((i % 8) as i32 + D[d].0, (i / 8) as i32 + D[d].1);
    if (0..8).contains(&f) && (0..8).contains(&r) {
        Some((r * 8 + f) as usize)
    } else {
        None
    }
}

pub fn dirn(d: Direction) -> usize {
    match d {
        Direction::Up => 0,
        Direction::Right => 1,
        Direction::Down => 2,
        Direction::Left => 3,
    }
}

pub fn dir_of(d: usize) -> Direction {
    [Direction::Up, Direction::Right, Direction::Down, Direction::Left][d]
}

pub fn st(p: Piece) -> u8 {
    match p {
        Piece::Rabbit => 0,
        Piece::Cat => 1,
        Piece::Dog => 2,
        Piece::Horse => 3,
        Piece::Camel => 4,
        Piece::Elephant => 5,
    }
}

pub fn piece_of(s: u8) -> Piece {
    [Piece::Rabbit, Piece::Cat, Piece::Dog, Piece::Horse, Piece::Camel, Piece::Elephant][s as usize]
}

pub fn friend(b: &B, i: usize, g: bool) -> bool {
    (0..4).any(|d| nb(i, d).map_or(false, |j| matches!(b[j], Some((g2, _)) if g2 == g)))
}

pub fn frozen(b: &B, i: usize) -> bool {
    let (g, s) = b[i].unwrap();
    !friend(b, i, g) && (0..4).any(|d| nb(i, d).map_or(false, |j| matches!(b[j], Some((g2, s2)) if g2 != g && s2 > s)))
}

pub fn move_only(b: &B, i: usize, d: usize) -> B {
    let mut n = *b;
    let j = nb(i, d).unwrap();
    n[j] = n[i];
    n[i] = None;
    n
}

pub fn capture(b: &B) -> B {
    let mut n = *b;
    for t in TRAPS {
        if let Some((g, _)) = b[t] {
            if !friend(b, t, g) {
                n[t] = None;
            }
        }
    }
    n
}

pub fn apply(b: &B, i: usize, d: usize) -> B {
    capture(&move_only(b, i, d))
}

/// Board of the real engine as cells, read through `piece_type_at_square` and `p1_pieces`.
pub fn arr(pb: &PieceBoardState) -> B {
    let mut b = [None; 64];
    for i in 0..64 {
        let bit = 1u64 << i;
        if pb.all_pieces & bit != 0 {
            let p = pb.piece_type_at_square(&Square::from_index(i as u8)).unwrap();
            b[i] = Some((pb.p1_pieces & bit != 0, st(p)));
        }
    }
    b
}

/// Board as cells read from the raw words only (no engine code involved).
pub fn arr_raw(w: &[u64; 8]) -> Option<B> {
    let mut b = [None; 64];
    let types = [(w[7], 0u8), (w[6], 1), (w[5], 2), (w[4], 3), (w[3], 4), (w[2], 5)];
    for i in 0..64 {
        let bit = 1u64 << i;
        let mut found = None;
        for (bits, s) in types {
            if bits & bit != 0 {
                if found.is_some() {
                    return None;
                }
                found = Some(s);
            }
        }
        match found {
            Some(s) => {
                if w[1] & bit == 0 {
                    return None;
                }
                b[i] = Some((w[0] & bit != 0, s));
            }
            None => {
                if w[1] & bit != 0 || w[0] & bit != 0 {
                    return None;
                }
            }
        }
    }
    Some(b)
}

#[derive(Clone, Copy, PartialEq, Eq, Debug)]
pub enum Pending {
    None,
    Pull(usize, u8),
    Push(usize, u8),
}

pub fn pending_of(p: PushPullState) -> Pending {
    match p {
        PushPullState::None => Pending::None,
        PushPullState::PossiblePull(q, x) => Pending::Pull(q.index(), st(x)),
        PushPullState::MustCompletePush(q, t) => Pending::Push(q.index(), st(t)),
    }
}

fn backward(gold: bool) -> usize {
    if gold {
        2
    } else {
        0
    }
}

/// The steps enabled by the rules (L2 of DESIGN.md), as (square, direction) pairs, sorted.
pub fn enabled_moves(b: &B, gold: bool, step: usize, pend: Pending) -> Vec<(usize, usize)> {
    let mut out = vec![];
    for i in 0..64 {
        let Some((g, s)) = b[i] else { continue };
        for d in 0..4 {
            let Some(j) = nb(i, d) else { continue };
            if let Pending::Push(q, v) = pend {
                if j == q && g == gold && !frozen(b, i) && s > v {
                    out.push((i, d));
                }
                continue;
            }
            let own = g == gold && !frozen(b, i) && b[j].is_none() && !(s == 0 && d == backward(gold));
            let push_start = step < 3
                && g != gold
                && b[j].is_none()
                && (0..4).any(|d2| nb(i, d2).map_or(false, |x| matches!(b[x], Some((gx, sx)) if gx == gold && sx > s && !frozen(b, x))));
            let pull_end = match pend {
                Pending::Pull(q, x) => g != gold && j == q && s < x,
                _ => false,
            };
            if own || push_start || pull_end {
                out.push((i, d));
            }
        }
    }
    out.sort();
    out
}

pub fn pass_enabled(step: usize, pend: Pending) -> bool {
    step >= 1 && !matches!(pend, Pending::Push(_, _))
}

/// The status after the step (i, d) from a state that continues the turn (C12's three-way split).
pub fn next_pending(b: &B, gold: bool, pend: Pending, i: usize, d: usize) -> Pending {
    let (g, s) = b[i].unwrap();
    let j = nb(i, d);
    if g != gold {
        let completes_pull = matches!(pend, Pending::Pull(q, x) if Some(q) == j && s < x);
        if completes_pull {
            Pending::None
        } else {
            Pending::Push(i, s)
        }
    } else if !matches!(pend, Pending::Push(_, _)) && s != 0 {
        Pending::Pull(i, s)
    } else {
        Pending::None
    }
}

pub fn has_step(b: &B, gold: bool) -> bool {
    !enabled_moves(b, gold, 0, Pending::None).is_empty()
}

pub fn result(b: &B, gold_to_move: bool) -> Option<Terminal> {
    let goal = |g: bool| (0..64).any(|i| b[i] == Some((g, 0)) && i / 8 == if g { 0 } else { 7 });
    let rab = |g: bool| (0..64).any(|i| b[i] == Some((g, 0)));
    let win = |g: bool| Some(if g { Terminal::GoldWin } else { Terminal::SilverWin });
    let (m, l) = (gold_to_move, !gold_to_move);
    if goal(l) {
        win(l)
    } else if goal(m) {
        win(m)
    } else if !rab(m) {
        win(l)
    } else if !rab(l) {
        win(m)
    } else if !has_step(b, m) {
        win(l)
    } else {
        None
    }
}

pub fn cell_char(c: Cell, i: usize) -> char {
    let l = ['r', 'c', 'd', 'h', 'm', 'e'];
    match c {
        Some((g, t)) => {
            if g {
                l[t as usize].to_ascii_uppercase()
            } else {
                l[t as usize]
            }
        }
        None => {
            if TRAPS.contains(&i) {
                'x'
            } else {
                ' '
            }
        }
    }
}

pub fn diagram(b: &B, gold: bool, mv: &str) -> String {
    let mut s = format!("{}{}\n +-----------------+\n", mv, if gold { 'g' } else { 's' });
    for r in 0..8 {
        s += &format!("{}|", 8 - r);
        for f in 0..8 {
            let i = r * 8 + f;
            s.push(' ');
            s.push(cell_char(b[i], i));
        }
        s += " |\n";
    }
    s + " +-----------------+\n   a b c d e f g h\n"
}

pub fn count(b: &B) -> usize {
    b.iter().flatten().count()
}

pub fn no_hanging(b: &B) -> bool {
    TRAPS.iter().all(|&t| match b[t] {
        Some((g, _)) => friend(b, t, g),
        None => true,
    })
}

pub fn material_ok(b: &B) -> bool {
    let lim = [8usize, 2, 2, 2, 1, 1];
    for g in [true, false] {
        for t in 0..6u8 {
            if b.iter().filter(|c| **c == Some((g, t))).count() > lim[t as usize] {
                return false;
            }
        }
    }
    true
}
