//! PRNG, panic capture, percent-encoding.
use std::panic::{catch_unwind, AssertUnwindSafe};

#[derive(Clone)]
pub struct Rng(pub u64);

impl Rng {
    pub fn new(seed: u64) -> Self {
        Rng(seed.wrapping_mul(0x9E3779B97F4A7C15).wrapping_add(0xD1B54A32D192ED03))
    }
    pub fn next(&mut self) -> u64 {
        self.0 = self.0.wrapping_add(0x9E3779B97F4A7C15);
        let mut z = self.0;
        z = (z ^ (z >> 30)).wrapping_mul(0xBF58476D1CE4E5B9);
        z = (z ^ (z >> 27)).wrapping_mul(0x94D049BB133111EB);
        z ^ (z >> 31)
    }
    pub fn below(&mut self, n: usize) -> usize {
        if n == 0 {
            0
        } else {
            (self.next() % n as u64) as usize
        }
    }
    pub fn chance(&mut self, num: u32, den: u32) -> bool {
        (self.next() % den as u64) < num as u64
    }
    pub fn pick<'a, T>(&mut self, v: &'a [T]) -> &'a T {
        &v[self.below(v.len())]
    }
    pub fn fork(&mut self) -> Rng {
        Rng(self.next())
    }
}

/// Run `f`, mapping a panic to `None`.
pub fn guard<T>(f: impl FnOnce() -> T) -> Option<T> {
    DEPTH.with(|d| d.set(d.get() + 1));
    let r = catch_unwind(AssertUnwindSafe(f)).ok();
    DEPTH.with(|d| d.set(d.get() - 1));
    r
}

thread_local! {
    static DEPTH: std::cell::Cell<u32> = std::cell::Cell::new(0);
    static LAST_PANIC_FILE: std::cell::RefCell<String> = std::cell::RefCell::new(String::new());
}

/// Source file of the most recent panic on this thread (as the compiler recorded it).
pub fn last_panic_file() -> String {
    LAST_PANIC_FILE.with(|f| f.borrow().clone())
}

/// True if the most recent panic was raised by a line of this harness (its files are compiled with
/// paths relative to the harness crate: `src/...`), not by the crate under test or the standard
/// library on its behalf.
pub fn last_panic_is_internal() -> bool {
    let f = last_panic_file();
    f.starts_with("src/") || f.contains("/verif/harness/src/")
}

/// Panics inside `guard` are expected observations and stay silent; a panic of the harness
/// itself is printed.
pub fn silence_panics() {
    let default = std::panic::take_hook();
    std::panic::set_hook(Box::new(move |info| {
        let file = info.location().map_or(String::new(), |l| l.file().to_string());
        LAST_PANIC_FILE.with(|f| *f.borrow_mut() = file);
        if DEPTH.with(|d| d.get()) == 0 {
            default(info);
        }
    }));
}

fn pct_safe(b: u8) -> bool {
    b.is_ascii_alphanumeric() || b == b'-' || b == b'_' || b == b'.' || b == b'+'
}

pub fn pct_encode(s: &str) -> String {
    let mut out = String::with_capacity(s.len() * 2);
    for &b in s.as_bytes() {
        if pct_safe(b) {
            out.push(b as char);
        } else {
            out.push('%');
            out.push(char::from_digit((b / 16) as u32, 16).unwrap());
            out.push(char::from_digit((b % 16) as u32, 16).unwrap());
        }
    }
    out
}

pub fn json_str(s: &str) -> String {
    let mut o = String::from("\"");
    for c in s.chars() {
        match c {
            '"' => o.push_str("\\\""),
            '\\' => o.push_str("\\\\"),
            '\n' => o.push_str("\\n"),
            '\r' => o.push_str("\\r"),
            '\t' => o.push_str("\\t"),
            c if (c as u32) < 0x20 => o.push_str(&format!("\\u{:04x}", c as u32)),
            c => o.push(c),
        }
    }
    o.push('"');
    o
}

pub fn fnv(data: &[u64]) -> u64 {
    let mut h: u64 = 0xcbf29ce484222325;
    for &d in data {
        for k in 0..8 {
            h ^= (d >> (8 * k)) & 0xff;
            h = h.wrapping_mul(0x100000001b3);
        }
    }
    h
}
