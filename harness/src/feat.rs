//! C17: states built with GameState::new / PlayPhase::new that differ in one hashed feature.
use crate::enc::*;
use crate::oracle::*;
use crate::refmodel::*;
use crate::util::*;
use arimaa_engine_step::*;
use std::collections::HashMap;

pub fn board_of(b: &B) -> PieceBoard {
    let mut w = [0u64; 7]; // p1 e m h d c r
    for i in 0..64 {
        if let Some((g, t)) = b[i] {
            let bit = 1u64 << i;
            if g {
                w[0] |= bit;
            }
            w[6 - t as usize] |= bit;
        }
    }
    PieceBoard::new(w[0], w[1], w[2], w[3], w[4], w[5], w[6])
}

pub fn build(b: &B, side: bool, step: usize, pps: PushPullState) -> GameState {
    let pb = board_of(b);
    let h = Zobrist::from_piece_board(pb.piece_board(), side, step);
    let h0 = Zobrist::from_piece_board(pb.piece_board(), side, 0);
    let prev: Vec<PieceBoard> = (0..step).map(|_| pb.clone()).collect();
    let hist = List::new().append(h0);
    GameState::new(side, 5, Phase::PlayPhase(PlayPhase::new(h0, hist, prev, pps, false)), pb, h)
}

pub fn statuses() -> Vec<PushPullState> {
    let mut v = vec![PushPullState::None];
    for i in 0..64u8 {
        for t in 0..6u8 {
            if t != 0 {
                v.push(PushPullState::PossiblePull(Square::from_index(i), piece_of(t)));
            }
            if t != 5 {
                v.push(PushPullState::MustCompletePush(Square::from_index(i), piece_of(t)));
            }
        }
    }
    v
}

fn emit(s: &GameState, sink: &mut Sink) {
    let ih = match s.as_play_phase() {
        Some(_) => {
            // initial_hash_of_move was constructed as the step-0 hash of the same board
            Zobrist::from_piece_board(s.piece_board(), s.is_p1_turn_to_move(), 0).board_state_hash()
        }
        None => raw_hash(s),
    };
    sink.emit(&format!("S {}", enc_state(s, ih)), "ok");
    sink.emit("O", &observe(s));
}

pub fn single_feature(rng: &mut Rng, backgrounds: &[B], emit_pm: u32, rep: &mut Report, sink: &mut Sink) {
    let fail = |rep: &mut Report, what: &str, detail: String| rep.fail_raw("C17", what, detail.clone(), vec![], detail);
    for bg in backgrounds {
        // (1) contents of one square
        for sq in 0..64 {
            let mut seen: HashMap<u64, String> = HashMap::new();
            for c in 0..13u8 {
                let mut b = *bg;
                b[sq] = if c == 0 { None } else { Some(((c - 1) / 6 == 0, (c - 1) % 6)) };
                let s = build(&b, true, 0, PushPullState::None);
                let h = s.transposition_hash();
                rep.eval("C17");
                rep.nontriv("C17", fnv(&[1, sq as u64, c as u64, fnv(&words(s.piece_board()))]));
                let name = format!("square {} content {}", sq, c);
                if let Some(o) = seen.insert(h, name.clone()) {
                    fail(rep, "same-hash-for-different-content", format!("{} and {} on\n{}", o, name, diagram(bg, true, "5")));
                }
                if rng.chance(emit_pm, 1000) {
                    emit(&s, sink);
                }
            }
        }
        // (2) side, (3) step
        let mut seen: HashMap<u64, String> = HashMap::new();
        for side in [true, false] {
            for step in 0..4 {
                let s = build(bg, side, step, PushPullState::None);
                rep.eval("C17");
                rep.nontriv("C17", fnv(&[2, side as u64, step as u64, fnv(&words(s.piece_board()))]));
                if let Some(o) = seen.insert(s.transposition_hash(), format!("side {} step {}", side, step)) {
                    fail(rep, "same-hash-for-different-side-or-step", format!("{} and side {} step {}", o, side, step));
                }
                emit(&s, sink);
            }
        }
        // (4) all 641 statuses, at every step at which a status can be pending, for either side
        let mut seen: HashMap<u64, String> = HashMap::new();
        for (side, step) in [(true, 0), (true, 1), (true, 2), (true, 3), (false, 0), (false, 1), (false, 2), (false, 3)] {
            for pps in statuses() {
                let s = build(bg, side, step, pps);
                rep.eval("C17");
                rep.nontriv("C17", fnv(&[3, side as u64, step as u64, fnv(&words(s.piece_board()))]) ^ fnv(&enc_pps(pps).bytes().map(|b| b as u64).collect::<Vec<_>>()));
                let name = format!("side {} step {} status {}", side, step, enc_pps(pps));
                if let Some(o) = seen.insert(s.transposition_hash(), name.clone()) {
                    fail(rep, "same-hash-for-different-status", format!("{} and {} on\n{}", o, name, diagram(bg, side, "5")));
                }
                if rng.chance(emit_pm.max(100) / 5, 1000) {
                    emit(&s, sink);
                }
            }
        }
    }
    // (5) one piece on a different square (otherwise identical boards)
    for bg in backgrounds.iter().take(2) {
        for c in 0..12u8 {
            let cell = Some((c / 6 == 0, c % 6));
            let mut seen: HashMap<u64, usize> = HashMap::new();
            for sq in 0..64 {
                if bg[sq].is_some() {
                    continue;
                }
                let mut b = *bg;
                b[sq] = cell;
                let s = build(&b, false, 2, PushPullState::None);
                rep.eval("C17");
                rep.nontriv("C17", fnv(&[5, sq as u64, c as u64, fnv(&words(s.piece_board()))]));
                if let Some(o) = seen.insert(s.transposition_hash(), sq) {
                    fail(rep, "same-hash-for-piece-on-different-square", format!("piece {} on {} and {}", c, o, sq));
                }
            }
        }
    }
}

/// A state reached by real play (incremental hash) against the 64 x 12 states that differ from it
/// in the content of one square and are built from scratch: their transposition hashes must differ.
pub fn reached_neighbours(g: &Game, ab: &B, rep: &mut Report) {
    let s = &g.state;
    let Some(pp) = s.as_play_phase() else { return };
    let side = s.is_p1_turn_to_move();
    let step = pp.step();
    let pps = pp.push_pull_state();
    let h = s.transposition_hash();
    for sq in 0..64 {
        for c in 0..13u8 {
            let cell = if c == 0 { None } else { Some(((c - 1) / 6 == 0, (c - 1) % 6)) };
            if cell == ab[sq] {
                continue;
            }
            let mut b = *ab;
            b[sq] = cell;
            rep.eval("C17");
            let n = build(&b, side, step, pps);
            if n.transposition_hash() == h {
                rep.fail("C17", "reached-state-hashes-like-a-one-square-neighbour", g, format!("square {} with content {} instead of {:?}: both hash {:016x}", sq, c, ab[sq], h));
                return;
            }
        }
    }
    rep.nontriv("C17", fnv(&[7, state_key(s)]));
}
