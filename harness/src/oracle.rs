//! Game tracker and the direct property oracles evaluated on what the real code returns.
use crate::enc::*;
use crate::refmodel::*;
use crate::util::*;
use arimaa_engine_step::*;
use std::collections::{BTreeMap, HashMap, HashSet};
use std::io::Write;

#[derive(Clone, Debug)]
pub struct Fail {
    pub prop: &'static str,
    pub what: String,
    pub start: String,
    pub actions: Vec<String>,
    pub detail: String,
}

pub struct Report {
    pub fails: Vec<Fail>,
    pub fail_counts: BTreeMap<String, u64>,
    pub counts: BTreeMap<String, u64>,
    pub nontrivial: HashMap<&'static str, HashSet<u64>>,
    pub evals: BTreeMap<&'static str, u64>,
    pub samples: Vec<String>,
    pub max_fails: usize,
    /// C17 campaign: compare every reached state with its 64 x 12 single-square neighbours
    pub c17_neighbours: bool,
    /// panics raised by the harness's own code (reported as a broken run, never as a violation)
    pub internal_errors: Vec<String>,
}

impl Report {
    pub fn new() -> Self {
        Report {
            fails: vec![],
            fail_counts: BTreeMap::new(),
            counts: BTreeMap::new(),
            nontrivial: HashMap::new(),
            evals: BTreeMap::new(),
            samples: vec![],
            max_fails: 20,
            c17_neighbours: false,
            internal_errors: vec![],
        }
    }
    pub fn count(&mut self, k: &str) {
        *self.counts.entry(k.to_string()).or_insert(0) += 1;
    }
    pub fn count_n(&mut self, k: &str, n: u64) {
        *self.counts.entry(k.to_string()).or_insert(0) += n;
    }
    pub fn eval(&mut self, prop: &'static str) {
        *self.evals.entry(prop).or_insert(0) += 1;
    }
    pub fn nontriv(&mut self, prop: &'static str, key: u64) {
        self.nontrivial.entry(prop).or_default().insert(key);
    }
    pub fn fail(&mut self, prop: &'static str, what: &str, g: &Game, detail: String) {
        *self.fail_counts.entry(format!("{}:{}", prop, what)).or_insert(0) += 1;
        let n = self.fails.iter().filter(|f| f.prop == prop).count();
        if n < self.max_fails {
            self.fails.push(Fail { prop, what: what.to_string(), start: g.start.clone(), actions: g.actions.clone(), detail });
        }
    }
    pub fn fail_raw(&mut self, prop: &'static str, what: &str, start: String, actions: Vec<String>, detail: String) {
        *self.fail_counts.entry(format!("{}:{}", prop, what)).or_insert(0) += 1;
        let n = self.fails.iter().filter(|f| f.prop == prop).count();
        if n < self.max_fails {
            self.fails.push(Fail { prop, what: what.to_string(), start, actions, detail });
        }
    }
}

/// Trace sink: operation lines and the real code's answers, line-aligned.
pub struct Sink {
    pub ops: Box<dyn Write>,
    pub exp: Box<dyn Write>,
    pub lines: u64,
    pub kinds: BTreeMap<char, u64>,
}

impl Sink {
    pub fn emit(&mut self, op: &str, expect: &str) {
        writeln!(self.ops, "{}", op).unwrap();
        writeln!(self.exp, "{}", expect).unwrap();
        self.lines += 1;
        *self.kinds.entry(op.chars().next().unwrap_or(' ')).or_insert(0) += 1;
    }
}

/// How much of each visited state goes into the trace for the Lean driver.
#[derive(Clone, Copy)]
pub struct Emit {
    /// emit S + O for a visited state with this probability (per mille)
    pub obs_pm: u32,
    /// emit T lines for every offered action (rule-only list) with this probability (per mille)
    pub all_t_pm: u32,
}

#[derive(Clone)]
pub struct Game {
    pub start: String, // "INIT" or the diagram text
    pub actions: Vec<String>,
    pub state: GameState,
    pub init_hash: u64,
    pub turn_boards: Vec<B>,
    pub starts: Vec<(B, bool)>,
    pub recent_start: usize,
    pub legal_start: bool,
    pub from_initial: bool,
    pub applied: usize,
    pub turns: usize,
}

fn key_of(b: &B, side: bool) -> u64 {
    let mut w = vec![if side { 1u64 } else { 2u64 }];
    for chunk in b.chunks(8) {
        let mut x = 0u64;
        for c in chunk {
            x = x * 13 + match c {
                None => 0,
                Some((g, s)) => 1 + (*s as u64) + if *g { 0 } else { 6 },
            };
        }
        w.push(x);
    }
    fnv(&w)
}

pub fn state_key(s: &GameState) -> u64 {
    let w = words(s.piece_board());
    let mut v = w.to_vec();
    v.push(if s.is_p1_turn_to_move() { 1 } else { 2 });
    if let Some(pp) = s.as_play_phase() {
        v.push(pp.step() as u64);
        v.push(match pp.push_pull_state() {
            PushPullState::None => 0,
            PushPullState::PossiblePull(q, p) => 1000 + q.index() as u64 * 8 + st(p) as u64,
            PushPullState::MustCompletePush(q, p) => 2000 + q.index() as u64 * 8 + st(p) as u64,
        });
    } else {
        v.push(99);
    }
    fnv(&v)
}

impl Game {
    pub fn initial() -> Game {
        let s = GameState::initial();
        Game {
            start: "INIT".to_string(),
            actions: vec![],
            init_hash: raw_hash(&s),
            state: s,
            turn_boards: vec![],
            starts: vec![],
            recent_start: 0,
            legal_start: true,
            from_initial: true,
            applied: 0,
            turns: 0,
        }
    }

    pub fn parse(text: &str) -> Option<Game> {
        let s: GameState = guard(|| text.parse::<GameState>())?.ok()?;
        let b = arr(s.piece_board());
        let legal = no_hanging(&b) && material_ok(&b) && arr_raw(&words(s.piece_board())).is_some();
        Some(Game {
            start: text.to_string(),
            actions: vec![],
            init_hash: raw_hash(&s),
            turn_boards: vec![b],
            starts: vec![(b, s.is_p1_turn_to_move())],
            recent_start: 0,
            legal_start: legal,
            from_initial: false,
            applied: 0,
            turns: 0,
            state: s,
        })
    }

    pub fn is_play(&self) -> bool {
        self.state.is_play_phase()
    }

    /// Writes S/O (and T for all offered actions) for the current state.
    pub fn emit_state(&self, sink: &mut Sink, rng: &mut Rng, em: Emit) {
        if !rng.chance(em.obs_pm, 1000) {
            return;
        }
        let s = &self.state;
        sink.emit(&format!("S {}", enc_state(s, self.init_hash)), "ok");
        sink.emit("O", &observe(s));
        if rng.chance(em.all_t_pm, 1000) {
            if let Some(v) = guard(|| s.valid_actions_no_rep()) {
                for a in v {
                    self.emit_take(sink, &a);
                }
            }
        }
    }

    pub fn emit_take(&self, sink: &mut Sink, a: &Action) {
        let s = &self.state;
        let exp = match guard(|| s.take_action(a)) {
            None => "panic".to_string(),
            Some(n) => {
                let ih = if n.is_play_phase() && guard(|| n.current_step()) == Some(0) { raw_hash(&n) } else { self.init_hash };
                enc_state(&n, ih)
            }
        };
        sink.emit(&format!("T {}", enc_action(a)), &exp);
    }

    /// `take_action` under catch_unwind.  A panic is a C19/C03 failure, except the one recorded
    /// finding F4 (move number `usize::MAX` at the end of a Silver turn), which is only counted.
    pub fn take(&self, a: &Action, rep: &mut Report) -> Option<GameState> {
        let s = &self.state;
        match guard(|| s.take_action(a)) {
            Some(n) => Some(n),
            None => {
                let ends = s.is_play_phase() && (matches!(a, Action::Pass) || s.current_step() == 3);
                if s.is_play_phase() && s.move_number() == usize::MAX && !s.is_p1_turn_to_move() && ends {
                    rep.count("known-finding-F4-move-number-overflow");
                } else {
                    rep.fail("C19", "take-action-panics", self, enc_action(a));
                }
                None
            }
        }
    }

    /// All per-state oracles on the real code.  A panic of the code under test inside an oracle is
    /// itself a C19 failure with this game as replay (and never takes the harness down).
    pub fn check_state(&self, rep: &mut Report) {
        let before = rep.fails.len();
        if guard(|| self.check_state_inner(rep)).is_none() && rep.fails.len() == before {
            if last_panic_is_internal() {
                // a bug of this harness, not an observation about the crate: never blamed on a property
                rep.internal_errors.push(format!("oracle code panicked in {} on a state of the game starting {:?} after {:?}", last_panic_file(), self.start, self.actions));
            } else {
                rep.fail("C19", "query-panics", self, format!("a public query panicked (in {}) while the oracles were evaluated", last_panic_file()));
            }
        }
    }

    fn check_state_inner(&self, rep: &mut Report) {
        let s = &self.state;
        let pb = s.piece_board().clone();
        let w = words(&pb);
        let side = s.is_p1_turn_to_move();
        let skey = state_key(s);
        rep.count("states");

        // ---- parsed starts: the move number and the side are the ones written in the header ---
        if self.applied == 0 && !self.from_initial && self.start.contains('+') {
            let head = self.start.trim_start().lines().next().unwrap_or("").trim();
            if head.len() >= 2 && head.is_ascii() && matches!(head.as_bytes()[head.len() - 1], b'g' | b's' | b'w' | b'b') && head[..head.len() - 1].chars().all(|c| c.is_ascii_digit()) {
                let num = head[..head.len() - 1].trim_start_matches('0');
                let num = if num.is_empty() { "0" } else { num };
                let gold = matches!(head.chars().last(), Some('g') | Some('w'));
                if s.move_number().to_string() != num || side != gold {
                    rep.fail("C03", "parsed-header-not-kept", self, format!("header {} but move number {} gold-to-move {}", head, s.move_number(), side));
                    rep.fail("C15", "parsed-header-not-kept", self, format!("header {} but move number {} gold-to-move {}", head, s.move_number(), side));
                }
            }
        }

        // ---- C19: nothing panics ------------------------------------------------------------
        rep.eval("C19");
        let obs = observe(s);
        if obs.contains("PANIC") || obs.contains('!') {
            let which: Vec<&str> = obs.split(' ').filter(|f| f.contains("PANIC") || (f.starts_with("at=") && f.contains('!'))).map(|f| f.split('=').next().unwrap_or("")).collect();
            rep.fail("C19", "query-panics", self, format!("panicking observations: {:?}", which));
            return;
        }
        if s.is_play_phase() && (s.current_step() > 0) {
            rep.nontriv("C19", skey);
        }

        // ---- C10: views ---------------------------------------------------------------------
        rep.eval("C10");
        rep.nontriv("C10", fnv(&w));
        let raw = arr_raw(&w);
        // an inconsistent set of bitboards is a C10 failure; the remaining oracles go on with the board as the
        // engine's own square lookup shows it, so that later consequences (wrong preview, re-typed piece) are found
        let ab = match raw {
            Some(b) => b,
            None => {
                rep.fail("C10", "not-well-formed", self, hex_words(&w, " "));
                match guard(|| arr(&pb)) {
                    Some(b) => b,
                    None => return,
                }
            }
        };
        if arr(&pb) != ab {
            rep.fail("C10", "square-lookup-disagrees", self, hex_words(&w, " "));
        }
        for g in [true, false] {
            let mask: u64 = (0..64).filter(|&i| matches!(ab[i], Some((gg, _)) if gg == g)).map(|i| 1u64 << i).sum();
            if pb.player_piece_mask(g) != mask {
                rep.fail("C10", "player-mask", self, format!("{:x} vs {:x}", pb.player_piece_mask(g), mask));
            }
            for t in 0..6u8 {
                let bits: u64 = (0..64).filter(|&i| ab[i] == Some((g, t))).map(|i| 1u64 << i).sum();
                if pb.bits_for_piece(piece_of(t), g) != bits {
                    rep.fail("C10", "bits-for-piece", self, format!("{:?} {}", piece_of(t), g));
                }
            }
        }
        for t in 0..6u8 {
            let bits: u64 = (0..64).filter(|&i| matches!(ab[i], Some((_, tt)) if tt == t)).map(|i| 1u64 << i).sum();
            if pb.bits_by_piece_type(piece_of(t)) != bits {
                rep.fail("C10", "bits-by-type", self, format!("{:?}", piece_of(t)));
            }
        }
        let shown = format!("{}", s);
        let expect_show = diagram(&ab, side, &s.move_number().to_string());
        if shown != expect_show {
            rep.fail("C10", "diagram", self, format!("{:?} vs {:?}", shown, expect_show));
        }
        if (self.from_initial || self.legal_start) && !material_ok(&ab) {
            rep.fail("C10", "material", self, shown.clone());
        }
        if (self.applied >= 1 || (self.legal_start && !self.from_initial)) && !no_hanging(&ab) {
            rep.fail("C10", "hanging-trap-piece", self, shown.clone());
        }

        // ---- C15: print/parse round trip ----------------------------------------------------
        rep.eval("C15");
        match guard(|| shown.parse::<GameState>()) {
            None => rep.fail("C15", "parse-panics-on-printed-state", self, shown.clone()),
            Some(Err(e)) => rep.fail("C15", "printed-state-rejected", self, format!("{:?}", e)),
            Some(Ok(p)) => {
                let ok = words(p.piece_board()) == w
                    && p.is_p1_turn_to_move() == side
                    && p.move_number() == s.move_number()
                    && p.is_play_phase()
                    && p.current_step() == 0
                    && p.unwrap_play_phase().push_pull_state() == PushPullState::None
                    && format!("{}", p) == shown;
                if !ok {
                    rep.fail("C15", "round-trip-differs", self, shown.clone());
                }
                if s.is_play_phase() && s.current_step() == 0 && p.transposition_hash() != s.transposition_hash() {
                    rep.fail("C15", "round-trip-hash", self, format!("{:016x} vs {:016x}", p.transposition_hash(), s.transposition_hash()));
                }
                rep.nontriv("C15", fnv(&w) ^ s.move_number() as u64 ^ if side { 7 } else { 11 });
            }
        }

        let va = s.valid_actions();
        let vanr = s.valid_actions_no_rep();
        let term = s.is_terminal();
        if let Some(bad) = vanr.iter().chain(va.iter()).find(|a| matches!(a, Action::Move(q, _) if q.index() >= 64)) {
            rep.fail("C01", "step-from-a-square-off-the-board-offered", self, enc_action(bad));
            let printable = guard(|| format!("{}", bad)).is_some();
            let appliable = guard(|| s.take_action(bad)).is_some();
            if !printable || !appliable {
                rep.fail("C19", "offered-action-panics", self, format!("{}: Display {} take_action {}", enc_action(bad), if printable { "ok" } else { "PANIC" }, if appliable { "ok" } else { "PANIC" }));
            }
            return;
        }

        // ---- C07 ----------------------------------------------------------------------------
        rep.eval("C07");
        if s.has_move(&pb).is_none() != !va.is_empty() {
            rep.fail("C07", "has-move-vs-list", self, format!("has_move={:?} va={:?}", s.has_move(&pb), va));
        }
        if s.can_pass(true) != va.contains(&Action::Pass) || s.can_pass(false) != vanr.contains(&Action::Pass) {
            rep.fail("C07", "can-pass-vs-list", self, format!("cp1={} cp0={} va={:?} vanr={:?}", s.can_pass(true), s.can_pass(false), va, vanr));
        }
        if term.is_none() && va.is_empty() {
            rep.fail("C07", "no-result-but-no-action", self, shown.clone());
        }
        if va != vanr || va.is_empty() {
            rep.nontriv("C07", skey ^ fnv(&[va.len() as u64, vanr.len() as u64]));
        }

        let Some(pp) = s.as_play_phase() else {
            // setup: C09's per-state part
            self.check_setup_state(rep, &ab, &va);
            if term.is_some() {
                rep.fail("C04", "result-during-setup", self, shown.clone());
            }
            return;
        };
        let step = pp.step();
        let pps = pp.push_pull_state();
        let pend = pending_of(pps);
        if step > 0 {
            if term.is_some() != va.is_empty() {
                rep.fail("C07", "mid-turn-result-vs-list", self, format!("term={:?} va={:?}", term, va));
            }
            if step == 3 && va.is_empty() && !self.start.starts_with("CRAFT") && !self.start.starts_with("STATE") {
                rep.count("fourth-step-empty-list-in-a-played-game");
            }
            if let Some(t) = &term {
                rep.count("mid-turn-loss");
                if *t != if side { Terminal::SilverWin } else { Terminal::GoldWin } {
                    rep.fail("C07", "mid-turn-result-not-loss-for-mover", self, format!("{:?}", t));
                }
            }
        }

        // ---- C03 (range) --------------------------------------------------------------------
        if step > 3 {
            rep.fail("C03", "step-out-of-range", self, step.to_string());
        }
        if step == 0 && (pps != PushPullState::None || !pp.previous_piece_boards().is_empty() || pp.piece_trapped_this_turn()) {
            rep.fail("C03", "turn-start-not-fresh", self, format!("{:?}", pps));
        }
        if step == 0 && pps != PushPullState::None {
            rep.fail("C12", "status-at-turn-start", self, format!("{:?}", pps));
        }

        // ---- C04 ----------------------------------------------------------------------------
        if step == 0 {
            rep.eval("C04");
            let exp = result(&ab, side);
            if term != exp {
                rep.fail("C04", "result-order", self, format!("engine {:?} expected {:?}", term, exp));
            }
            let goal = |g: bool| (0..64).any(|i| ab[i] == Some((g, 0)) && i / 8 == if g { 0 } else { 7 });
            let rab = |g: bool| (0..64).any(|i| ab[i] == Some((g, 0)));
            let conds = [goal(true), goal(false), !rab(true), !rab(false), !has_step(&ab, side)];
            if conds.iter().any(|c| *c) {
                let mut k = if side { 1u64 } else { 0 };
                for c in conds {
                    k = k * 2 + c as u64;
                }
                let goal_sq: u64 = (0..64).filter(|&i| ab[i].map_or(false, |c| c.1 == 0) && (i / 8 == 0 || i / 8 == 7)).map(|i| i as u64 + 1).sum();
                rep.nontriv("C04", k * 4096 + goal_sq);
                rep.count(&format!("C04-conds-{:05b}", k % 32));
            }
        } else {
            rep.eval("C04");
            // mid turn: only the "no action" loss may be reported (checked under C07 too)
            if let Some(t) = &term {
                if !va.is_empty() || *t != if side { Terminal::SilverWin } else { Terminal::GoldWin } {
                    rep.fail("C04", "mid-turn-result", self, format!("{:?}", t));
                }
            }
        }

        // ---- C01 ----------------------------------------------------------------------------
        rep.eval("C01");
        {
            let mut got: Vec<(usize, usize)> = vec![];
            let mut passes = 0;
            for a in &vanr {
                match a {
                    Action::Move(q, d) => got.push((q.index(), dirn(*d))),
                    Action::Pass => passes += 1,
                    Action::Place(_) => rep.fail("C01", "placement-offered-in-play", self, String::new()),
                }
            }
            let n_raw = got.len();
            got.sort();
            let mut dd = got.clone();
            dd.dedup();
            if dd.len() != n_raw || passes > 1 {
                rep.fail("C01", "duplicate-action", self, format!("{:?}", vanr));
            }
            let exp = enabled_moves(&ab, side, step, pend);
            if dd != exp {
                let extra: Vec<_> = dd.iter().filter(|x| !exp.contains(x)).map(|(i, d)| enc_action(&Action::Move(Square::from_index(*i as u8), dir_of(*d)))).collect();
                let missing: Vec<_> = exp.iter().filter(|x| !dd.contains(x)).map(|(i, d)| enc_action(&Action::Move(Square::from_index(*i as u8), dir_of(*d)))).collect();
                rep.fail("C01", "offered-steps-differ-from-rules", self, format!("step={} status={:?} offered-but-illegal={:?} legal-but-missing={:?}", step, pps, extra, missing));
            }
            if (passes == 1) != pass_enabled(step, pend) {
                rep.fail("C01", "pass-availability", self, format!("step={} status={:?} pass-offered={}", step, pps, passes == 1));
            }
            // every offered step can be continued to a complete legal turn
            for a in &vanr {
                if let Action::Move(_, _) = a {
                    let Some(n) = self.take(a, rep) else { continue };
                    if n.is_p1_turn_to_move() == side && n.current_step() > 0 {
                        let nv = n.valid_actions_no_rep();
                        if nv.is_empty() {
                            rep.fail("C01", "offered-step-cannot-be-completed", self, format!("after {} nothing is offered", enc_action(a)));
                        }
                    }
                }
            }
            let interacting = (0..64).any(|i| match ab[i] {
                Some((g, _)) => (0..4).any(|d| nb(i, d).map_or(false, |j| matches!(ab[j], Some((g2, _)) if g2 != g))),
                None => false,
            });
            if interacting || step > 0 {
                rep.nontriv("C01", skey);
            }
            rep.count(&format!("C01-step{}-{}", step, match pend { Pending::None => "none", Pending::Pull(_, _) => "pull", Pending::Push(_, _) => "push" }));
        }

        // ---- C12 (push pending: list shape) -------------------------------------------------
        if let Pending::Push(q, v) = pend {
            rep.eval("C12");
            rep.nontriv("C12", skey);
            if vanr.is_empty() {
                rep.fail("C12", "push-pending-but-nothing-offered", self, format!("{:?}", pps));
            }
            for a in &vanr {
                let ok = match a {
                    Action::Move(x, d) => {
                        let i = x.index();
                        nb(i, dirn(*d)) == Some(q) && matches!(ab[i], Some((g, s2)) if g == side && s2 > v) && !frozen(&ab, i)
                    }
                    _ => false,
                };
                if !ok {
                    rep.fail("C12", "push-pending-list-has-other-action", self, format!("{:?} offers {}", pps, enc_action(a)));
                }
            }
        }

        // ---- C08 ----------------------------------------------------------------------------
        rep.eval("C08");
        if hash_impl_word(s) != raw_hash(s) {
            rep.fail("C08", "hash-impl-feeds-a-different-word-than-eq-compares", self, format!("impl Hash writes {:016x}, the board-state hash is {:016x}", hash_impl_word(s), raw_hash(s)));
        }
        let scratch = Zobrist::from_piece_board(&pb, side, step).board_state_hash_with_push_pull_state(pps);
        if s.transposition_hash() != scratch {
            rep.fail("C08", "hash-differs-from-scratch", self, format!("{:016x} vs {:016x}", s.transposition_hash(), scratch));
        }
        let hh: Vec<u64> = pp.hash_history().iter().map(|z| z.board_state_hash()).collect();
        let trapped = pp.piece_trapped_this_turn();
        let recent = if trapped { &self.starts[self.starts.len()..] } else { &self.starts[self.recent_start..] };
        let exp_hist: Vec<u64> = recent
            .iter()
            .rev()
            .map(|(bb, sd)| {
                let g2: GameState = diagram(bb, *sd, "2").parse().unwrap();
                g2.transposition_hash()
            })
            .collect();
        if hh != exp_hist {
            rep.fail("C08", "recorded-history-differs", self, format!("{} recorded vs {} expected", hh.len(), exp_hist.len()));
        }
        if self.applied > 0 {
            rep.nontriv("C08", skey ^ (self.turns as u64).wrapping_mul(0x9E37));
        }

        // ---- C17 on reached states: no single-square neighbour built from scratch hashes alike ----
        if rep.c17_neighbours {
            crate::feat::reached_neighbours(self, &ab, rep);
        }

        // ---- C14 ----------------------------------------------------------------------------
        rep.eval("C14");
        if self.turn_boards.len() != step + 1 {
            rep.fail("C14", "tracker-out-of-sync", self, format!("{} vs {}", self.turn_boards.len(), step + 1));
        } else {
            for i in 0..=step {
                match guard(|| arr_raw(&words(s.piece_board_for_step(i)))) {
                    Some(Some(bb)) if bb == self.turn_boards[i] => {}
                    other => rep.fail("C14", "board-of-earlier-step", self, format!("step {} of {}: {:?}", i, step, other.map(|o| o.map(|b| diagram(&b, side, "0"))))),
                }
            }
            let prev = pp.previous_piece_boards();
            if prev.len() != step || prev.iter().enumerate().any(|(i, b)| arr_raw(&words(b.piece_board())) != Some(self.turn_boards[i])) {
                rep.fail("C14", "previous-boards-list", self, String::new());
            }
            if step >= 2 && self.turn_boards[0] != self.turn_boards[1] && self.turn_boards[1] != self.turn_boards[2] {
                rep.nontriv("C14", skey ^ key_of(&self.turn_boards[0], side));
            }
        }

        // ---- C05 / C06 (exact boards) -------------------------------------------------------
        rep.eval("C05");
        rep.eval("C06");
        {
            let mut expect = vec![];
            let mut skipped: Vec<Action> = vec![];
            let mut withheld = 0;
            for a in &vanr {
                let ends = matches!(a, Action::Pass) || step == 3;
                let mut bad = false;
                if ends {
                    let Some(nx) = self.take(a, rep) else {
                        // the successor cannot be computed (only at finding F4): leave this action out
                        skipped.push(*a);
                        continue;
                    };
                    let nbd = arr(nx.piece_board());
                    let k = (nbd, nx.is_p1_turn_to_move());
                    let same_as_start = nbd == self.turn_boards[0];
                    let occ = self.starts.iter().filter(|h| **h == k).count();
                    bad = same_as_start || occ >= 2;
                    if bad {
                        withheld += 1;
                        rep.count(if same_as_start { "withheld-restores-turn-start" } else { "withheld-third-occurrence" });
                    } else if occ == 1 {
                        rep.count("turn-end-second-occurrence-allowed");
                    }
                    if va.contains(a) && bad {
                        rep.fail("C05", if same_as_start { "offers-turn-end-that-restores-start" } else { "offers-third-occurrence" }, self, enc_action(a));
                    }
                }
                if !bad {
                    expect.push(*a);
                }
            }
            let va: Vec<Action> = va.iter().cloned().filter(|a| !skipped.contains(a)).collect();
            if va != expect {
                let over: Vec<_> = expect.iter().filter(|a| !va.contains(a)).map(enc_action).collect();
                let under: Vec<_> = va.iter().filter(|a| !expect.contains(a)).map(enc_action).collect();
                rep.fail("C06", "offered-list-differs-from-exact-filter", self, format!("step={} wrongly-withheld={:?} wrongly-offered={:?} va={:?}", step, over, under, va.iter().map(enc_action).collect::<Vec<_>>()));
            }
            if withheld > 0 {
                rep.nontriv("C05", skey ^ (self.starts.len() as u64) << 20);
                rep.nontriv("C06", skey ^ (self.starts.len() as u64) << 20);
            }
        }

        // ---- C13 / C02 for every offered action ---------------------------------------------
        for a in &vanr {
            if let Action::Move(q, d) = a {
                let i = q.index();
                let dn = dirn(*d);
                rep.eval("C02");
                rep.eval("C13");
                let pv = s.trapped_animal_for_action(a);
                let Some(nx) = self.take(a, rep) else { continue };
                let nbd = match arr_raw(&words(nx.piece_board())) {
                    Some(b) => b,
                    None => {
                        rep.fail("C10", "not-well-formed-after-step", self, enc_action(a));
                        rep.fail("C02", "step-leaves-inconsistent-bitboards", self, format!("{}: the per-type, per-side and all-pieces boards no longer describe one piece per square", enc_action(a)));
                        match guard(|| arr(nx.piece_board())) {
                            Some(b) => b,
                            None => continue,
                        }
                    }
                };
                let dest = nb(i, dn);
                if dest.is_none() || ab[i].is_none() || ab[dest.unwrap()].is_some() {
                    rep.fail("C02", "offered-step-not-onto-empty-neighbour", self, enc_action(a));
                    continue;
                }
                let moved = move_only(&ab, i, dn);
                let exp = capture(&moved);
                if nbd != exp {
                    rep.fail("C02", "step-result-differs", self, format!("{}: engine\n{}expected\n{}", enc_action(a), diagram(&nbd, side, "0"), diagram(&exp, side, "0")));
                }
                if count(&nbd) > count(&ab) {
                    rep.fail("C02", "material-increased", self, enc_action(a));
                }
                let removed: Vec<usize> = (0..64).filter(|&k| moved[k].is_some() && nbd[k].is_none()).collect();
                let near_trap = TRAPS.iter().any(|&t| t == i || Some(t) == dest || (0..4).any(|d2| nb(t, d2) == Some(i)));
                if near_trap {
                    rep.nontriv("C02", skey ^ (i * 4 + dn) as u64);
                    rep.nontriv("C13", skey ^ (i * 4 + dn) as u64);
                }
                if self.legal_start || self.applied >= 1 {
                    if removed.len() > 1 {
                        rep.fail("C13", "step-removes-two-pieces", self, enc_action(a));
                    }
                    match (&pv, removed.first()) {
                        (None, None) => {}
                        (Some((sq, p, g)), Some(&k)) => {
                            rep.count(&format!("capture-{}-{}", ["c6", "f6", "c3", "f3"][TRAPS.iter().position(|t| *t == k).unwrap_or(0)], if *g { "gold" } else { "silver" }));
                            if sq.index() != k || moved[k] != Some((*g, st(*p))) {
                                rep.fail("C13", "preview-names-wrong-piece", self, format!("{}: preview {:?} removed {:?} at {}", enc_action(a), pv, moved[k], k));
                            }
                        }
                        _ => rep.fail("C13", "preview-presence-differs", self, format!("{}: preview {:?} removed {:?}", enc_action(a), pv, removed)),
                    }
                }
            }
        }
    }

    fn check_setup_state(&self, rep: &mut Report, ab: &B, va: &[Action]) {
        rep.eval("C09");
        let s = &self.state;
        let side = s.is_p1_turn_to_move();
        let k = self.applied; // placements so far
        // board shape: gold on 48.., silver on 0..
        let order = |n: usize| -> usize { if n < 16 { 48 + n } else { n - 16 } };
        for sq in 0..64 {
            let expect_occ = (0..k).any(|n| order(n) == sq);
            if ab[sq].is_some() != expect_occ {
                rep.fail("C09", "setup-board-shape", self, format!("square {} after {} placements", sq, k));
                break;
            }
            if let Some((g, _)) = ab[sq] {
                if g != (sq >= 48) {
                    rep.fail("C09", "setup-piece-colour", self, format!("square {}", sq));
                }
            }
        }
        if side != (k < 16) || s.move_number() != 1 {
            rep.fail("C09", "setup-side-or-move-number", self, format!("k={} side={} move={}", k, side, s.move_number()));
        }
        let lim = [8usize, 2, 2, 2, 1, 1];
        let mut exp = vec![];
        for t in [5u8, 4, 3, 2, 1, 0] {
            if ab.iter().filter(|c| **c == Some((side, t))).count() < lim[t as usize] {
                exp.push(Action::Place(piece_of(t)));
            }
        }
        let mut a1: Vec<String> = va.iter().map(enc_action).collect();
        let mut a2: Vec<String> = exp.iter().map(enc_action).collect();
        a1.sort();
        a2.sort();
        if a1 != a2 {
            rep.fail("C09", "placements-offered", self, format!("{:?} vs {:?}", a1, a2));
        }
        let mut cv = vec![k as u64];
        for t in 0..6u8 {
            cv.push(ab.iter().filter(|c| **c == Some((side, t))).count() as u64);
        }
        rep.nontriv("C09", fnv(&cv));
    }

    /// Applies an action to the real state with the transition oracles (C02, C03, C09, C12).
    /// Returns false if the real code panicked.
    pub fn step(&mut self, a: &Action, rep: &mut Report) -> bool {
        let s = self.state.clone();
        let side = s.is_p1_turn_to_move();
        let Some(nx) = self.take(a, rep) else {
            return false;
        };
        self.actions.push(enc_action(a));
        let w0 = words(s.piece_board());
        let w1 = words(nx.piece_board());
        if !s.is_play_phase() {
            // ---- C09 transition ---------------------------------------------------------------
            rep.eval("C09");
            let k = self.applied;
            let sq = if k < 16 { 48 + k } else { k - 16 };
            let (b0, b1) = (arr_raw(&w0), arr_raw(&w1));
            if let (Some(b0), Some(b1), Action::Place(p)) = (b0, b1, a) {
                let mut e = b0;
                e[sq] = Some((side, st(*p)));
                if e != b1 {
                    rep.fail("C09", "placement-effect", self, format!("{} as placement {}", enc_action(a), k));
                }
            } else {
                rep.fail("C09", "placement-effect", self, "not well formed".to_string());
            }
            if k == 31 {
                let ok = nx.is_play_phase()
                    && nx.is_p1_turn_to_move()
                    && nx.move_number() == 2
                    && nx.current_step() == 0
                    && nx.unwrap_play_phase().push_pull_state() == PushPullState::None
                    && nx.unwrap_play_phase().hash_history().len() == 1;
                if !ok {
                    rep.fail("C09", "handover-to-play", self, format!("{}", nx));
                }
                // C08: finished setup hashes like the same position parsed from text
                let parsed: GameState = format!("{}", nx).parse().unwrap();
                rep.eval("C08");
                if parsed.transposition_hash() != nx.transposition_hash()
                    || parsed.unwrap_play_phase().hash_history().iter().map(|z| z.board_state_hash()).collect::<Vec<_>>()
                        != nx.unwrap_play_phase().hash_history().iter().map(|z| z.board_state_hash()).collect::<Vec<_>>()
                    || parsed != nx
                {
                    rep.fail("C08", "finished-setup-hashes-unlike-parsed", self, format!("{:016x} vs {:016x}", parsed.transposition_hash(), nx.transposition_hash()));
                }
            } else if nx.is_play_phase() {
                rep.fail("C09", "play-began-early", self, format!("after {} placements", k + 1));
            }
            self.applied += 1;
            if nx.is_play_phase() {
                let b = arr(nx.piece_board());
                self.turn_boards = vec![b];
                self.starts = vec![(b, nx.is_p1_turn_to_move())];
                self.recent_start = 0;
                self.init_hash = raw_hash(&nx);
            } else {
                self.init_hash = raw_hash(&nx);
            }
            self.state = nx;
            return true;
        }
        let step = s.current_step();
        let pps = s.unwrap_play_phase().push_pull_state();
        let ab = arr(s.piece_board());
        let nbd = arr(nx.piece_board());
        let ended = matches!(a, Action::Pass) || step == 3;
        // ---- C03 ------------------------------------------------------------------------------
        rep.eval("C03");
        let npp = nx.unwrap_play_phase();
        let exp_move = s.move_number().checked_add((ended && !side) as usize);
        let ok = nx.is_p1_turn_to_move() == (side ^ ended)
            && nx.current_step() == if ended { 0 } else { step + 1 }
            && Some(nx.move_number()) == exp_move
            && (!ended || (npp.push_pull_state() == PushPullState::None && npp.previous_piece_boards().is_empty() && !npp.piece_trapped_this_turn()));
        if !ok {
            rep.fail("C03", "turn-bookkeeping", self, format!("after {}: side {} step {} move {} (was side {} step {} move {})", enc_action(a), nx.is_p1_turn_to_move(), nx.current_step(), nx.move_number(), side, step, s.move_number()));
        }
        rep.nontriv("C03", state_key(&s) ^ fnv(&[matches!(a, Action::Pass) as u64, s.move_number() as u64]));
        if let Action::Move(q, d) = a {
            // ---- C12 --------------------------------------------------------------------------
            if !ended {
                rep.eval("C12");
                let i = q.index();
                if ab[i].is_some() {
                    let exp = next_pending(&ab, side, pending_of(pps), i, dirn(*d));
                    let got = pending_of(npp.push_pull_state());
                    if exp != got {
                        rep.fail("C12", "status-after-step", self, format!("after {}: engine {:?} expected {:?}", enc_action(a), got, exp));
                        // a wrong status makes the steps offered NEXT differ from the prefixes of legal turns (C01 speaks
                        // about step sequences): a displacement booked as a pull needs no completion, a pull booked as a
                        // push forces one
                        rep.fail("C01", "status-after-step-breaks-turn-structure", self, format!("after {}: engine {:?} expected {:?}", enc_action(a), got, exp));
                    }
                    if exp != Pending::None {
                        rep.nontriv("C12", state_key(&nx));
                    }
                }
            }
        } else if nbd != ab {
            rep.fail("C02", "pass-changed-board", self, String::new());
        }
        // tracker update
        let captured_now = count(&nbd) < count(&ab);
        if captured_now {
            self.recent_start = self.starts.len();
            rep.count("captures-played");
        }
        if ended {
            // C05 on the game actually played
            rep.eval("C05");
            let k = (nbd, nx.is_p1_turn_to_move());
            if nbd == self.turn_boards[0] {
                rep.fail("C05", "turn-left-board-unchanged", self, enc_action(a));
            }
            if self.starts.iter().filter(|h| **h == k).count() >= 2 {
                rep.fail("C05", "third-occurrence-played", self, enc_action(a));
            }
            self.starts.push(k);
            self.turn_boards = vec![nbd];
            self.init_hash = raw_hash(&nx);
            self.turns += 1;
            rep.count(if matches!(a, Action::Pass) { "turn-ends-by-pass" } else { "turn-ends-by-fourth-step" });
        } else {
            self.turn_boards.push(nbd);
        }
        self.applied += 1;
        self.state = nx;
        true
    }
}
