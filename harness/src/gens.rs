//! Generators: setup walks (G1), position synthesis (G2), motifs (G3), playouts (G4),
//! repetition walks (G5), corpus (G6).  Every random choice comes from one `Rng`.
use crate::enc::*;
use crate::oracle::*;
use crate::refmodel::*;
use crate::util::*;
use arimaa_engine_step::*;

#[derive(Clone, Copy, PartialEq, Eq, Debug)]
pub enum Policy {
    Uniform,
    PushPull,
    Capture,
    PassOften,
    FourSteps,
    RepSeek,
    Restore,
    /// one reversible step and a pass per turn, undone next turn: the shortest route back to a position
    Shuttle,
    /// walks, with exactly three steps, into a position in which the mover has no step left, and
    /// passes; otherwise behaves like `Shuttle`.  When both sides keep undoing their turns the
    /// same dead end is reached again and again, until the pass there is withheld as a third
    /// occurrence: a fourth-step state of an unfinished-looking game with an empty action list.
    StaleSeek,
}

pub const POLICIES: [Policy; 9] = [Policy::Uniform, Policy::PushPull, Policy::Capture, Policy::PassOften, Policy::FourSteps, Policy::RepSeek, Policy::Restore, Policy::Shuttle, Policy::StaleSeek];

/// Random material within the legal complement, three density regimes; `legal` removes hanging
/// trap pieces; rabbits are kept off both goal ranks (keep-alive).
pub fn random_position(rng: &mut Rng, density: usize, legal: bool, clustered: bool) -> (B, bool) {
    let mut b: B = [None; 64];
    let lim = [8u8, 2, 2, 2, 1, 1];
    let mut cnt = [[0u8; 6]; 2];
    let (wf, wr, w) = (rng.below(5), rng.below(5), 3 + rng.below(2));
    for _ in 0..density * 2 {
        if count(&b) >= density {
            break;
        }
        let i = if clustered { (wr + rng.below(w)).min(7) * 8 + (wf + rng.below(w)).min(7) } else { rng.below(64) };
        let g = rng.chance(1, 2);
        let t = [0usize, 0, 0, 1, 2, 3, 4, 5][rng.below(8)];
        let limit = if legal { lim[t] } else { lim[t] + 2 };
        if b[i].is_none() && cnt[g as usize][t] < limit && !(legal && t == 0 && (i / 8 == 0 || i / 8 == 7)) {
            b[i] = Some((g, t as u8));
            cnt[g as usize][t] += 1;
        }
    }
    if legal {
        for g in [true, false] {
            if cnt[g as usize][0] == 0 {
                let i = 24 + rng.below(16);
                if b[i].is_none() {
                    b[i] = Some((g, 0));
                }
            }
        }
        let s0 = b;
        for t in TRAPS {
            if let Some((g, _)) = s0[t] {
                if !friend(&s0, t, g) {
                    b[t] = None;
                }
            }
        }
    }
    (b, rng.chance(1, 2))
}

pub fn random_move_number(rng: &mut Rng) -> String {
    match rng.below(48) {
        0 | 4 => "1".to_string(),
        1 | 5 => "4294967296".to_string(),
        2 => "18446744073709551614".to_string(),
        6 => "18446744073709551613".to_string(),
        3 => (2 + rng.below(1000)).to_string(),
        // around every power of two at which a narrower counter would wrap
        7 | 8 | 9 => {
            let k = *rng.pick(&[8u32, 15, 16, 31, 32, 63]);
            let base = 1u128 << k;
            (base + rng.below(3) as u128 - 2).to_string()
        }
        _ => (2 + rng.below(60)).to_string(),
    }
}

/// Material grid: every combination of (gold rabbits, gold officers, silver rabbits, silver
/// officers) in 0..=8 each, on random squares off the goal ranks of the rabbits, both sides to
/// move: the result conditions that count pieces (no rabbits left, piece-count shortcuts) at every
/// total from 0 to 32.
pub fn material_grid(rng: &mut Rng, stride: usize) -> Vec<(B, bool)> {
    let officers = [5u8, 4, 3, 3, 2, 2, 1, 1];
    let mut out = vec![];
    let mut n = 0usize;
    for gr in 0..=8usize {
        for go in 0..=8usize {
            for sr in 0..=8usize {
                for so in 0..=8usize {
                    n += 1;
                    // the corners of the grid always, the interior at the given stride
                    let corner = [gr, go, sr, so].iter().all(|x| *x == 0 || *x == 8 || *x == 1 || *x == 7);
                    if !corner && n % stride != 0 {
                        continue;
                    }
                    let mut b: B = [None; 64];
                    let mut free: Vec<usize> = (8..56).collect();
                    let mut put = |cell: (bool, u8), b: &mut B, rng: &mut Rng| {
                        if free.is_empty() {
                            return;
                        }
                        let k = rng.below(free.len());
                        let sq = free.swap_remove(k);
                        b[sq] = Some(cell);
                    };
                    for _ in 0..gr {
                        put((true, 0), &mut b, rng);
                    }
                    for _ in 0..sr {
                        put((false, 0), &mut b, rng);
                    }
                    let mut og = officers.to_vec();
                    let mut os = officers.to_vec();
                    for _ in 0..go {
                        let k = rng.below(og.len());
                        put((true, og.swap_remove(k)), &mut b, rng);
                    }
                    for _ in 0..so {
                        let k = rng.below(os.len());
                        put((false, os.swap_remove(k)), &mut b, rng);
                    }
                    // unsupported pieces on traps would make the start illegal: clear the traps
                    for t in TRAPS.iter() {
                        if b[*t].is_some() && !(0..4).any(|d| nb(*t, d).map_or(false, |j| matches!((b[*t], b[j]), (Some((g, _)), Some((h, _))) if g == h))) {
                            b[*t] = None;
                        }
                    }
                    out.push((b, n % 2 == 0));
                    out.push((b, n % 2 == 1));
                }
            }
        }
    }
    out
}

fn inverse(a: &Action) -> Option<Action> {
    if let Action::Move(sq, d) = a {
        let j = nb(sq.index(), dirn(*d))?;
        Some(Action::Move(Square::from_index(j as u8), dir_of((dirn(*d) + 2) % 4)))
    } else {
        None
    }
}

pub struct Player {
    pub policy: Policy,
    /// own steps of the previous turn of each side (index: gold = 1)
    last_turn: [Vec<Action>; 2],
    this_turn: Vec<Action>,
    plan: Vec<Action>,
    pub keep_alive: bool,
    /// placements still to be made in the setup phase (a stack: the last entry is played next);
    /// when empty or not offered, a placement is drawn uniformly from the offered piece types
    pub setup_plan: Vec<Action>,
}

impl Player {
    pub fn new(policy: Policy, keep_alive: bool) -> Self {
        Player { policy, last_turn: [vec![], vec![]], this_turn: vec![], plan: vec![], keep_alive, setup_plan: vec![] }
    }

    fn filter_alive(&self, s: &GameState, va: &[Action]) -> Vec<Action> {
        if !self.keep_alive {
            return va.to_vec();
        }
        let side = s.is_p1_turn_to_move();
        let ab = arr(s.piece_board());
        let v: Vec<Action> = va
            .iter()
            .cloned()
            .filter(|a| match a {
                Action::Move(q, d) => {
                    let i = q.index();
                    match (ab[i], nb(i, dirn(*d))) {
                        // no rabbit of either colour onto a goal rank
                        (Some((_, 0)), Some(j)) => !(j / 8 == 0 || j / 8 == 7),
                        _ => true,
                    }
                }
                _ => true,
            })
            .collect();
        let _ = side;
        if v.is_empty() {
            va.to_vec()
        } else {
            v
        }
    }

    pub fn choose(&mut self, g: &Game, va: &[Action], rng: &mut Rng) -> Action {
        let s = &g.state;
        let side = s.is_p1_turn_to_move() as usize;
        let step = s.current_step();
        if step == 0 {
            self.this_turn.clear();
            self.plan.clear();
            if self.policy == Policy::RepSeek && rng.chance(3, 4) {
                // undo the own previous turn: inverse steps in reverse order, then pass
                let mut p: Vec<Action> = self.last_turn[side].iter().rev().filter_map(inverse).collect();
                if !p.is_empty() && p.len() < 4 {
                    p.push(Action::Pass);
                }
                p.reverse(); // used as a stack
                self.plan = p;
            }
        }
        if step == 0 && self.policy == Policy::StaleSeek && rng.chance(5, 6) {
            if let Some(mut p) = stale_plan(g, 4000, rng) {
                p.reverse();
                self.plan = p;
            }
        }
        if step == 0 && self.policy == Policy::Restore && rng.chance(4, 5) {
            if let Some(mut p) = restore_plan(g, 2500) {
                p.reverse();
                self.plan = p;
            }
        }
        let cands = self.filter_alive(s, va);
        let ab = arr(s.piece_board());
        let pick = match self.policy {
            Policy::Shuttle | Policy::StaleSeek => {
                let me = s.is_p1_turn_to_move();
                let planned = if self.policy == Policy::StaleSeek { self.plan.pop() } else { None };
                if let Some(a) = planned.filter(|a| va.contains(a)) {
                    a
                } else if step >= 1 {
                    if va.contains(&Action::Pass) {
                        Action::Pass
                    } else {
                        *rng.pick(&cands)
                    }
                } else {
                    // undo the own previous step if possible, else a reversible (non-rabbit, own) step
                    let undo = self.last_turn[side].first().and_then(inverse).filter(|a| va.contains(a));
                    match undo {
                        Some(a) => a,
                        None => {
                            let c: Vec<Action> = cands.iter().cloned().filter(|a| matches!(a, Action::Move(q, _) if matches!(ab[q.index()], Some((gg, t)) if gg == me && t != 0))).collect();
                            if c.is_empty() {
                                *rng.pick(&cands)
                            } else {
                                *rng.pick(&c)
                            }
                        }
                    }
                }
            }
            Policy::RepSeek | Policy::Restore => {
                if let Some(a) = self.plan.pop() {
                    if va.contains(&a) {
                        a
                    } else {
                        self.plan.clear();
                        *rng.pick(&cands)
                    }
                } else if step >= 1 && va.contains(&Action::Pass) && rng.chance(1, 2) {
                    Action::Pass
                } else {
                    *rng.pick(&cands)
                }
            }
            Policy::PassOften => {
                if va.contains(&Action::Pass) && rng.chance(1, 2) {
                    Action::Pass
                } else {
                    *rng.pick(&cands)
                }
            }
            Policy::FourSteps => {
                let c: Vec<Action> = cands.iter().cloned().filter(|a| !matches!(a, Action::Pass)).collect();
                if c.is_empty() {
                    *rng.pick(&cands)
                } else {
                    *rng.pick(&c)
                }
            }
            Policy::PushPull => {
                let me = s.is_p1_turn_to_move();
                let c: Vec<Action> = cands.iter().cloned().filter(|a| matches!(a, Action::Move(q, _) if matches!(ab[q.index()], Some((gg, _)) if gg != me))).collect();
                if !c.is_empty() && rng.chance(3, 4) {
                    *rng.pick(&c)
                } else {
                    // step next to an enemy piece to set up pushes/pulls
                    *rng.pick(&cands)
                }
            }
            Policy::Capture => {
                // the preview is code under test: a panic in it must not take the harness down (it is reported by the
                // C19 oracle at the same state, which previews every offered action under its own guard)
                let c: Vec<Action> = cands.iter().cloned().filter(|a| crate::util::guard(|| s.trapped_animal_for_action(a)).map_or(false, |r| r.is_some())).collect();
                if !c.is_empty() && rng.chance(3, 4) {
                    *rng.pick(&c)
                } else {
                    *rng.pick(&cands)
                }
            }
            Policy::Uniform => *rng.pick(&cands),
        };
        if let Action::Move(q, _) = pick {
            // record own steps only (a turn that displaced enemy pieces is not undone)
            if matches!(ab[q.index()], Some((gg, _)) if gg == s.is_p1_turn_to_move()) {
                self.this_turn.push(pick);
            } else {
                self.this_turn.clear();
                self.this_turn.push(Action::Pass); // poison: makes inverse() fail
            }
        }
        let ends = matches!(pick, Action::Pass) || step == 3;
        if ends {
            let ok = self.this_turn.iter().all(|a| matches!(a, Action::Move(_, _)));
            self.last_turn[side] = if ok { self.this_turn.clone() } else { vec![] };
        }
        pick
    }
}

/// All three-step sequences of the side to move (rule-only lists) that end in a state where the
/// mover has no step left; prefers the one whose board was a start-of-turn position (opponent to
/// move) most often.  The plan ends with a pass.
pub fn stale_plan(g: &Game, budget: usize, rng: &mut Rng) -> Option<Vec<Action>> {
    let side = g.state.is_p1_turn_to_move();
    let mut frontier: Vec<(GameState, Vec<Action>)> = vec![(g.state.clone(), vec![])];
    let mut nodes = 0;
    for _depth in 0..3 {
        let mut next = vec![];
        for (st, path) in &frontier {
            let Some(va) = guard(|| st.valid_actions_no_rep()) else { continue };
            for a in va {
                if !matches!(a, Action::Move(q, _) if q.index() < 64) {
                    continue;
                }
                nodes += 1;
                if nodes > budget {
                    return None;
                }
                let Some(n) = guard(|| st.take_action(&a)) else { continue };
                if n.is_p1_turn_to_move() != side || !n.is_play_phase() {
                    continue;
                }
                let mut p = path.clone();
                p.push(a);
                next.push((n, p));
            }
        }
        frontier = next;
    }
    let mut best: Vec<(usize, Vec<Action>)> = vec![];
    for (st, path) in frontier {
        let Some(va) = guard(|| st.valid_actions_no_rep()) else { continue };
        if va.iter().any(|a| matches!(a, Action::Move(_, _))) {
            continue;
        }
        let k = (arr(st.piece_board()), !side);
        let seen = g.starts.iter().filter(|t| **t == k).count();
        best.push((seen, path));
    }
    let top = best.iter().map(|b| b.0).max()?;
    let cands: Vec<&(usize, Vec<Action>)> = best.iter().filter(|b| b.0 == top).collect();
    let mut p = rng.pick(&cands).1.clone();
    p.push(Action::Pass);
    Some(p)
}

/// Breadth-first search (rule-only lists, depth <= 4) for a turn of the side to move whose result
/// is an earlier start-of-turn position: manufactures short repetition cycles, including the ones
/// in which the opponent's move is undone by a push or pull.
pub fn restore_plan(g: &Game, budget: usize) -> Option<Vec<Action>> {
    let side = g.state.is_p1_turn_to_move();
    let targets: Vec<&(B, bool)> = g.starts.iter().filter(|(_, sd)| *sd != side).collect();
    if targets.is_empty() {
        return None;
    }
    let mut frontier: Vec<(GameState, Vec<Action>)> = vec![(g.state.clone(), vec![])];
    let mut nodes = 0;
    for depth in 0..4 {
        let mut next = vec![];
        for (st, path) in &frontier {
            let Some(va) = guard(|| st.valid_actions_no_rep()) else { continue };
            for a in va {
                nodes += 1;
                if nodes > budget {
                    return None;
                }
                let ends = matches!(a, Action::Pass) || depth == 3;
                let Some(n) = guard(|| st.take_action(&a)) else { continue };
                let mut p = path.clone();
                p.push(a);
                if ends {
                    let k = (arr(n.piece_board()), n.is_p1_turn_to_move());
                    if targets.iter().any(|t| **t == k) && k.0 != g.turn_boards[0] {
                        return Some(p);
                    }
                } else {
                    next.push((n, p));
                }
            }
        }
        frontier = next;
    }
    None
}

/// Plays `max_plies` actions from `g`, visiting (checking, emitting) every state.
pub fn playout(g: &mut Game, player: &mut Player, max_plies: usize, rng: &mut Rng, rep: &mut Report, sink: &mut Sink, em: Emit) {
    let mut kept: Option<GameState> = None;
    for ply in 0..=max_plies {
        g.check_state(rep);
        let s = g.state.clone();
        let (Some(term), Some(va)) = (guard(|| s.is_terminal()), guard(|| s.valid_actions())) else {
            rep.count("games-stopped-by-panic");
            break;
        };
        let off_board = va.iter().any(|a| matches!(a, Action::Move(q, _) if q.index() >= 64));
        let chosen = if term.is_some() || va.is_empty() || ply == max_plies || off_board {
            None
        } else if s.is_play_phase() {
            Some(player.choose(g, &va, rng))
        } else {
            match player.setup_plan.pop() {
                Some(a) if va.contains(&a) => Some(a),
                _ => Some(*rng.pick(&va)),
            }
        };
        if rng.chance(em.obs_pm, 1000) {
            sink.emit(&format!("S {}", enc_state(&s, g.init_hash)), "ok");
            sink.emit("O", &observe(&s));
            // `==` / Hash of GameState against the model's equality (transpositions reached by other paths)
            if let Some(k) = &kept {
                sink.emit("E", if s == *k { "1" } else { "0" });
                if (s == *k) != (raw_hash(&s) == raw_hash(k)) {
                    rep.fail("C08", "eq-differs-from-hash-equality", g, String::new());
                }
            }
            if rng.chance(1, 4) {
                sink.emit("K", "ok");
                kept = Some(s.clone());
            }
            if rng.chance(em.all_t_pm, 1000) {
                for a in guard(|| s.valid_actions_no_rep()).unwrap_or_default() {
                    g.emit_take(sink, &a);
                }
            } else if let Some(a) = &chosen {
                g.emit_take(sink, a);
            }
        }
        if let Some(t) = &term {
            rep.count(&format!("terminal-{}", term_str(&Some(t.clone()))));
        }
        match chosen {
            None => {
                rep.count_n("game-length-turns", g.turns as u64);
                rep.count("games");
                break;
            }
            Some(a) => {
                if !g.step(&a, rep) {
                    break;
                }
            }
        }
    }
}

/// G1: a random setup; every prefix is visited.
pub fn setup_walk(rng: &mut Rng, rep: &mut Report, sink: &mut Sink, em: Emit, continue_plies: usize, policy: Policy) {
    let mut g = Game::initial();
    let mut player = Player::new(policy, true);
    // three walks in four place both armies in a uniformly drawn order of the 16 pieces (so that
    // every piece type is equally likely on every home square, the last one included); the fourth
    // draws each placement uniformly from the offered types
    if rng.chance(3, 4) {
        let g_order = army_order(rng, None, None);
        let s_order = army_order(rng, None, None);
        player.setup_plan = plan_of(&g_order, &s_order);
    }
    playout(&mut g, &mut player, 32 + continue_plies, rng, rep, sink, em);
}

/// the 16 pieces of one army in a uniformly random order; `first` / `last` force the type placed
/// first / last (types: 0 rabbit .. 5 elephant)
pub fn army_order(rng: &mut Rng, first: Option<u8>, last: Option<u8>) -> Vec<u8> {
    let mut v: Vec<u8> = vec![5, 4, 3, 3, 2, 2, 1, 1, 0, 0, 0, 0, 0, 0, 0, 0];
    for i in (1..v.len()).rev() {
        let j = rng.below(i + 1);
        v.swap(i, j);
    }
    if let Some(t) = first {
        let k = v.iter().position(|x| *x == t).unwrap();
        v.swap(0, k);
    }
    if let Some(t) = last {
        if let Some(k) = v.iter().skip(1).position(|x| *x == t) {
            v.swap(15, k + 1);
        }
    }
    v
}

fn plan_of(gold: &[u8], silver: &[u8]) -> Vec<Action> {
    let mut p: Vec<Action> = gold.iter().chain(silver.iter()).map(|t| Action::Place(piece_of(*t))).collect();
    p.reverse();
    p
}

/// every (type of Gold's last piece, type of Silver's last piece) and every pair of first pieces:
/// the hand-over after the 16th placement and the first placement for each piece type
pub fn setup_corners(rng: &mut Rng, rep: &mut Report, sink: &mut Sink, em: Emit, continue_plies: usize) {
    // sorted orders: all pieces of one type first (the eight rabbits fill a whole rank), weakest to
    // strongest, strongest to weakest, and each of these for one side against a random other side
    let mut sorted: Vec<Vec<u8>> = vec![];
    for t in 0..6u8 {
        let mut v = army_order(rng, None, None);
        v.sort_by_key(|x| if *x == t { 0 } else { 1 });
        sorted.push(v);
    }
    let mut asc = army_order(rng, None, None);
    asc.sort();
    let mut desc = asc.clone();
    desc.reverse();
    sorted.push(asc);
    sorted.push(desc);
    for (i, o) in sorted.iter().enumerate() {
        for variant in 0..3 {
            let mut g = Game::initial();
            let mut player = Player::new(Policy::Uniform, true);
            let other = army_order(rng, None, None);
            let (go, so) = match variant {
                0 => (o.clone(), sorted[(i + 1) % sorted.len()].clone()),
                1 => (o.clone(), other),
                _ => (other, o.clone()),
            };
            player.setup_plan = plan_of(&go, &so);
            playout(&mut g, &mut player, 32 + continue_plies, rng, rep, sink, em);
        }
    }
    for a in 0..6u8 {
        for b in 0..6u8 {
            let mut g = Game::initial();
            let mut player = Player::new(Policy::Uniform, true);
            let g_order = army_order(rng, Some(b), Some(a));
            let s_order = army_order(rng, Some(a), Some(b));
            player.setup_plan = plan_of(&g_order, &s_order);
            playout(&mut g, &mut player, 32 + continue_plies, rng, rep, sink, em);
        }
    }
}

/// G6: diagrams scraped from the crate's own tests and docs.
pub fn corpus(repo: &str) -> Vec<String> {
    let mut out = vec![];
    for f in ["src/engine_tests.rs", "src/lib.rs", "src/display.rs", "README.md"] {
        let Ok(text) = std::fs::read_to_string(format!("{}/{}", repo, f)) else { continue };
        let lines: Vec<&str> = text.lines().collect();
        let mut i = 0;
        while i < lines.len() {
            if lines[i].contains("+-----------------+") {
                // header line (move number + side) may precede
                let mut start = i;
                if i > 0 {
                    let prev = lines[i - 1].trim().trim_start_matches("//!").trim().trim_start_matches('"');
                    if !prev.is_empty() && prev.len() <= 6 && prev.chars().last().map_or(false, |c| "gswb".contains(c)) && prev[..prev.len() - 1].chars().all(|c| c.is_ascii_digit()) {
                        start = i - 1;
                    }
                }
                let mut j = i + 1;
                while j < lines.len() && !lines[j].contains("+-----------------+") {
                    j += 1;
                }
                if j < lines.len() && j - i == 9 {
                    let mut d = String::new();
                    for l in &lines[start..=j] {
                        let l = l.trim_start().trim_start_matches("//!").trim_start_matches('"').trim_start_matches("let game_state: GameState = \"");
                        d.push_str(l.trim_end_matches('"'));
                        d.push('\n');
                    }
                    out.push(d);
                    i = j + 1;
                    continue;
                }
            }
            i += 1;
        }
    }
    out.sort();
    out.dedup();
    out
}

/// G3: systematic motif positions (pairs of adjacent enemy pieces at every square/direction
/// with/without supporters and blockers; trap and goal families).
pub fn motifs(rng: &mut Rng, limit: usize) -> Vec<(B, bool)> {
    let mut out = vec![];
    // (a) strong/weak pair adjacency at every square x direction x strength relation x colour
    for i in 0..64 {
        for d in 0..4 {
            let Some(j) = nb(i, d) else { continue };
            for (sa, sb) in [(3u8, 1u8), (1, 1), (1, 3), (5, 0), (1, 0), (0, 0), (4, 5), (2, 1)] {
                for gold_is_a in [true, false] {
                    for extra in 0..6 {
                        let mut b: B = [None; 64];
                        if (sa == 0 && (i / 8 == 0 || i / 8 == 7)) || (sb == 0 && (j / 8 == 0 || j / 8 == 7)) {
                            continue;
                        }
                        b[i] = Some((gold_is_a, sa));
                        b[j] = Some((!gold_is_a, sb));
                        // extra: 0 nothing, 1 friend of b next to b, 2 blocker behind b, 3 friend of a next to a
                        match extra {
                            1 => {
                                if let Some(k) = (0..4).filter_map(|d2| nb(j, d2)).find(|k| b[*k].is_none()) {
                                    b[k] = Some((!gold_is_a, 1));
                                }
                            }
                            2 => {
                                if let Some(k) = nb(j, d) {
                                    if b[k].is_none() {
                                        b[k] = Some((rng.chance(1, 2), 2));
                                    }
                                }
                            }
                            3 => {
                                if let Some(k) = (0..4).filter_map(|d2| nb(i, d2)).find(|k| b[*k].is_none()) {
                                    b[k] = Some((gold_is_a, 1));
                                }
                            }
                            4 | 5 => {
                                // edge-wrap decoys: a strong unfrozen piece of a's colour on the square that a
                                // raw (unmasked) horizontal shift would reach across the board edge from i or j
                                let src = if extra == 4 { j } else { i };
                                let wrap = if src % 8 == 7 && src + 1 < 64 { Some(src + 1) } else if src % 8 == 0 && src >= 1 { Some(src - 1) } else { None };
                                match wrap {
                                    Some(k) if b[k].is_none() => {
                                        b[k] = Some((gold_is_a, 4));
                                    }
                                    _ => continue,
                                }
                            }
                            _ => {}
                        }
                        // rabbits so that the game is not over
                        for g in [true, false] {
                            if !b.iter().any(|c| *c == Some((g, 0))) {
                                for _ in 0..20 {
                                    let k = 16 + rng.below(32);
                                    if b[k].is_none() && !TRAPS.contains(&k) && (0..4).all(|d2| nb(k, d2).map_or(true, |n| b[n].is_none())) {
                                        b[k] = Some((g, 0));
                                        break;
                                    }
                                }
                            }
                        }
                        let s0 = b;
                        for t in TRAPS {
                            if let Some((g, _)) = s0[t] {
                                if !friend(&s0, t, g) {
                                    b[t] = None;
                                }
                            }
                        }
                        out.push((b, true));
                        out.push((b, false));
                    }
                }
            }
        }
    }
    // (b) trap family: piece next to / on each trap with a lone supporter that can step away
    for &t in TRAPS.iter() {
        for g in [true, false] {
            for d in 0..4 {
                let Some(sup) = nb(t, d) else { continue };
                for (st_trap, st_sup) in [(1u8, 2u8), (0, 1), (5, 1), (2, 0)] {
                    let mut b: B = [None; 64];
                    b[t] = Some((g, st_trap));
                    if st_sup == 0 && (sup / 8 == 0 || sup / 8 == 7) {
                        continue;
                    }
                    b[sup] = Some((g, st_sup));
                    // an enemy that can push/pull the supporter, sometimes
                    if let Some(k) = (0..4).filter_map(|d2| nb(sup, d2)).find(|k| b[*k].is_none() && !TRAPS.contains(k)) {
                        b[k] = Some((!g, 4));
                    }
                    for gg in [true, false] {
                        if !b.iter().any(|c| *c == Some((gg, 0))) {
                            let k = if gg { 32 } else { 31 };
                            if b[k].is_none() {
                                b[k] = Some((gg, 0));
                            }
                        }
                    }
                    out.push((b, true));
                    out.push((b, false));
                    // piece about to step into the trap
                    let mut b2: B = [None; 64];
                    b2[sup] = Some((g, st_trap.max(1)));
                    b2[32] = Some((true, 0));
                    b2[31] = Some((false, 0));
                    out.push((b2, g));
                }
            }
        }
    }
    // (c) goal family: rabbits on / next to every goal square, all five conditions
    for f in 0..8 {
        for g in [true, false] {
            for variant in 0..6 {
                let mut b: B = [None; 64];
                let goal_sq = if g { f } else { 56 + f };
                let before = if g { 8 + f } else { 48 + f };
                match variant {
                    0 => b[goal_sq] = Some((g, 0)),
                    1 => b[before] = Some((g, 0)),
                    2 => {
                        b[goal_sq] = Some((g, 0));
                        b[if g { 56 + (7 - f) } else { 7 - f }] = Some((!g, 0));
                    }
                    3 => b[before] = Some((g, 2)), // no rabbits for g
                    4 => {
                        // immobilised: a lone rabbit frozen
                        b[before] = Some((g, 0));
                        if let Some(k) = nb(before, 1).or(nb(before, 3)) {
                            b[k] = Some((!g, 3));
                        }
                    }
                    _ => {
                        b[goal_sq] = Some((g, 0));
                        b[27] = Some((!g, 5));
                    }
                }
                if variant != 3 && variant != 2 && variant != 5 {
                    let k = if g { 31 } else { 32 };
                    if b[k].is_none() {
                        b[k] = Some((!g, 0));
                    }
                }
                out.push((b, true));
                out.push((b, false));
            }
        }
    }
    // deterministic thinning to `limit`
    if out.len() > limit {
        let mut sel = vec![];
        let n = out.len();
        for k in 0..limit {
            sel.push(out[(k * n) / limit]);
        }
        // plus a random handful so that different seeds see different members
        for _ in 0..limit / 10 {
            sel.push(out[rng.below(n)]);
        }
        out = sel;
    }
    out
}

/// `List<T>` API against a plain list: random operation sequences (new, append, tail, head, len, iter).
pub fn list_ops(rng: &mut Rng, n: usize, prop: &'static str, rep: &mut Report, sink: &mut Sink) {
    let mut l: List<u64> = List::new();
    sink.emit("L new", "ok");
    for _ in 0..n {
        rep.count("list-ops");
        match rng.below(8) {
            0 => {
                if rng.chance(1, 6) {
                    l = List::new();
                    sink.emit("L new", "ok");
                }
            }
            1 | 2 | 3 => {
                let x = rng.next() % 1000;
                l = l.append(x);
                sink.emit(&format!("L append {}", x), "ok");
            }
            4 => {
                l = l.tail();
                sink.emit("L tail", "ok");
            }
            5 => sink.emit("L head", &l.head().map_or("none".to_string(), |v| v.to_string())),
            6 => {
                sink.emit("L len", &l.len().to_string());
                sink.emit("L empty", if l.is_empty() { "1" } else { "0" });
            }
            _ => {
                let c = l.clone();
                let v: Vec<String> = c.iter().map(|x| x.to_string()).collect();
                sink.emit("L iter", &if v.is_empty() { "-".to_string() } else { v.join(",") });
                // the iterator adaptors the engine relies on (`filter(..).count()` runs on `fold`, not on `next`):
                // every one of them must agree with the elements `next()` yields
                let mut by_next: Vec<u64> = vec![];
                let mut it = c.iter();
                while let Some(x) = it.next() {
                    by_next.push(*x);
                }
                let probe = by_next.get(rng.below(by_next.len().max(1))).copied().unwrap_or(7);
                let oldest = by_next.last().copied();
                let k = rng.below(by_next.len() + 2);
                let bn = &by_next;
                let cr = &c;
                let checked = guard(|| {
                    let c = cr;
                    let by_next = bn;
                    let mut bad: Vec<String> = vec![];
                if c.iter().count() != by_next.len() {
                    bad.push(format!("count() = {} but next() yields {}", c.iter().count(), by_next.len()));
                }
                if c.len() != by_next.len() {
                    bad.push(format!("len() = {} but next() yields {}", c.len(), by_next.len()));
                }
                for want in [probe, oldest.unwrap_or(probe)] {
                    let a = c.iter().filter(|h| **h == want).count();
                    let b = by_next.iter().filter(|h| **h == want).count();
                    if a != b {
                        bad.push(format!("filter(== {}).count() = {} but {} of the elements next() yields match", want, a, b));
                    }
                }
                if c.iter().fold(0u64, |acc, x| acc.wrapping_mul(31).wrapping_add(*x)) != by_next.iter().fold(0u64, |acc, x| acc.wrapping_mul(31).wrapping_add(*x)) {
                    bad.push("fold differs from folding the elements next() yields".to_string());
                }
                if c.iter().last().copied() != oldest {
                    bad.push(format!("last() = {:?} but the last element next() yields is {:?}", c.iter().last(), oldest));
                }
                if c.iter().nth(k).copied() != by_next.get(k).copied() {
                    bad.push(format!("nth({}) = {:?}, next() yields {:?} there", k, c.iter().nth(k), by_next.get(k)));
                }
                if c.iter().any(|h| *h == probe) != by_next.contains(&probe) {
                    bad.push("any() differs".to_string());
                }
                let (lo, hi) = c.iter().size_hint();
                if lo > by_next.len() || hi.map_or(false, |h| h < by_next.len()) {
                    bad.push(format!("size_hint() = ({}, {:?}) excludes the real length {}", lo, hi, by_next.len()));
                }
                    bad
                });
                let bad: Vec<String> = match checked {
                    Some(b) => b,
                    None => vec!["an iterator adaptor (count / filter / fold / last / nth / any / size_hint) panics".to_string()],
                };
                rep.eval(prop);
                rep.nontriv(prop, by_next.len() as u64);
                if let Some(b) = bad.first() {
                    rep.fail_raw(prop, "history-iterator-adaptor-disagrees-with-next", format!("List {:?} (newest first)", by_next), vec![], b.clone());
                }
            }
        }
    }
}

/// Boxed-in positions: a fully occupied k x l block anchored in a corner (both colours mixed), a
/// few pieces elsewhere.  Exercises "no legal step" against pushes out of an enclosed position.
pub fn boxed_positions(rng: &mut Rng, n: usize) -> Vec<(B, bool)> {
    let mut out = vec![];
    let lim = [8u8, 2, 2, 2, 1, 1];
    for _ in 0..n {
        let mut b: B = [None; 64];
        let mut cnt = [[0u8; 6]; 2];
        let (k, l) = (2 + rng.below(2), 2 + rng.below(2));
        let corner = rng.below(4);
        for r in 0..k {
            for f in 0..l {
                let (rr, ff) = match corner {
                    0 => (r, f),
                    1 => (r, 7 - f),
                    2 => (7 - r, f),
                    _ => (7 - r, 7 - f),
                };
                let i = rr * 8 + ff;
                for _ in 0..6 {
                    let g = rng.chance(1, 2);
                    let t = [0usize, 0, 1, 2, 3, 4, 5, 1][rng.below(8)];
                    if cnt[g as usize][t] < lim[t] && !(t == 0 && (rr == 0 || rr == 7)) {
                        b[i] = Some((g, t as u8));
                        cnt[g as usize][t] += 1;
                        break;
                    }
                }
            }
        }
        // sometimes leave exactly one hole next to the block so that a push has room
        if rng.chance(1, 3) {
            let occ: Vec<usize> = (0..64).filter(|i| b[*i].is_some()).collect();
            if let Some(&i) = occ.get(rng.below(occ.len().max(1))) {
                if TRAPS.iter().all(|t| *t != i) {
                    let c = b[i].unwrap();
                    cnt[c.0 as usize][c.1 as usize] -= 1;
                    b[i] = None;
                }
            }
        }
        for g in [true, false] {
            if cnt[g as usize][0] == 0 || rng.chance(1, 2) {
                for _ in 0..10 {
                    let i = 16 + rng.below(32);
                    if b[i].is_none() && !TRAPS.contains(&i) && (0..4).all(|d| nb(i, d).map_or(true, |j| b[j].is_none())) {
                        b[i] = Some((g, 0));
                        break;
                    }
                }
            }
        }
        let s0 = b;
        for t in TRAPS {
            if let Some((g, _)) = s0[t] {
                if !friend(&s0, t, g) {
                    b[t] = None;
                }
            }
        }
        out.push((b, rng.chance(1, 2)));
    }
    out
}

/// Scripted double captures in one trap: a piece of type `t1` standing on a trap loses its only
/// supporter, then a piece of type `t2` of the same colour walks onto the same trap unsupported.
/// (A stale bit left by the first capture would re-type or mis-preview the second.)
pub fn double_capture_scripts() -> Vec<(B, bool, Vec<(usize, usize)>)> {
    let mut out = vec![];
    for &t in TRAPS.iter() {
        for g in [true, false] {
            for t1 in 0..6u8 {
                for t2 in 1..6u8 {
                    for d1 in 0..4 {
                        let d2 = (d1 + 1) % 4;
                        let (Some(sup), Some(mid)) = (nb(t, d1), nb(t, d2)) else { continue };
                        let Some(far) = nb(mid, d2) else { continue };
                        // the supporter steps straight away from the trap
                        let Some(sup_to) = nb(sup, d1) else { continue };
                        let mut b: B = [None; 64];
                        // rabbits cannot step backward: choose a supporter type that may move in d1
                        let sup_type = if (g && d1 == 2) || (!g && d1 == 0) { 1 } else { 0 };
                        if t1 == 0 && (t / 8 == 0 || t / 8 == 7) {
                            continue;
                        }
                        b[t] = Some((g, t1));
                        b[sup] = Some((g, sup_type));
                        if t2 == t1 && (t1 == 4 || t1 == 5) {
                            continue; // one camel / elephant per side
                        }
                        b[far] = Some((g, t2));
                        // rabbits so that the game goes on
                        for gg in [true, false] {
                            if !b.iter().any(|c| *c == Some((gg, 0))) {
                                let k = if gg { 32 } else { 31 };
                                if b[k].is_none() {
                                    b[k] = Some((gg, 0));
                                }
                            }
                        }
                        let _ = sup_to;
                        out.push((b, g, vec![(sup, d1), (far, (d2 + 2) % 4), (mid, (d2 + 2) % 4)]));
                    }
                }
            }
        }
    }
    out
}

/// Dense little battles around one trap: 4-8 pieces of both colours on the trap, its neighbours and
/// their neighbours (a piece on the trap with exactly one supporter more often than not, enemy
/// pieces of different strength side by side), plus a rabbit of each colour far away so that the
/// game goes on.  Meant for exhaustive turn trees: captures, pushes and pulls off and onto the
/// trap square, and their conjunctions within one turn, are a few steps away from every start.
pub fn trap_clusters(rng: &mut Rng, n: usize) -> Vec<(B, bool)> {
    trap_clusters_with(rng, n, [8u8, 2, 2, 2, 1, 1])
}

/// the same with other material limits (more than one camel or elephant per side: parseable and
/// constructible, although no game from the initial position gets there)
pub fn trap_clusters_with(rng: &mut Rng, n: usize, lim: [u8; 6]) -> Vec<(B, bool)> {
    let mut out = vec![];
    let mut tries = 0;
    while out.len() < n && tries < n * 20 {
        tries += 1;
        let t = TRAPS[rng.below(4)];
        let (tr, tf) = ((t / 8) as i32, (t % 8) as i32);
        // squares at distance <= 2 from the trap, nearer ones listed more often
        let mut near: Vec<usize> = vec![];
        for dr in -2i32..=2 {
            for df in -2i32..=2 {
                let (r, f) = (tr + dr, tf + df);
                if !(0..8).contains(&r) || !(0..8).contains(&f) {
                    continue;
                }
                let dist = dr.abs() + df.abs();
                if dist > 2 {
                    continue;
                }
                let sq = (r * 8 + f) as usize;
                for _ in 0..(3 - dist) {
                    near.push(sq);
                }
            }
        }
        let mut b: B = [None; 64];
        let mut cnt = [[0u8; 6]; 2];
        let k = 4 + rng.below(5);
        let mut placed = 0;
        let mut guard_iter = 0;
        while placed < k && guard_iter < 200 {
            guard_iter += 1;
            let sq = *rng.pick(&near);
            if b[sq].is_some() {
                continue;
            }
            let g = rng.chance(1, 2);
            let ty = *rng.pick(&[0u8, 0, 1, 1, 2, 2, 3, 3, 4, 5]);
            if cnt[g as usize][ty as usize] >= lim[ty as usize] {
                continue;
            }
            // no rabbit on its own goal rank (the game would be over before the first step)
            if ty == 0 && ((g && sq / 8 == 0) || (!g && sq / 8 == 7)) {
                continue;
            }
            b[sq] = Some((g, ty));
            cnt[g as usize][ty as usize] += 1;
            placed += 1;
        }
        // a rabbit of each colour far from the trap, off the goal ranks
        for g in [true, false] {
            if cnt[g as usize][0] == 0 {
                let far: Vec<usize> = (8..56).filter(|s| b[*s].is_none() && ((*s / 8) as i32 - tr).abs() + ((*s % 8) as i32 - tf).abs() >= 4).collect();
                if !far.is_empty() {
                    b[*rng.pick(&far)] = Some((g, 0));
                }
            }
        }
        if !no_hanging(&b) {
            continue;
        }
        out.push((b, rng.chance(1, 2)));
    }
    out
}

/// Edge clusters (fourth round): little battles on the a- and h-files in which a raw (unmasked) horizontal
/// shift would see a phantom neighbour across the board edge.  For every edge square `e`, an enemy victim
/// next to it, a free friendly pusher next to the victim, a friendly candidate ON the edge square that is
/// frozen by a stronger enemy (or not), and a friendly "phantom supporter" on the wrap square (h(r+1) for
/// a(r), a(r-1) for h(r)).  Walked as turn trees, so every pending push and every pull out of them is seen.
pub fn edge_clusters(rng: &mut Rng) -> Vec<(B, bool)> {
    let mut out = vec![];
    for r in 1..7usize {
        for &f in &[0usize, 7] {
            let e = r * 8 + f;
            let wrap = if f == 0 { e - 1 } else { e + 1 };
            let inward = if f == 0 { e + 1 } else { e - 1 };
            for gold in [true, false] {
                for &(victim_at, freezer_at) in &[(inward, e - 8), (inward, e + 8), (e - 8, e + 8), (e + 8, e - 8), (e - 8, inward), (e + 8, inward)] {
                    for variant in 0..4 {
                        let mut b: B = [None; 64];
                        // candidate on the edge square, stronger than the victim
                        b[e] = Some((gold, 3));
                        b[victim_at] = Some((!gold, 1));
                        if variant != 1 {
                            b[freezer_at] = Some((!gold, 5)); // freezes the candidate
                        }
                        if variant != 2 {
                            b[wrap] = Some((gold, if variant == 3 { 0 } else { 2 })); // phantom supporter
                        }
                        // a genuinely free pusher next to the victim (not the candidate's square)
                        let mut placed = false;
                        for d in 0..4 {
                            if let Some(k) = nb(victim_at, d) {
                                if b[k].is_none() && k != e && !TRAPS.contains(&k) && (0..4).all(|d2| nb(k, d2).map_or(true, |n| b[n].map_or(true, |(g, st)| g == gold || st <= 4))) {
                                    b[k] = Some((gold, 4));
                                    placed = true;
                                    break;
                                }
                            }
                        }
                        if !placed {
                            continue;
                        }
                        for g in [true, false] {
                            if !b.iter().any(|c| *c == Some((g, 0))) {
                                for _ in 0..30 {
                                    let k = 16 + rng.below(32);
                                    if b[k].is_none() && !TRAPS.contains(&k) && (0..4).all(|d2| nb(k, d2).map_or(true, |n| b[n].is_none())) {
                                        b[k] = Some((g, 0));
                                        break;
                                    }
                                }
                            }
                        }
                        let s0 = b;
                        for t in TRAPS {
                            if let Some((g, _)) = s0[t] {
                                if !friend(&s0, t, g) {
                                    b[t] = None;
                                }
                            }
                        }
                        out.push((b, gold));
                    }
                }
            }
        }
    }
    out
}


/// Immobilised sides (fifth round): the side to move owns only a few pieces, each standing on the rim (a- / h-file,
/// first / last rank, corners) with EVERY neighbour occupied by an enemy piece it cannot push (equal strength: the
/// piece is unfrozen and boxed in; stronger: frozen), its rabbit blocked in front and on both sides.  The side has
/// no step, so the turn-start result must be a loss although no goal or rabbit count decides; a summary query that
/// looks at neighbours with an unmasked shift sees a phantom empty square across the board edge here.  A few
/// enemy pieces elsewhere vary what stands on those wrap-around squares.
pub fn immobilised_edges(rng: &mut Rng, n: usize) -> Vec<(B, bool)> {
    let mut out = vec![];
    let lim = [8u8, 2, 2, 2, 1, 1];
    let rim: Vec<usize> = (0..64).filter(|i| i % 8 == 0 || i % 8 == 7 || i / 8 == 0 || i / 8 == 7).collect();
    'outer: for k in 0..n {
        let side = rng.chance(1, 2);
        let mut b: B = [None; 64];
        let mut cnt = [[0u8; 6]; 2];
        let mut mine: Vec<usize> = vec![];
        // one or two officers on the rim, then the rabbit
        let officers = 1 + rng.below(2);
        for j in 0..=officers {
            let is_rabbit = j == officers;
            let t: usize = if is_rabbit { 0 } else { 1 + rng.below(4) };
            if cnt[side as usize][t] >= lim[t] {
                continue;
            }
            let mut sq = None;
            for _ in 0..40 {
                let e = if k % 3 == 0 { [0usize, 7, 56, 63][rng.below(4)] } else { *rng.pick(&rim) };
                let goal_row = if side { 0 } else { 7 };
                let home_row = 7 - goal_row;
                if b[e].is_some() || TRAPS.contains(&e) || (is_rabbit && (e / 8 == goal_row || e / 8 == home_row && rng.chance(1, 2))) {
                    continue;
                }
                // not next to one of my own pieces (it would support it)
                if (0..4).any(|d| nb(e, d).map_or(false, |x| mine.contains(&x))) {
                    continue;
                }
                sq = Some(e);
                break;
            }
            let Some(e) = sq else { continue 'outer };
            b[e] = Some((side, t as u8));
            cnt[side as usize][t] += 1;
            mine.push(e);
            let equal_first = rng.chance(1, 2);
            for d in 0..4 {
                // a rabbit never steps backwards: leave the square behind it alone half of the time
                let backwards = if side { 2 } else { 0 };
                if is_rabbit && d == backwards && rng.chance(1, 2) {
                    continue;
                }
                let Some(x) = nb(e, d) else { continue };
                if b[x].is_some() {
                    continue;
                }
                let mut choices: Vec<usize> = (t.max(if is_rabbit { 0 } else { t })..6).filter(|&u| cnt[!side as usize][u] < lim[u]).collect();
                if is_rabbit && rng.chance(1, 2) {
                    choices.retain(|&u| u == 0 || cnt[!side as usize][0] >= lim[0]);
                }
                if choices.is_empty() {
                    continue 'outer;
                }
                // enemy rabbits may not stand on their own goal/home rows arbitrarily; any square is legal for them but
                // one on ITS goal row would end the game by goal: avoid
                let enemy_goal_row = if side { 7 } else { 0 };
                choices.retain(|&u| !(u == 0 && x / 8 == enemy_goal_row));
                if choices.is_empty() {
                    continue 'outer;
                }
                let u = if equal_first && choices.contains(&t) { t } else { *rng.pick(&choices) };
                b[x] = Some((!side, u as u8));
                cnt[!side as usize][u] += 1;
            }
        }
        if cnt[side as usize][0] == 0 {
            continue;
        }
        // the opponent needs a rabbit as well, and a few pieces elsewhere
        let extra = rng.below(4) + if cnt[!side as usize][0] == 0 { 1 } else { 0 };
        for j in 0..extra {
            let u = if j == 0 && cnt[!side as usize][0] == 0 { 0 } else { *rng.pick(&[0usize, 0, 1, 2, 3]) };
            if cnt[!side as usize][u] >= lim[u] {
                continue;
            }
            for _ in 0..20 {
                let x = rng.below(64);
                let enemy_goal_row = if side { 7 } else { 0 };
                if b[x].is_none() && !TRAPS.contains(&x) && !(u == 0 && (x / 8 == enemy_goal_row)) {
                    b[x] = Some((!side, u as u8));
                    cnt[!side as usize][u] += 1;
                    break;
                }
            }
        }
        let s0 = b;
        for t in TRAPS {
            if let Some((g, _)) = s0[t] {
                if !friend(&s0, t, g) {
                    b[t] = None;
                }
            }
        }
        out.push((b, side));
    }
    out
}
