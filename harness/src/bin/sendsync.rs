//! C18: (a) a client program that requires Send + Sync of every public value type — rustc is the
//! judge; (b) concurrent expansion of shared states compared with sequential expansion.
//!
//! The reference ("sequential expansion") of a query on a state is its value on a freshly built,
//! never queried twin of that state, computed on a brand-new thread — one twin and one thread per
//! query, so that nothing computed earlier (inside the state, in the thread, in the process) can
//! have influenced it.  The workers then query SHARED states on long-lived threads, every worker in
//! its own order of states and its own order of queries, with families of look-alike states
//! (same squares occupied but another piece type, other side to move, other history, other step)
//! visited back to back.  Any memo that is filled by one query and read by another, keyed on part
//! of a state, or raced at first use shows as a difference from the reference.
//!
//! sendsync <seed> <threads> <states>
#[path = "../enc.rs"]
#[allow(dead_code)]
mod enc;
#[path = "../util.rs"]
#[allow(dead_code)]
mod util;

use arimaa_engine_step::*;
use enc::*;
use std::sync::atomic::{AtomicUsize, Ordering};
use util::*;

fn assert_send_sync<T: Send + Sync>() {}

fn client_requires_send_sync() {
    assert_send_sync::<GameState>();
    assert_send_sync::<PieceBoardState>();
    assert_send_sync::<PieceBoard>();
    assert_send_sync::<PlayPhase>();
    assert_send_sync::<Phase>();
    assert_send_sync::<PushPullState>();
    assert_send_sync::<Action>();
    assert_send_sync::<Square>();
    assert_send_sync::<Piece>();
    assert_send_sync::<Direction>();
    assert_send_sync::<Zobrist>();
    assert_send_sync::<List<Zobrist>>();
    assert_send_sync::<Terminal>();
}

/// how to build a state from nothing: a start text (empty = `GameState::initial()`) and actions
#[derive(Clone)]
struct Recipe {
    start: String,
    path: Vec<Action>,
}

impl Recipe {
    fn build(&self) -> GameState {
        let mut s: GameState = if self.start.is_empty() { GameState::initial() } else { self.start.parse().expect("recipe start") };
        for a in &self.path {
            s = s.take_action(a);
        }
        s
    }
}

const NQ: usize = 9;

fn sorted(v: Vec<Action>) -> String {
    let mut w: Vec<String> = v.iter().map(enc_action).collect();
    w.sort();
    w.join(",")
}

/// the k-th query of an expander, as text
fn query(s: &GameState, k: usize) -> String {
    match k {
        0 => sorted(s.valid_actions()),
        1 => sorted(s.valid_actions_no_rep()),
        2 => term_str(&s.is_terminal()).to_string(),
        3 => format!("{}", s.can_pass(false)),
        4 => format!("{}", s.can_pass(true)),
        5 => term_str(&s.has_move(s.piece_board())).to_string(),
        6 => format!("{:016x}", s.transposition_hash()),
        7 => {
            // successors through the offered list
            let mut out = String::new();
            for a in s.valid_actions() {
                let n = s.take_action(&a);
                out.push_str(&format!("|{}>{}", enc_action(&a), enc_state(&n, 0)));
                out.push_str(term_str(&n.is_terminal()));
                let c = n.clone();
                out.push_str(&format!("{:x}", c.transposition_hash()));
                drop(c);
            }
            out
        }
        _ => {
            // successors through the rule-only list, their own lists, previews, printing
            let mut out = format!("{}", s);
            for a in s.valid_actions_no_rep() {
                out.push_str(&format!("|{:?}", s.trapped_animal_for_action(&a).map(|(q, p, g)| (q.index(), piece_letter(p), g))));
                let n = s.take_action(&a);
                out.push_str(&sorted(n.valid_actions()));
            }
            out
        }
    }
}

/// value of every query on a never-queried twin, each on its own new thread
fn reference(r: &Recipe) -> Vec<String> {
    (0..NQ)
        .map(|k| {
            let rr = r.clone();
            std::thread::spawn(move || query(&rr.build(), k)).join().expect("reference thread")
        })
        .collect()
}

fn perm(seed: usize) -> [usize; NQ] {
    let mut p = [0usize; NQ];
    for (i, x) in p.iter_mut().enumerate() {
        *x = i;
    }
    let mut z = seed as u64 ^ 0x9E3779B97F4A7C15;
    for i in (1..NQ).rev() {
        z = z.wrapping_mul(6364136223846793005).wrapping_add(1442695040888963407);
        let j = (z >> 33) as usize % (i + 1);
        p.swap(i, j);
    }
    p
}

fn diagram_of(s: &GameState) -> String {
    format!("{}", s)
}

/// look-alikes of a play-phase state: same squares occupied with one piece of another type (same
/// colour), the other side to move, another move number; the same board after a detour (other
/// history); the states one step into the turn (other step / pending status)
fn family(base: &Recipe, rng: &mut Rng) -> Vec<Recipe> {
    let s = base.build();
    let mut out = vec![base.clone()];
    if !s.is_play_phase() || s.current_step() != 0 {
        return out;
    }
    let text = diagram_of(&s);
    let lines: Vec<&str> = text.lines().collect();
    // retype one piece (keep the case = colour); reject what does not parse
    let letters = ['e', 'm', 'h', 'd', 'c', 'r'];
    let cells: Vec<(usize, usize, char)> = lines
        .iter()
        .enumerate()
        .skip(2)
        .take(8)
        .flat_map(|(li, l)| l.char_indices().filter(|(ci, c)| *ci >= 2 && c.is_ascii_alphabetic() && *c != 'x').map(move |(ci, c)| (li, ci, c)).collect::<Vec<_>>())
        .collect();
    for _ in 0..3 {
        if cells.is_empty() {
            break;
        }
        let (li, ci, c) = *rng.pick(&cells);
        let nl = *rng.pick(&letters);
        let nc = if c.is_ascii_uppercase() { nl.to_ascii_uppercase() } else { nl };
        if nc == c {
            continue;
        }
        let mut ls: Vec<String> = lines.iter().map(|x| x.to_string()).collect();
        ls[li].replace_range(ci..ci + 1, &nc.to_string());
        let t = ls.join("\n") + "\n";
        if t.parse::<GameState>().is_ok() {
            out.push(Recipe { start: t, path: vec![] });
        }
    }
    // the same diagram parsed (no history), other side to move, other move number
    out.push(Recipe { start: text.clone(), path: vec![] });
    let head = lines[0].to_string();
    let (num, side) = head.split_at(head.len() - 1);
    let other = if side == "g" { "s" } else { "g" };
    for h in [format!("{}{}", num, other), format!("{}{}", num.parse::<usize>().unwrap_or(1) + 1, side)] {
        let t = std::iter::once(h.as_str()).chain(lines.iter().skip(1).cloned()).collect::<Vec<_>>().join("\n") + "\n";
        if t.parse::<GameState>().is_ok() {
            out.push(Recipe { start: t, path: vec![] });
        }
    }
    // one and two steps into the turn, and the detour "step, pass, <opponent: step, pass>" where possible
    let va = s.valid_actions();
    let moves: Vec<Action> = va.iter().cloned().filter(|a| matches!(a, Action::Move(_, _))).collect();
    for _ in 0..2 {
        if moves.is_empty() {
            break;
        }
        let a = *rng.pick(&moves);
        let mut p = base.path.clone();
        p.push(a);
        let r1 = Recipe { start: base.start.clone(), path: p.clone() };
        let s1 = r1.build();
        out.push(r1);
        let va1 = s1.valid_actions();
        if !va1.is_empty() {
            let b = *rng.pick(&va1);
            p.push(b);
            out.push(Recipe { start: base.start.clone(), path: p });
        }
    }
    out
}

fn main() {
    client_requires_send_sync();
    let argv: Vec<String> = std::env::args().collect();
    let seed: u64 = argv.get(1).and_then(|x| x.parse().ok()).unwrap_or(0);
    let threads: usize = argv.get(2).and_then(|x| x.parse().ok()).unwrap_or(8);
    let nstates: usize = argv.get(3).and_then(|x| x.parse().ok()).unwrap_or(300);
    let mut rng = Rng::new(seed);
    // recipes from random playouts (a shared history list behind every state), some of them with
    // repetition-rich histories (steps undone on the next turn)
    let mut recipes: Vec<Recipe> = vec![];
    while recipes.len() < nstates {
        let mut s = GameState::initial();
        let mut path: Vec<Action> = vec![];
        let shuttle = rng.chance(1, 3);
        let mut last_own: [Option<Action>; 2] = [None, None];
        for _ in 0..(32 + rng.below(120)) {
            if s.is_terminal().is_some() {
                break;
            }
            let va = s.valid_actions();
            if va.is_empty() {
                break;
            }
            let side = s.is_p1_turn_to_move() as usize;
            let mut a = *rng.pick(&va);
            if shuttle && s.is_play_phase() {
                if s.current_step() >= 1 && va.contains(&Action::Pass) {
                    a = Action::Pass;
                } else if let Some(Action::Move(q, d)) = last_own[side] {
                    // undo the previous own step if it is offered
                    let (dn, back) = match d {
                        Direction::Up => (-8i32, Direction::Down),
                        Direction::Down => (8, Direction::Up),
                        Direction::Left => (-1, Direction::Right),
                        Direction::Right => (1, Direction::Left),
                    };
                    let to = q.index() as i32 + dn;
                    if (0..64).contains(&to) {
                        let u = Action::Move(Square::from_index(to as u8), back);
                        if va.contains(&u) {
                            a = u;
                        }
                    }
                }
                if let Action::Move(_, _) = a {
                    last_own[side] = Some(a);
                }
            }
            s = s.take_action(&a);
            path.push(a);
            if rng.chance(1, 6) {
                recipes.push(Recipe { start: String::new(), path: path.clone() });
            }
        }
    }
    recipes.truncate(nstates);
    // families of look-alikes for a quarter of them, kept adjacent
    let mut all: Vec<Recipe> = vec![];
    for (i, r) in recipes.iter().enumerate() {
        if i % 4 == 0 {
            all.extend(family(r, &mut rng));
        } else {
            all.push(r.clone());
        }
    }
    let refs: Vec<Vec<String>> = all.iter().map(reference).collect();
    // the shared states: built once, never queried before the workers start
    let states: Vec<GameState> = all.iter().map(|r| r.build()).collect();
    let mismatches = AtomicUsize::new(0);
    let expansions = AtomicUsize::new(0);
    let first_bad: std::sync::Mutex<Option<String>> = std::sync::Mutex::new(None);
    let shared = &states;
    let rf = &refs;
    let recs = &all;
    std::thread::scope(|sc| {
        for t in 0..threads {
            let mism = &mismatches;
            let exps = &expansions;
            let fb = &first_bad;
            sc.spawn(move || {
                let n = shared.len();
                for k in 0..n {
                    // even workers walk the vector in order (families back to back, from different offsets),
                    // odd workers with their own stride
                    let i = if t % 2 == 0 { (k + t * n / threads.max(1)) % n } else { (k * (2 * t + 1) + t * 7) % n };
                    for q in perm(t * 1_000_003 + k) {
                        let got = query(&shared[i], q);
                        exps.fetch_add(1, Ordering::Relaxed);
                        if got != rf[i][q] {
                            mism.fetch_add(1, Ordering::Relaxed);
                            let mut g = fb.lock().unwrap();
                            if g.is_none() {
                                *g = Some(format!(
                                    "worker {} query {} on shared state {} (start {:?}, {} actions: {}) gave\n  {}\nfresh twin on a new thread gave\n  {}",
                                    t,
                                    q,
                                    i,
                                    recs[i].start,
                                    recs[i].path.len(),
                                    recs[i].path.iter().map(enc_action).collect::<Vec<_>>().join(" "),
                                    &got[..got.len().min(400)],
                                    &rf[i][q][..rf[i][q].len().min(400)]
                                ));
                            }
                        }
                    }
                    // clone and drop the shared state (touches the Arc counts of the history)
                    let c = shared[i].clone();
                    drop(c);
                }
            });
        }
    });
    // simultaneous FIRST queries on freshly built states (a lazily initialised cache would be raced here):
    // every round builds a fresh state, all threads wait at a barrier and then query it at once,
    // each thread starting with a different query.
    let immobilised = [
        "7g\n +-----------------+\n8|               r |\n7|                 |\n6|     x     x     |\n5|                 |\n4|                 |\n3|     x     x     |\n2| c               |\n1| R c             |\n +-----------------+\n   a b c d e f g h\n",
        "7s\n +-----------------+\n8| r D             |\n7| D               |\n6|     x     x     |\n5|                 |\n4|                 |\n3|     x     x     |\n2|                 |\n1|               R |\n +-----------------+\n   a b c d e f g h\n",
    ];
    let rounds = nstates.max(200) * 2;
    let race_mismatch = AtomicUsize::new(0);
    for r in 0..rounds {
        let (fresh, expect): (GameState, Vec<String>) = if r % 2 == 0 {
            let rec = Recipe { start: immobilised[(r / 2) % 2].to_string(), path: vec![] };
            (rec.build(), (0..7).map(|k| query(&rec.build(), k)).collect())
        } else {
            let i = r % all.len();
            (all[i].build(), refs[i][..7].to_vec())
        };
        let barrier = std::sync::Barrier::new(threads);
        let fr = &fresh;
        let ex = &expect;
        let rm = &race_mismatch;
        let exps = &expansions;
        let fb = &first_bad;
        std::thread::scope(|sc| {
            for t in 0..threads {
                let b = &barrier;
                sc.spawn(move || {
                    b.wait();
                    for j in 0..7 {
                        let q = (j + t) % 7;
                        let got = query(fr, q);
                        exps.fetch_add(1, Ordering::Relaxed);
                        if got != ex[q] {
                            rm.fetch_add(1, Ordering::Relaxed);
                            let mut g = fb.lock().unwrap();
                            if g.is_none() {
                                *g = Some(format!("simultaneous first queries, round {}: query {} gave {} but a fresh twin gives {}", r, q, got, ex[q]));
                            }
                        }
                    }
                });
            }
        });
    }
    mismatches.fetch_add(race_mismatch.load(Ordering::Relaxed), Ordering::Relaxed);
    // Families derived from ONE parent object: the children (and a grandchild each) are made with
    // `take_action` from the same parent value, so whatever a successor shares with its parent or its
    // siblings beyond the immutable history is shared here.  Three instances per parent are queried in
    // different orders (captures first / last / rotated), all threads at once, and every answer is
    // compared with the fresh twin built by replay.
    let fam_mismatch = AtomicUsize::new(0);
    let mut families = 0usize;
    for (ri, r) in recipes.iter().enumerate() {
        if ri % 5 != 2 || families >= 60 {
            continue;
        }
        let probe = r.build();
        if !probe.is_play_phase() {
            continue;
        }
        let before = probe.piece_board().all_pieces.count_ones();
        let mut acts: Vec<(Action, bool)> = probe.valid_actions_no_rep().into_iter().map(|a| (a, probe.take_action(&a).piece_board().all_pieces.count_ones() < before)).collect();
        acts.sort_by_key(|(_, cap)| !*cap);
        acts.truncate(8);
        if acts.is_empty() {
            continue;
        }
        // references once per member
        let mut member_recipes: Vec<Recipe> = vec![];
        for (a, _) in &acts {
            let mut p = r.path.clone();
            p.push(*a);
            let child = Recipe { start: r.start.clone(), path: p.clone() };
            let cs = child.build();
            member_recipes.push(child);
            if let Some(a2) = cs.valid_actions_no_rep().first() {
                let mut p2 = p.clone();
                p2.push(*a2);
                member_recipes.push(Recipe { start: r.start.clone(), path: p2 });
            }
        }
        member_recipes.push(r.clone());
        let member_refs: Vec<Vec<String>> = member_recipes.iter().map(reference).collect();
        families += 1;
        for inst in 0..3usize {
            // objects derived from one parent value
            let parent = r.build();
            let mut objs: Vec<GameState> = vec![];
            for (a, _) in &acts {
                let c = parent.take_action(a);
                let gc = c.valid_actions_no_rep().first().map(|a2| c.take_action(a2));
                // `c` was queried for its first action just now in instance 0 only; the other instances
                // take the grandchild action from the recipe instead, so that `c` stays unqueried
                objs.push(c);
                if let Some(g) = gc {
                    objs.push(g);
                }
            }
            if inst > 0 {
                // rebuild without querying the children: replay the recorded grandchild actions
                objs.clear();
                let mut k = 0;
                for (a, _) in &acts {
                    let c = parent.take_action(a);
                    k += 1;
                    let gc = if k < member_recipes.len() && member_recipes[k].path.len() == r.path.len() + 2 {
                        let a2 = *member_recipes[k].path.last().unwrap();
                        k += 1;
                        Some(c.take_action(&a2))
                    } else {
                        None
                    };
                    objs.push(c);
                    if let Some(g) = gc {
                        objs.push(g);
                    }
                }
            }
            objs.push(parent);
            if objs.len() != member_refs.len() {
                continue;
            }
            let n = objs.len();
            let order: Vec<usize> = match inst {
                0 => (0..n).collect(),
                1 => (0..n).rev().collect(),
                _ => (0..n).map(|i| (i * 5 + 3) % n).collect::<std::collections::BTreeSet<_>>().into_iter().chain(0..n).collect::<Vec<_>>(),
            };
            let barrier = std::sync::Barrier::new(threads);
            let ob = &objs;
            let mr = &member_refs;
            let fm = &fam_mismatch;
            let exps = &expansions;
            let fb = &first_bad;
            let ord = &order;
            let mrec = &member_recipes;
            std::thread::scope(|sc| {
                for t in 0..threads {
                    let b = &barrier;
                    sc.spawn(move || {
                        b.wait();
                        for j in 0..ord.len() {
                            let i = ord[(j + t * 3) % ord.len()] % n;
                            for q in perm(t * 7919 + j + inst) {
                                let got = query(&ob[i], q);
                                exps.fetch_add(1, Ordering::Relaxed);
                                if got != mr[i][q] {
                                    fm.fetch_add(1, Ordering::Relaxed);
                                    let mut g = fb.lock().unwrap();
                                    if g.is_none() {
                                        *g = Some(format!(
                                            "family of one parent object, instance {}: query {} on the state after [{}] (start {:?}) gave\n  {}\na fresh twin gives\n  {}",
                                            inst,
                                            q,
                                            mrec[i].path.iter().map(enc_action).collect::<Vec<_>>().join(" "),
                                            mrec[i].start,
                                            &got[..got.len().min(300)],
                                            &mr[i][q][..mr[i][q].len().min(300)]
                                        ));
                                    }
                                }
                            }
                        }
                    });
                }
            });
        }
    }
    mismatches.fetch_add(fam_mismatch.load(Ordering::Relaxed), Ordering::Relaxed);
    // clone racing with the FIRST expansion of a fresh state: one thread expands child i in place, another clones it
    // at the same moment (lock step through two progress counters); every copy must afterwards answer like a fresh twin.
    // (A state that publishes lazily computed data and a Clone that copies it field by field can tear here.)
    let clone_rounds: usize = argv.get(4).and_then(|x| x.parse().ok()).unwrap_or(40);
    let mut clone_races = 0usize;
    let mut clone_bad = 0usize;
    for round in 0..clone_rounds {
        let mut parents: Vec<(usize, Action)> = vec![];
        for (i, s) in states.iter().enumerate() {
            if (i + round) % 3 == 0 {
                for a in s.valid_actions_no_rep() {
                    parents.push((i, a));
                }
            }
        }
        let children: Vec<GameState> = parents.iter().map(|(i, a)| states[*i].take_action(a)).collect();
        let n = children.len();
        let pa = AtomicUsize::new(0);
        let pb = AtomicUsize::new(0);
        let ch = &children;
        let copies: Vec<GameState> = std::thread::scope(|sc| {
            let (pa1, pb1) = (&pa, &pb);
            sc.spawn(move || {
                for i in 0..n {
                    pa1.store(i + 1, Ordering::Release);
                    while pb1.load(Ordering::Acquire) < i + 1 {
                        std::hint::spin_loop();
                    }
                    std::hint::black_box(ch[i].valid_actions());
                }
            });
            let (pa2, pb2) = (&pa, &pb);
            let h = sc.spawn(move || {
                let mut out = Vec::with_capacity(n);
                for i in 0..n {
                    pb2.store(i + 1, Ordering::Release);
                    while pa2.load(Ordering::Acquire) < i + 1 {
                        std::hint::spin_loop();
                    }
                    // a few spins so that the clone falls into the middle of the expansion, not before it
                    for _ in 0..(i % 7) * 8 {
                        std::hint::spin_loop();
                    }
                    out.push(ch[i].clone());
                }
                out
            });
            h.join().expect("cloning thread")
        });
        clone_races += n;
        for (k, c) in copies.iter().enumerate() {
            let (i, a) = &parents[k];
            let twin = states[*i].take_action(a);
            if sorted(c.valid_actions()) != sorted(twin.valid_actions()) || term_str(&c.is_terminal()) != term_str(&twin.is_terminal()) {
                clone_bad += 1;
                let mut g = first_bad.lock().unwrap();
                if g.is_none() {
                    *g = Some(format!(
                        "a clone taken while another thread expanded the state for the first time answers differently from a fresh twin: state after [{} {}] offers [{}] / {}, the twin [{}] / {}",
                        all[*i].path.iter().map(enc_action).collect::<Vec<_>>().join(" "),
                        enc_action(a),
                        sorted(c.valid_actions()),
                        term_str(&c.is_terminal()),
                        sorted(twin.valid_actions()),
                        term_str(&twin.is_terminal())
                    ));
                }
            }
        }
    }
    expansions.fetch_add(clone_races, Ordering::Relaxed);
    mismatches.fetch_add(clone_bad, Ordering::Relaxed);
    // the shared states are unchanged afterwards
    let mut changed = 0;
    for (i, s) in states.iter().enumerate() {
        for q in 0..NQ {
            if query(s, q) != refs[i][q] {
                changed += 1;
                break;
            }
        }
    }
    if let Some(m) = first_bad.lock().unwrap().as_ref() {
        eprintln!("{}", m);
    }
    println!(
        "{{\"threads\": {}, \"states\": {}, \"clone_races\": {}, \"expansions\": {}, \"mismatches\": {}, \"changed_after\": {}}}",
        threads,
        states.len(),
        clone_races,
        expansions.load(Ordering::Relaxed),
        mismatches.load(Ordering::Relaxed),
        changed
    );
    let bad = mismatches.load(Ordering::Relaxed) + changed;
    std::process::exit(if bad == 0 { 0 } else { 1 });
}
