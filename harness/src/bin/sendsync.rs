//! C18: (a) a client program that requires Send + Sync of every public value type — rustc is the
//! judge; (b) concurrent expansion of shared states compared with sequential expansion.
//!
//! sendsync <seed> <threads> <states>
#[path = "../enc.rs"]
#[allow(dead_code)]
mod enc;
#[path = "../util.rs"]
#[allow(dead_code)]
mod util;

use arimaa_engine_step::*;
use enc::*;
use util::*;

fn assert_send_sync<T: Send + Sync>() {}

fn client_requires_send_sync() {
    assert_send_sync::<GameState>();
    assert_send_sync::<PieceBoardState>();
    assert_send_sync::<PieceBoard>();
    assert_send_sync::<PlayPhase>();
    assert_send_sync::<Phase>();
    assert_send_sync::<PushPullState>();
    assert_send_sync::<Action>();
    assert_send_sync::<Square>();
    assert_send_sync::<Piece>();
    assert_send_sync::<Direction>();
    assert_send_sync::<Zobrist>();
    assert_send_sync::<List<Zobrist>>();
    assert_send_sync::<Terminal>();
}

/// Everything an expander observes of one state, as text.
fn expand(s: &GameState) -> String {
    let mut out = observe(s);
    for a in s.valid_actions() {
        let n = s.take_action(&a);
        out.push_str(&format!("|{}>{}", enc_action(&a), enc_state(&n, 0)));
        out.push_str(term_str(&n.is_terminal()));
        let c = n.clone();
        out.push_str(&format!("{:x}", c.transposition_hash()));
        drop(c);
    }
    out
}

fn main() {
    client_requires_send_sync();
    let argv: Vec<String> = std::env::args().collect();
    let seed: u64 = argv.get(1).and_then(|x| x.parse().ok()).unwrap_or(0);
    let threads: usize = argv.get(2).and_then(|x| x.parse().ok()).unwrap_or(8);
    let nstates: usize = argv.get(3).and_then(|x| x.parse().ok()).unwrap_or(300);
    let mut rng = Rng::new(seed);
    // states from random playouts (a shared history list behind every one of them)
    let mut states: Vec<GameState> = vec![];
    while states.len() < nstates {
        let mut s = GameState::initial();
        for _ in 0..(32 + rng.below(120)) {
            if s.is_terminal().is_some() {
                break;
            }
            let va = s.valid_actions();
            if va.is_empty() {
                break;
            }
            s = s.take_action(rng.pick(&va));
            if rng.chance(1, 6) {
                states.push(s.clone());
            }
        }
    }
    states.truncate(nstates);
    let sequential: Vec<String> = states.iter().map(expand).collect();
    let mismatches = std::sync::atomic::AtomicUsize::new(0);
    let expansions = std::sync::atomic::AtomicUsize::new(0);
    let shared = &states;
    let seq = &sequential;
    std::thread::scope(|sc| {
        for t in 0..threads {
            let mism = &mismatches;
            let exps = &expansions;
            sc.spawn(move || {
                let n = shared.len();
                for k in 0..n {
                    // every thread walks the shared vector in its own order
                    let i = (k * (2 * t + 1) + t * 7) % n;
                    let got = expand(&shared[i]);
                    exps.fetch_add(1, std::sync::atomic::Ordering::Relaxed);
                    if got != seq[i] {
                        mism.fetch_add(1, std::sync::atomic::Ordering::Relaxed);
                    }
                    // clone and drop the shared state (touches the Arc counts of the history)
                    let c = shared[i].clone();
                    drop(c);
                }
            });
        }
    });
    // simultaneous FIRST queries on freshly built states (a lazily initialised cache would be raced here):
    // every round builds a fresh state, all threads wait at a barrier and then query it at once.
    let immobilised = [
        "7g\n +-----------------+\n8|               r |\n7|                 |\n6|     x     x     |\n5|                 |\n4|                 |\n3|     x     x     |\n2| c               |\n1| R c             |\n +-----------------+\n   a b c d e f g h\n",
        "7s\n +-----------------+\n8| r D             |\n7| D               |\n6|     x     x     |\n5|                 |\n4|                 |\n3|     x     x     |\n2|                 |\n1|               R |\n +-----------------+\n   a b c d e f g h\n",
    ];
    let rounds = nstates.max(200) * 4;
    let race_mismatch = std::sync::atomic::AtomicUsize::new(0);
    for r in 0..rounds {
        let fresh: GameState = if r % 2 == 0 { immobilised[(r / 2) % 2].parse().unwrap() } else { states[r % states.len()].clone() };
        let expect_state: GameState = if r % 2 == 0 { immobilised[(r / 2) % 2].parse().unwrap() } else { states[r % states.len()].clone() };
        let expect = (term_str(&expect_state.is_terminal()).to_string(), expect_state.valid_actions().len(), expect_state.transposition_hash());
        let barrier = std::sync::Barrier::new(threads);
        let fr = &fresh;
        let ex = &expect;
        let rm = &race_mismatch;
        let exps = &expansions;
        std::thread::scope(|sc| {
            for _ in 0..threads {
                let b = &barrier;
                sc.spawn(move || {
                    b.wait();
                    let got = (term_str(&fr.is_terminal()).to_string(), fr.valid_actions().len(), fr.transposition_hash());
                    exps.fetch_add(1, std::sync::atomic::Ordering::Relaxed);
                    if got != *ex {
                        rm.fetch_add(1, std::sync::atomic::Ordering::Relaxed);
                    }
                });
            }
        });
    }
    mismatches.fetch_add(race_mismatch.load(std::sync::atomic::Ordering::Relaxed), std::sync::atomic::Ordering::Relaxed);
    // the shared states are unchanged afterwards
    let after: Vec<String> = states.iter().map(expand).collect();
    let changed = after.iter().zip(sequential.iter()).filter(|(a, b)| a != b).count();
    println!(
        "{{\"threads\": {}, \"states\": {}, \"expansions\": {}, \"mismatches\": {}, \"changed_after\": {}}}",
        threads,
        states.len(),
        expansions.load(std::sync::atomic::Ordering::Relaxed),
        mismatches.load(std::sync::atomic::Ordering::Relaxed),
        changed
    );
    let bad = mismatches.load(std::sync::atomic::Ordering::Relaxed) + changed;
    std::process::exit(if bad == 0 { 0 } else { 1 });
}
