//! C20: a capture-free game of N turns on the real engine (a deterministic Gray-code tour, so
//! that no position occurs twice), then clone / query / drop, all on a 2 MiB thread.
//! Also measures the stack spread of dropping List<Probe> at two lengths.
//!
//! longgame play <turns>      exit 0 = survived; a stack overflow kills the process
//! longgame probe <n1> <n2>   prints the two stack spreads in bytes
use arimaa_engine_step::*;
use std::sync::atomic::{AtomicUsize, Ordering};

const START: &str = "2g
 +-----------------+
8| e m h h         |
7|             d d |
6| c     x     x   |
5|       d       r |
4| R     H         |
3| C     x     x   |
2|             D D |
1| E M H H         |
 +-----------------+
   a b c d e f g h
";

// tracks as square indices (bit i = file i%8, rank 8 - i/8)
fn sq(file: u8, rank: u8) -> u8 {
    (8 - rank) * 8 + file
}

struct Side {
    tracks: Vec<Vec<u8>>, // positions of each digit's track; the last one is cyclic
    digits: Vec<usize>,
    k: usize,
    period: usize,
}

impl Side {
    fn new(gold: bool) -> Side {
        let r = |x: u8| if gold { x } else { 9 - x };
        // digit 0..2: two-square tracks on the third rank; digits 3..6: 2x2 loops on ranks 1-2
        // start squares must match START: loops start at their first square
        let mut tracks = vec![];
        // rank-3 track a3-b3 holds the cat (gold C a3 / silver c a6)
        tracks.push(vec![sq(0, r(3)), sq(1, r(3))]);
        // loops: (a,b) E  (c? no) -> files ab: E a1; M b1? keep one piece per loop
        tracks.push(vec![sq(6, r(2)), sq(6, r(1)), sq(5, r(1)), sq(5, r(2))]); // D g2 loop over f,g
        tracks.push(vec![sq(7, r(2)), sq(7, r(1))]); // D h2 two-square track h2-h1
        tracks.push(vec![sq(2, r(1)), sq(2, r(2))]); // H c1 two-square track c1-c2
        tracks.push(vec![sq(3, r(1)), sq(3, r(2)), sq(4, r(2)), sq(4, r(1))]); // H d1 loop over d,e
        tracks.push(vec![sq(1, r(1)), sq(1, r(2))]); // M b1 two-square track b1-b2
        tracks.push(vec![sq(0, r(1)), sq(0, r(2))]); // E a1 two-square track a1-a2 (top digit, radix 2: cyclic)
        let period = tracks.iter().map(|t| t.len()).product();
        Side { digits: vec![0; tracks.len()], tracks, k: 0, period }
    }

    fn gray(&self, k: usize) -> Vec<usize> {
        let mut q = k;
        let mut a = vec![];
        for t in &self.tracks {
            a.push(q % t.len());
            q /= t.len();
        }
        // g_j = a_j if the number formed by the higher digits is even, else r_j - 1 - a_j
        let mut g = vec![0; a.len()];
        let mut higher = 0usize;
        let mut mult = 1usize;
        let _ = mult;
        for j in (0..a.len()).rev() {
            g[j] = if higher % 2 == 0 { a[j] } else { self.tracks[j].len() - 1 - a[j] };
            higher = higher * self.tracks[j].len() + a[j];
            mult *= self.tracks[j].len();
        }
        g
    }

    /// next single step of this side's tour
    fn next(&mut self) -> Action {
        let cur = self.gray(self.k);
        let nk = (self.k + 1) % self.period;
        let nxt = self.gray(nk);
        let j = (0..cur.len()).find(|&j| cur[j] != nxt[j]).expect("one digit changes");
        debug_assert_eq!(cur, self.digits);
        let from = self.tracks[j][cur[j]];
        let to = self.tracks[j][nxt[j]];
        self.digits = nxt;
        self.k = nk;
        let d = if to + 8 == from {
            Direction::Up
        } else if from + 8 == to {
            Direction::Down
        } else if from + 1 == to {
            Direction::Right
        } else if to + 1 == from {
            Direction::Left
        } else {
            panic!("tour step is not between adjacent squares: {} -> {}", from, to)
        };
        Action::Move(Square::from_index(from), d)
    }
}

fn play(turns: usize) -> (GameState, usize) {
    let mut s: GameState = START.parse().expect("start diagram");
    let mut gold = Side::new(true);
    let mut silver = Side::new(false);
    let mut offered_checked = 0;
    for t in 0..turns {
        let is_gold = t % 2 == 0;
        let steps = if !is_gold && gold.k == 0 && t > 1 { 2 } else { 1 };
        for _ in 0..steps {
            let a = if is_gold { gold.next() } else { silver.next() };
            if t < 600 || t % 997 == 0 {
                assert!(s.valid_actions().contains(&a), "tour step {} not offered at turn {}\n{}", a, t, s);
                offered_checked += 1;
            }
            s = s.take_action(&a);
        }
        if t < 600 || t % 997 == 0 {
            assert!(s.valid_actions().contains(&Action::Pass), "pass not offered at turn {}\n{}", t, s);
            assert!(s.is_terminal().is_none());
        }
        s = s.take_action(&Action::Pass);
    }
    (s, offered_checked)
}

/// Every query, on every state of the turn tree below `s` (all first steps, then a deterministic
/// sample per depth, always keeping the states in the middle of a push): the operations whose cost
/// or depth could depend on the length of the history are exercised at step 0..3, with and without
/// a pending push or pull, and on the states after a pass / fourth step.
fn sweep(s: &GameState) -> (usize, usize, usize) {
    let mut frontier = vec![s.clone()];
    let mut visited = 0usize;
    let mut mid_push = 0usize;
    let mut step3 = 0usize;
    let mut lcg = 0x2545F4914F6CDD1Du64;
    for _depth in 0..5 {
        let mut next: Vec<GameState> = vec![];
        for st in &frontier {
            visited += 1;
            let va = st.valid_actions();
            let vanr = st.valid_actions_no_rep();
            let _ = st.is_terminal();
            let _ = st.can_pass(true);
            let _ = st.can_pass(false);
            let _ = st.has_move(st.piece_board());
            let _ = st.transposition_hash();
            let _ = format!("{}", st).len();
            if let Some(pp) = st.as_play_phase() {
                for i in 0..=pp.step() {
                    let _ = st.piece_board_for_step(i).all_pieces;
                }
                if matches!(pp.push_pull_state(), PushPullState::MustCompletePush(_, _)) {
                    mid_push += 1;
                }
                if pp.step() == 3 {
                    step3 += 1;
                }
                let _ = pp.hash_history().len();
            }
            for a in &va {
                let _ = st.trapped_animal_for_action(a);
            }
            let c = st.clone();
            drop(c);
            for a in &vanr {
                let n = st.take_action(a);
                let keep_always = n.as_play_phase().map_or(false, |pp| matches!(pp.push_pull_state(), PushPullState::MustCompletePush(_, _)));
                lcg = lcg.wrapping_mul(6364136223846793005).wrapping_add(1442695040888963407);
                if keep_always || next.len() < 24 || (lcg >> 33) % 8 == 0 {
                    next.push(n);
                }
            }
        }
        if next.len() > 60 {
            // keep the mid-push states and a spread of the rest
            let (mut a, b): (Vec<GameState>, Vec<GameState>) =
                next.into_iter().partition(|n| n.as_play_phase().map_or(false, |pp| matches!(pp.push_pull_state(), PushPullState::MustCompletePush(_, _))));
            a.truncate(30);
            let stride = (b.len() / 30).max(1);
            a.extend(b.into_iter().step_by(stride).take(30));
            next = a;
        }
        frontier = next;
        if frontier.is_empty() {
            break;
        }
    }
    (visited, mid_push, step3)
}

static LO: AtomicUsize = AtomicUsize::new(usize::MAX);
static HI: AtomicUsize = AtomicUsize::new(0);

struct Probe(#[allow(dead_code)] u64);
impl Drop for Probe {
    fn drop(&mut self) {
        let local = 0u8;
        let a = &local as *const u8 as usize;
        LO.fetch_min(a, Ordering::Relaxed);
        HI.fetch_max(a, Ordering::Relaxed);
    }
}

fn spread(n: usize) -> usize {
    LO.store(usize::MAX, Ordering::Relaxed);
    HI.store(0, Ordering::Relaxed);
    let mut l: List<Probe> = List::new();
    for i in 0..n {
        l = l.append(Probe(i as u64));
    }
    let c = l.clone();
    drop(c);
    drop(l);
    HI.load(Ordering::Relaxed) - LO.load(Ordering::Relaxed)
}

fn main() {
    let argv: Vec<String> = std::env::args().collect();
    let mode = argv.get(1).map(|s| s.as_str()).unwrap_or("play");
    if mode == "probe" {
        let n1: usize = argv.get(2).and_then(|x| x.parse().ok()).unwrap_or(1000);
        let n2: usize = argv.get(3).and_then(|x| x.parse().ok()).unwrap_or(100000);
        // a huge (lazily committed) stack so that a linear variant shows as linear, not as a crash
        let h = std::thread::Builder::new().stack_size(4 << 30).spawn(move || (spread(n1), spread(n2))).unwrap();
        let (s1, s2) = h.join().unwrap();
        println!("{{\"n1\": {}, \"spread1\": {}, \"n2\": {}, \"spread2\": {}}}", n1, s1, n2, s2);
        return;
    }
    if mode == "race" {
        // several threads hold the only clones of a long history and drop them at the same moment
        let turns: usize = argv.get(2).and_then(|x| x.parse().ok()).unwrap_or(25000);
        let rounds: usize = argv.get(3).and_then(|x| x.parse().ok()).unwrap_or(100);
        let workers = std::thread::available_parallelism().map(|n| n.get()).unwrap_or(4).clamp(2, 8);
        for _ in 0..rounds {
            let (s, _) = play(turns);
            let clones: Vec<GameState> = (0..workers).map(|_| s.clone()).collect();
            drop(s);
            // spin barrier: all workers leave it within nanoseconds of each other
            let ready = std::sync::Arc::new(AtomicUsize::new(0));
            let mut hs = vec![];
            for c in clones {
                let r = ready.clone();
                hs.push(
                    std::thread::Builder::new()
                        .stack_size(2 * 1024 * 1024)
                        .spawn(move || {
                            let _ = c.transposition_hash();
                            r.fetch_add(1, Ordering::SeqCst);
                            while r.load(Ordering::SeqCst) < workers {
                                std::hint::spin_loop();
                            }
                            drop(c);
                        })
                        .unwrap(),
                );
            }
            for h in hs {
                h.join().expect("dropping thread");
            }
        }
        println!("{{\"race_rounds\": {}, \"turns\": {}, \"workers\": {}}}", rounds, turns, workers);
        return;
    }
    let turns: usize = argv.get(2).and_then(|x| x.parse().ok()).unwrap_or(100000);
    let h = std::thread::Builder::new()
        .stack_size(2 * 1024 * 1024)
        .spawn(move || {
            let (s, checked) = play(turns);
            let hist = s.unwrap_play_phase().hash_history().len();
            let c = s.clone();
            let va = c.valid_actions().len();
            let term = c.is_terminal().is_some();
            let h = c.transposition_hash();
            drop(c);
            let shown = format!("{}", s).len();
            let sw = sweep(&s);
            drop(s);
            (hist, va, term, h, shown, checked, sw)
        })
        .unwrap();
    let (hist, va, term, hash, shown, checked, sw) = h.join().expect("game thread");
    // the same history discarded while a panic unwinds (the state is a local of the panicking frame):
    // dropping must not take another route then
    std::panic::set_hook(Box::new(|_| {}));
    let h2 = std::thread::Builder::new()
        .stack_size(2 * 1024 * 1024)
        .spawn(move || {
            let r = std::panic::catch_unwind(|| {
                let (s, _) = play(turns);
                let c = s.clone();
                if c.move_number() > 0 {
                    panic!("deliberate panic with a long history alive");
                }
                drop(s);
            });
            r.is_err()
        })
        .unwrap();
    let unwound = h2.join().expect("unwinding thread");
    assert!(unwound);
    println!(
        "{{\"turns\": {}, \"history_len\": {}, \"valid_actions\": {}, \"terminal\": {}, \"hash\": \"{:016x}\", \"printed_len\": {}, \"offered_checks\": {}, \"swept_states\": {}, \"swept_mid_push\": {}, \"swept_step3\": {}}}",
        turns, hist, va, term, hash, shown, checked, sw.0, sw.1, sw.2
    );
}
