//! Encoding of real engine values into the line protocol (see lean/Driver/Proto.lean).
use crate::util::*;
use arimaa_engine_step::*;
use std::hash::{Hash, Hasher};

/// Captures the u64 that `impl Hash for GameState` feeds to the hasher: the raw Zobrist word.
struct Cap(u64);
impl Hasher for Cap {
    fn finish(&self) -> u64 {
        self.0
    }
    fn write(&mut self, _bytes: &[u8]) {}
    fn write_u64(&mut self, i: u64) {
        self.0 = i;
    }
}

/// what `impl Hash for GameState` feeds the hasher
pub fn hash_impl_word(s: &GameState) -> u64 {
    let mut c = Cap(0);
    s.hash(&mut c);
    c.0
}

/// The raw board-state hash of a state, recovered from `transposition_hash()` by removing the
/// status contribution (computed with the crate's own status tables on the initial Zobrist value).
/// Independent of `impl Hash`, which the C08 oracle compares with it.
pub fn raw_hash(s: &GameState) -> u64 {
    match s.as_play_phase() {
        None => guard(|| s.transposition_hash()).unwrap_or_else(|| hash_impl_word(s)),
        Some(pp) => {
            let pps = pp.push_pull_state();
            let r = guard(|| {
                let z = Zobrist::initial();
                s.transposition_hash() ^ z.board_state_hash_with_push_pull_state(pps) ^ z.board_state_hash()
            });
            r.unwrap_or_else(|| hash_impl_word(s))
        }
    }
}

pub type Words = [u64; 8];

pub fn words(b: &PieceBoardState) -> Words {
    [b.p1_pieces, b.all_pieces, b.elephants, b.camels, b.horses, b.dogs, b.cats, b.rabbits]
}

pub fn hex_words(w: &Words, sep: &str) -> String {
    w.iter().map(|x| format!("{:016x}", x)).collect::<Vec<_>>().join(sep)
}

pub fn piece_letter(p: Piece) -> char {
    match p {
        Piece::Elephant => 'e',
        Piece::Camel => 'm',
        Piece::Horse => 'h',
        Piece::Dog => 'd',
        Piece::Cat => 'c',
        Piece::Rabbit => 'r',
    }
}

pub fn dir_letter(d: Direction) -> char {
    match d {
        Direction::Up => 'n',
        Direction::Right => 'e',
        Direction::Down => 's',
        Direction::Left => 'w',
    }
}

pub fn enc_pps(p: PushPullState) -> String {
    match p {
        PushPullState::None => "-".to_string(),
        PushPullState::PossiblePull(sq, pc) => format!("L{}{}", sq.index(), piece_letter(pc)),
        PushPullState::MustCompletePush(sq, pc) => format!("U{}{}", sq.index(), piece_letter(pc)),
    }
}

/// protocol form of an action: own notation, independent of the crate's Display
pub fn enc_action(a: &Action) -> String {
    match a {
        Action::Pass => "p".to_string(),
        Action::Place(p) => piece_letter(*p).to_string(),
        Action::Move(sq, d) => {
            let i = sq.index();
            if i < 64 {
                format!("{}{}{}", (b'a' + (i % 8) as u8) as char, 8 - i / 8, dir_letter(*d))
            } else {
                format!("#{}{}", i, dir_letter(*d))
            }
        }
    }
}

/// `S` payload for a real state; `init_hash` is the raw hash at the start of the current turn
/// (tracked by the harness: `initial_hash_of_move` has no getter).
pub fn enc_state(s: &GameState, init_hash: u64) -> String {
    let side = if s.is_p1_turn_to_move() { "g" } else { "s" };
    let b = hex_words(&words(s.piece_board()), " ");
    match s.as_play_phase() {
        None => format!("{} {} L {} {:016x}", side, s.move_number(), b, raw_hash(s)),
        Some(pp) => {
            let mut out = format!("{} {} P {} {:016x} {}", side, s.move_number(), b, raw_hash(s), pp.previous_piece_boards().len());
            for pb in pp.previous_piece_boards() {
                out.push(' ');
                out.push_str(&hex_words(&words(pb.piece_board()), " "));
            }
            out.push_str(&format!(
                " {} {:016x} {}",
                enc_pps(pp.push_pull_state()),
                init_hash,
                if pp.piece_trapped_this_turn() { 1 } else { 0 }
            ));
            let hist: Vec<u64> = pp.hash_history().iter().map(|z| z.board_state_hash()).collect();
            out.push_str(&format!(" {}", hist.len()));
            for h in hist {
                out.push_str(&format!(" {:016x}", h));
            }
            out
        }
    }
}

pub fn term_str(t: &Option<Terminal>) -> &'static str {
    match t {
        None => "-",
        Some(Terminal::GoldWin) => "G",
        Some(Terminal::SilverWin) => "S",
    }
}

fn join_or(mut v: Vec<String>, sort: bool) -> String {
    if sort {
        v.sort();
    }
    if v.is_empty() {
        "-".to_string()
    } else {
        v.join(",")
    }
}

fn sq_name(i: usize) -> String {
    format!("{}{}", (b'a' + (i % 8) as u8) as char, 8 - i / 8)
}

fn p<T: ToString>(x: Option<T>) -> String {
    x.map_or("PANIC".to_string(), |v| v.to_string())
}

/// The expected answer to `O`: every public query of the real state, each under catch_unwind.
pub fn observe(s: &GameState) -> String {
    let va = guard(|| s.valid_actions());
    let vanr = guard(|| s.valid_actions_no_rep());
    let va_s = p(va.as_ref().map(|v| join_or(v.iter().map(enc_action).collect(), true)));
    let vanr_s = p(vanr.as_ref().map(|v| join_or(v.iter().map(enc_action).collect(), true)));
    let term = p(guard(|| term_str(&s.is_terminal()).to_string()));
    let cp0 = p(guard(|| if s.can_pass(false) { 1 } else { 0 }));
    let cp1 = p(guard(|| if s.can_pass(true) { 1 } else { 0 }));
    let hm = p(guard(|| term_str(&s.has_move(s.piece_board())).to_string()));
    let thash = p(guard(|| format!("{:016x}", s.transposition_hash())));
    let pv = match &vanr {
        None => "PANIC".to_string(),
        Some(v) => {
            let mut items = vec![];
            for a in v {
                let r = guard(|| s.trapped_animal_for_action(a));
                items.push(format!(
                    "{}:{}",
                    enc_action(a),
                    match r {
                        None => "PANIC".to_string(),
                        Some(None) => "-".to_string(),
                        Some(Some((sq, pc, g))) => format!("{}{}{}", sq_name(sq.index()), piece_letter(pc), if g { "g" } else { "s" }),
                    }
                ));
            }
            join_or(items, true)
        }
    };
    let pbs = if s.is_play_phase() {
        let step = guard(|| s.current_step());
        match step {
            None => "PANIC".to_string(),
            Some(k) => join_or(
                (0..=k)
                    .map(|i| guard(|| hex_words(&words(s.piece_board_for_step(i)), "/")).unwrap_or("PANIC".to_string()))
                    .collect(),
                false,
            ),
        }
    } else {
        "-".to_string()
    };
    let placebit = if s.is_play_phase() { "-".to_string() } else { p(guard(|| format!("{:016x}", s.piece_board().placement_bit()))) };
    let at: String = (0..64u8)
        .map(|i| match guard(|| s.piece_board().piece_type_at_square(&Square::from_index(i))) {
            None => '!',
            Some(None) => '.',
            Some(Some(pc)) => piece_letter(pc),
        })
        .collect();
    let views = p(guard(|| {
        let b = s.piece_board();
        let mut v = vec![];
        for pc in Piece::ALL.iter() {
            v.push(format!("{:016x}", b.bits_for_piece(*pc, true)));
            v.push(format!("{:016x}", b.bits_for_piece(*pc, false)));
            v.push(format!("{:016x}", b.bits_by_piece_type(*pc)));
        }
        v.push(format!("{:016x}", b.player_piece_mask(true)));
        v.push(format!("{:016x}", b.player_piece_mask(false)));
        v.join("/")
    }));
    let show = p(guard(|| pct_encode(&format!("{}", s))));
    format!(
        "va={} vanr={} term={} cp0={} cp1={} hm={} thash={} scratch={} pv={} pbs={} placebit={} at={} views={} show={}",
        va_s, vanr_s, term, cp0, cp1, hm, thash, thash, pv, pbs, placebit, at, views, show
    )
}

pub fn parse_outcome<T>(r: Option<Result<T, impl std::fmt::Debug>>, f: impl Fn(&T) -> String) -> String {
    match r {
        None => "panic".to_string(),
        Some(Err(_)) => "err".to_string(),
        Some(Ok(v)) => format!("ok {}", f(&v)),
    }
}
