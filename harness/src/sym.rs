//! C11: lock-step play of a game and its image under a symmetry, on the real code only.
use crate::enc::*;
use crate::gens::*;
use crate::oracle::*;
use crate::refmodel::*;
use crate::util::*;
use arimaa_engine_step::*;

#[derive(Clone, Copy, Debug, PartialEq, Eq)]
pub enum Sym {
    Mirror,
    Swap,
    Both,
}

pub fn sq_map(s: Sym, i: usize) -> usize {
    let (r, f) = (i / 8, i % 8);
    match s {
        Sym::Mirror => r * 8 + (7 - f),
        Sym::Swap => (7 - r) * 8 + f,
        Sym::Both => (7 - r) * 8 + (7 - f),
    }
}

pub fn dir_map(s: Sym, d: usize) -> usize {
    // n e s w
    let mirror = |d: usize| match d {
        1 => 3,
        3 => 1,
        x => x,
    };
    let flip = |d: usize| match d {
        0 => 2,
        2 => 0,
        x => x,
    };
    match s {
        Sym::Mirror => mirror(d),
        Sym::Swap => flip(d),
        Sym::Both => flip(mirror(d)),
    }
}

pub fn swaps_colour(s: Sym) -> bool {
    !matches!(s, Sym::Mirror)
}

pub fn board_map(s: Sym, b: &B) -> B {
    let mut n: B = [None; 64];
    for i in 0..64 {
        if let Some((g, t)) = b[i] {
            n[sq_map(s, i)] = Some((g ^ swaps_colour(s), t));
        }
    }
    n
}

pub fn action_map(s: Sym, a: &Action) -> Action {
    match a {
        Action::Move(q, d) => Action::Move(Square::from_index(sq_map(s, q.index()) as u8), dir_of(dir_map(s, dirn(*d)))),
        other => *other,
    }
}

fn term_map(s: Sym, t: &Option<Terminal>) -> Option<Terminal> {
    match t {
        None => None,
        Some(x) => Some(if swaps_colour(s) {
            match x {
                Terminal::GoldWin => Terminal::SilverWin,
                Terminal::SilverWin => Terminal::GoldWin,
            }
        } else {
            x.clone()
        }),
    }
}

fn sorted(v: &[Action]) -> Vec<String> {
    let mut s: Vec<String> = v.iter().map(enc_action).collect();
    s.sort();
    s
}

/// Plays one game from `(b, side)` and its image in lock step; all comparisons are on real outputs.
pub fn lockstep(b: &B, side: bool, mv: &str, sym: Sym, policy: Policy, plies: usize, rng: &mut Rng, rep: &mut Report) {
    let d1 = diagram(b, side, mv);
    lockstep_from(&d1, sym, policy, plies, None, rng, rep)
}

/// A stored game (diagram, `--`, actions) replayed in lock step with its image.
pub fn lockstep_game(text: &str, sym: Sym, rng: &mut Rng, rep: &mut Report) {
    let Some((start, acts)) = text.split_once("\n--\n") else { return };
    if start.trim() == "INIT" {
        return;
    }
    let script: Vec<Action> = acts.split_whitespace().filter_map(|a| a.parse::<Action>().ok()).collect();
    let n = script.len() + 1;
    lockstep_from(start, sym, Policy::Uniform, n, Some(script), rng, rep)
}

pub fn lockstep_from(d1: &str, sym: Sym, policy: Policy, plies: usize, script: Option<Vec<Action>>, rng: &mut Rng, rep: &mut Report) {
    let Some(g1) = Game::parse(d1) else { return };
    let b = arr(g1.state.piece_board());
    let side = g1.state.is_p1_turn_to_move();
    let mv = g1.state.move_number().to_string();
    let d2 = diagram(&board_map(sym, &b), side ^ swaps_colour(sym), &mv);
    let Some(mut g2) = Game::parse(&d2) else { return };
    let mut g1 = g1;
    let mut player = Player::new(policy, true);
    let mut dummy = Report::new();
    for ply in 0..plies {
        rep.eval("C11");
        let (s1, s2) = (g1.state.clone(), g2.state.clone());
        let (va1, va2) = (s1.valid_actions(), s2.valid_actions());
        let (nr1, nr2) = (s1.valid_actions_no_rep(), s2.valid_actions_no_rep());
        let m: Vec<Action> = va1.iter().map(|a| action_map(sym, a)).collect();
        let mn: Vec<Action> = nr1.iter().map(|a| action_map(sym, a)).collect();
        let ab = arr(s1.piece_board());
        let nontrivial = (0..64).any(|i| ab[i].is_some() && (i % 8 == 0 || i % 8 == 7 || ab[i].map_or(false, |c| c.1 == 0) || TRAPS.iter().any(|t| (0..4).any(|d| nb(*t, d) == Some(i)))));
        if nontrivial {
            rep.nontriv("C11", state_key(&s1) ^ (sym as u64 + 1) * 0x1234567);
        }
        if sorted(&mn) != sorted(&nr2) {
            rep.fail("C11", "rule-only-lists-not-symmetric", &g1, format!("{:?}: image of {:?} vs {:?}", sym, sorted(&nr1), sorted(&nr2)));
            return;
        }
        if sorted(&m) != sorted(&va2) {
            // the only known cause on the unchanged tree is a Zobrist collision (finding F8)
            rep.fail("C11", "offered-lists-not-symmetric", &g1, format!("{:?}: image of {:?} vs {:?}", sym, sorted(&va1), sorted(&va2)));
            return;
        }
        let (t1, t2) = (s1.is_terminal(), s2.is_terminal());
        if term_map(sym, &t1) != t2 {
            rep.fail("C11", "results-not-symmetric", &g1, format!("{:?}: {:?} vs {:?}", sym, t1, t2));
            return;
        }
        for a in &nr1 {
            let p1 = s1.trapped_animal_for_action(a);
            let p2 = s2.trapped_animal_for_action(&action_map(sym, a));
            let p1m = p1.map(|(q, p, g)| (sq_map(sym, q.index()), p, g ^ swaps_colour(sym)));
            let p2m = p2.map(|(q, p, g)| (q.index(), p, g));
            if p1m != p2m {
                rep.fail("C11", "captures-not-symmetric", &g1, format!("{:?}: {} -> {:?} vs {:?}", sym, enc_action(a), p1m, p2m));
                return;
            }
        }
        if t1.is_some() || va1.is_empty() {
            return;
        }
        let a = match &script {
            Some(sc) => {
                if ply >= sc.len() || !va1.contains(&sc[ply]) {
                    return;
                }
                sc[ply]
            }
            None => player.choose(&g1, &va1, rng),
        };
        let a2 = action_map(sym, &a);
        if !g1.step(&a, &mut dummy) || !g2.step(&a2, &mut dummy) {
            return;
        }
        if board_map(sym, &arr(g1.state.piece_board())) != arr(g2.state.piece_board()) {
            rep.fail("C11", "successor-boards-not-symmetric", &g1, format!("{:?} after {}", sym, enc_action(&a)));
            return;
        }
    }
}
