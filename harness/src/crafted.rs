//! G9: states built with GameState::new / PlayPhase::new whose per-turn record and hash history are
//! chosen to drive every arm of the repetition logic (pass / fourth step, "same as turn start" /
//! "twice in history", history lengths 0..6) — shapes that real games reach only rarely.
//! Deterministic from the PRNG state, so `CRAFT <seed>` is a complete replay recipe.
use crate::enc::*;
use crate::feat::board_of;
use crate::gens::random_position;
use crate::oracle::*;
use crate::refmodel::*;
use crate::util::*;
use arimaa_engine_step::*;

fn z(b: &B, side: bool, step: usize) -> Zobrist {
    Zobrist::from_piece_board(board_of(b).piece_board(), side, step)
}

pub fn craft(rng: &mut Rng) -> Option<(GameState, u64)> {
    let dens = [2usize, 3, 4, 6, 9][rng.below(5)];
    let (b, side) = random_position(rng, dens, true, true);
    let step = rng.below(4);
    let empties: Vec<usize> = (0..64).filter(|i| b[*i].is_none()).collect();
    if empties.is_empty() {
        return None;
    }
    let near = |want_gold: bool| -> Vec<usize> {
        empties.iter().cloned().filter(|q| (0..4).any(|d| nb(*q, d).map_or(false, |j| matches!(b[j], Some((g, _)) if g == want_gold)))).collect()
    };
    let pps = if step == 0 {
        PushPullState::None
    } else {
        match rng.below(4) {
            0 => PushPullState::None,
            1 | 2 => {
                let c = near(!side);
                let q = if !c.is_empty() && rng.chance(4, 5) { *rng.pick(&c) } else { *rng.pick(&empties) };
                PushPullState::PossiblePull(Square::from_index(q as u8), piece_of(1 + rng.below(5) as u8))
            }
            _ => {
                let c = near(side);
                let q = if !c.is_empty() && rng.chance(4, 5) { *rng.pick(&c) } else { *rng.pick(&empties) };
                PushPullState::MustCompletePush(Square::from_index(q as u8), piece_of(rng.below(5) as u8))
            }
        }
    };
    let trapped = step > 0 && rng.chance(1, 5);
    let pb = board_of(&b);
    let h = z(&b, side, step);
    let prev: Vec<PieceBoard> = (0..step).map(|_| pb.clone()).collect();
    // preliminary state to learn which boards turn-ending actions lead to
    let s0 = GameState::new(side, 7, Phase::PlayPhase(PlayPhase::new(z(&[None; 64], side, 0), List::new(), prev.clone(), pps, trapped)), pb.clone(), h);
    let mut results: Vec<B> = vec![b]; // result of a pass
    if step == 3 {
        if let Some(v) = guard(|| s0.valid_actions_no_rep()) {
            for a in v {
                if let Action::Move(_, _) = a {
                    if let Some(n) = guard(|| s0.take_action(&a)) {
                        results.push(arr(n.piece_board()));
                    }
                }
            }
        }
    }
    let other = random_position(rng, dens, true, true).0;
    let init = match rng.below(5) {
        0 | 1 => z(&b, side, 0),
        2 | 3 => z(rng.pick(&results), side, 0),
        _ => z(&other, side, 0),
    };
    let len = rng.below(7);
    let mut hist: List<Zobrist> = List::new();
    let focus = *rng.pick(&results);
    for _ in 0..len {
        let e = match rng.below(6) {
            0 | 1 | 2 => z(&focus, !side, 0),
            3 => z(rng.pick(&results), !side, 0),
            4 => z(&focus, side, 0),
            _ => z(&other, !side, 0),
        };
        hist = hist.append(e);
    }
    let s = GameState::new(side, 7, Phase::PlayPhase(PlayPhase::new(init, hist, prev, pps, trapped)), pb, h);
    Some((s, init.board_state_hash()))
}

/// Self-consistency clauses that make sense on any state, reachable or not.
pub fn check(s: &GameState, seed: u64, rep: &mut Report) {
    let start = format!("CRAFT {}", seed);
    let Some(va) = guard(|| s.valid_actions()) else { return };
    let Some(vanr) = guard(|| s.valid_actions_no_rep()) else { return };
    let Some(term) = guard(|| s.is_terminal()) else { return };
    let pb = s.piece_board().clone();
    let step = s.current_step();
    rep.eval("C07");
    rep.eval("C06");
    rep.nontriv("C07", state_key(s) ^ seed);
    rep.nontriv("C06", state_key(s) ^ seed);
    let shown = format!("{}", s);
    if s.has_move(&pb).is_none() != !va.is_empty() {
        rep.fail_raw("C07", "has-move-vs-list", start.clone(), vec![], format!("(constructed state) has_move={:?} va={:?}\n{}", s.has_move(&pb), va, shown));
    }
    if s.can_pass(true) != va.contains(&Action::Pass) || s.can_pass(false) != vanr.contains(&Action::Pass) {
        rep.fail_raw("C07", "can-pass-vs-list", start.clone(), vec![], format!("(constructed state) {}", shown));
    }
    if step > 0 && term.is_some() != va.is_empty() {
        rep.fail_raw("C07", "mid-turn-result-vs-list", start.clone(), vec![], format!("(constructed state) term={:?} va={:?}\n{}", term, va, shown));
    }
    // C06 shape: offered list = rule-only list minus turn-ending actions, same order
    let mut it = vanr.iter();
    let sub = va.iter().all(|a| it.any(|b| b == a));
    if !sub {
        rep.fail_raw("C06", "offered-not-a-sublist-of-rule-only", start.clone(), vec![], format!("(constructed state) va={:?} vanr={:?}", va, vanr));
    }
    for a in &vanr {
        if !va.contains(a) && !(matches!(a, Action::Pass) || step == 3) {
            rep.fail_raw("C06", "non-turn-ending-action-withheld", start.clone(), vec![], format!("(constructed state) {} withheld at step {}", enc_action(a), step));
        }
    }
}

pub fn run(rng: &mut Rng, n: usize, rep: &mut Report, sink: &mut Sink) {
    for _ in 0..n {
        let seed = rng.next();
        let mut r = Rng(seed);
        let Some((s, ih)) = craft(&mut r) else { continue };
        rep.count("crafted-states");
        let hl = s.unwrap_play_phase().hash_history().len();
        rep.count(&format!("crafted-hist-len-{}", hl));
        sink.emit(&format!("S {}", enc_state(&s, ih)), "ok");
        sink.emit("O", &observe(&s));
        check(&s, seed, rep);
    }
}
